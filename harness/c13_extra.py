"""C13 helpers: structured graph families with small weight alphabets, and operation histories on ONE SimpleGraph object
(every dict method a caller may use between two matchings, results collected before use, returned sets mutated by the
caller, the object copied / emptied / refilled at another size).  Nothing here computes an expected value: the histories
are executed on the real SimpleGraph and logged; the judgement is made in c13.py by the extracted checker (and the
independent DP) on the content of the object at the time of each call, and the contents themselves are compared with the
Coq model of the history (Decoders/MatchingHist.v, engine command `hist`)."""
import copy
import itertools
import random
from fractions import Fraction

# ------------------------------------------------------------------------------------------------------------------
# weight alphabets: few distinct values => many zeros, ties and negatives; all sums are exact doubles
ALPHABETS = {
    'int5': [-2, -1, 0, 1, 2],
    'int3': [-1, 0, 1],
    'int7': [-3, -2, -1, 0, 1, 2, 3],
    'pm-one': [-1, 1],
    'zero-one': [0, 1],
    'zero-heavy': [0, 0, 0, 0, 1, -1, 2, -2],
    'neg-int': [-3, -2, -1],
    'float5': [-1.0, -0.5, 0.0, 0.5, 1.0],
    'float-unit': [-1.0, 0.0, 1.0, 2.0],
    'mixed-int-float': [-2, -1, -1.0, 0, 0.0, 1, 1.0, 2.5],
    'quarters': [-0.75, -0.25, 0.0, 0.25, 0.75, 1.5],
}
ALPHABET_NAMES = tuple(sorted(ALPHABETS))

FAMILIES = ('cycle', 'path', 'ladder', 'grid', 'knn', 'tree-pm', 'pruned', 'prism', 'cycle-chord', 'cube', 'complete',
            'union', 'knn-minus', 'caterpillar')


def family_edges(rng, fam, nmax, dense_max=10):
    """(n, edges) of one member of the family with at most nmax nodes (dense families at most dense_max): node labels
    0..n-1, edges as (i, j). Every family member has an even number of nodes; most have a perfect matching."""
    if fam == 'cycle':
        n = 2 * rng.randint(2, nmax // 2)
        return n, [(i, (i + 1) % n) for i in range(n)]
    if fam == 'path':
        n = 2 * rng.randint(1, nmax // 2)
        return n, [(i, i + 1) for i in range(n - 1)]
    if fam == 'ladder':
        k = rng.randint(2, nmax // 2)
        e = [(i, i + 1) for i in range(k - 1)] + [(k + i, k + i + 1) for i in range(k - 1)] + [(i, k + i) for i in range(k)]
        return 2 * k, e
    if fam == 'grid':
        shapes = [(r, c) for r in range(2, 6) for c in range(r, 11) if r * c % 2 == 0 and r * c <= nmax]
        r, c = rng.choice(shapes)
        e = [(i * c + j, i * c + j + 1) for i in range(r) for j in range(c - 1)] + \
            [(i * c + j, (i + 1) * c + j) for i in range(r - 1) for j in range(c)]
        return r * c, e
    if fam in ('knn', 'knn-minus'):
        k = rng.randint(2, min(dense_max, nmax) // 2)
        e = [(i, k + j) for i in range(k) for j in range(k)]
        if fam == 'knn-minus':      # K_kk with some edges pruned, a perfect matching kept
            perm = list(range(k))
            rng.shuffle(perm)
            keep = set((i, k + perm[i]) for i in range(k))
            e = [x for x in e if x in keep or rng.random() < 0.6]
        return 2 * k, e
    if fam == 'tree-pm':            # a tree with a (unique) perfect matching: pairs joined into a tree
        k = rng.randint(1, nmax // 2)
        e = [(2 * i, 2 * i + 1) for i in range(k)]
        for i in range(1, k):
            j = rng.randrange(i)
            e.append((2 * i + rng.randint(0, 1), 2 * j + rng.randint(0, 1)))
        return 2 * k, e
    if fam == 'caterpillar':        # a path with a pendant leaf on every spine node: unique perfect matching
        k = rng.randint(1, nmax // 2)
        return 2 * k, [(i, i + 1) for i in range(k - 1)] + [(i, k + i) for i in range(k)]
    if fam == 'pruned':             # decoder-like: defects on a lattice, long edges pruned, a perfect matching kept
        n = 2 * rng.randint(1, min(dense_max, nmax) // 2)
        pts = rng.sample([(r, c) for r in range(6) for c in range(6)], n)
        thr = rng.randint(2, 5)
        e = [(i, j) for i, j in itertools.combinations(range(n), 2)
             if abs(pts[i][0] - pts[j][0]) + abs(pts[i][1] - pts[j][1]) <= thr]
        perm = list(range(n))
        rng.shuffle(perm)
        for i in range(0, n, 2):
            x = (min(perm[i], perm[i + 1]), max(perm[i], perm[i + 1]))
            if x not in e:
                e.append(x)
        return n, e
    if fam == 'prism':              # two k-cycles joined by rungs: bipartite iff k is even
        k = rng.randint(3, max(3, nmax // 2))
        e = [(i, (i + 1) % k) for i in range(k)] + [(k + i, k + (i + 1) % k) for i in range(k)] + [(i, k + i) for i in range(k)]
        return 2 * k, e
    if fam == 'cycle-chord':
        n = 2 * rng.randint(2, min(12, nmax) // 2)
        e = [(i, (i + 1) % n) for i in range(n)]
        for _ in range(rng.randint(1, 3)):
            a, b = rng.sample(range(n), 2)
            x = (min(a, b), max(a, b))
            if x not in e and (x[1], x[0]) not in e:
                e.append(x)
        return n, e
    if fam == 'cube':
        d = rng.choice([2, 3, 3, 4]) if nmax >= 16 else rng.choice([2, 3, 3])
        n = 1 << d
        return n, [(i, i ^ (1 << b)) for i in range(n) for b in range(d) if i < i ^ (1 << b)]
    if fam == 'complete':
        n = 2 * rng.randint(1, min(8, dense_max, nmax) // 2)
        return n, list(itertools.combinations(range(n), 2))
    if fam == 'complete-big':       # only for histories that cross the 64-edge mark on one object (K12 has 66 edges)
        n = 2 * rng.randint(max(1, min(5, nmax // 2)), max(1, min(dense_max, nmax) // 2))
        return n, list(itertools.combinations(range(n), 2))
    if fam == 'union':              # two components
        f1, f2 = rng.choice(FAMILIES[:6]), rng.choice(FAMILIES[:6])
        n1, e1 = family_edges(rng, f1, max(4, nmax // 2), dense_max)
        n2, e2 = family_edges(rng, f2, max(4, nmax - n1), dense_max)
        return n1 + n2, e1 + [(a + n1, b + n1) for a, b in e2]
    raise ValueError(fam)


def structured_graph(rng, nmax, dense_max=10):
    """one structured graph: (family, alphabet name, n, ops [(a, b, w)]) with relabelled nodes, random orientation, natural
    or shuffled insertion order"""
    fam = rng.choice(FAMILIES)
    n, edges = family_edges(rng, fam, nmax, dense_max)
    an = rng.choice(ALPHABET_NAMES + ('distance',) if fam == 'pruned' else ALPHABET_NAMES)
    perm = list(range(n))
    if rng.random() < 0.7:
        rng.shuffle(perm)
    if rng.random() < 0.5:
        edges = list(edges)
        rng.shuffle(edges)
    ops = []
    shift = rng.choice([0, 0, 0, 1, -1, 7])       # the whole alphabet moved by a constant: same minimiser, other values
    for a, b in edges:
        a, b = perm[a], perm[b]
        if rng.random() < 0.5:
            a, b = b, a
        if an == 'distance':
            w = rng.randint(0, 6)
        else:
            w = rng.choice(ALPHABETS[an]) + shift
        ops.append((a, b, w))
    return fam, an, n, ops


# ------------------------------------------------------------------------------------------------------------------
# DENSE-LARGE graphs: complete and complete bipartite graphs with 60 - 190 edges (12 - 20 nodes), optionally minus a few
# edges, over EVERY weight source the harness knows plus sign-structured ones (all negative, negated non-negative weights
# as used for maximum-weight matching, a few strongly negative edges among positive ones, one barely negative edge, a
# non-negative assignment shifted below zero, mixed-sign floats).  Sizes beyond what exhaustive enumeration on 4-10 nodes
# reaches, so that behaviour that depends on the NUMBER OF EDGES (pruning, batching, backend choice, scaling) is exercised
# for every sign pattern.  All weights are ints or dyadic floats whose sums are exact doubles.
DENSE_SHAPES = (('K12', 30), ('K12-minus', 12), ('K14', 12), ('K14-minus', 6), ('K8,8', 10), ('K8,8-minus', 5), ('K16', 8),
                ('K16-minus', 3), ('K9,9', 6), ('K9,9-minus', 2), ('K18', 3), ('K10,10', 2), ('K20', 1))
DENSE_KINDS = ('all-negative-int', 'negated-nonneg-int', 'negated-nonneg-float', 'few-strong-negative', 'one-negative',
               'shifted-below-zero', 'mixed-sign-float', 'mixed-sign-wide-int', 'nonneg-int')
# measured cost (seconds) of one `mcheck` of the extracted engine (memoised checker, Decoders/MatchingMemo.v); the plain
# constant-space recursion (`fcheck`, Decoders/MatchingMin.v) costs 0.1 s on K12, 1.5 s on K14, 25 s on K16
DENSE_ENGINE_COST = {'K12': 0.01, 'K14': 0.03, 'K8,8': 0.02, 'K16': 0.15, 'K9,9': 0.08, 'K18': 0.4, 'K10,10': 0.3, 'K20': 1.6}


def dense_edges(rng, shape):
    base, _, minus = shape.partition('-')
    if ',' in base:
        k = int(base[1:].split(',')[0])
        n, e = 2 * k, [(i, k + j) for i in range(k) for j in range(k)]
    else:
        n = int(base[1:])
        e = list(itertools.combinations(range(n), 2))
    if minus:
        drop = set(rng.sample(range(len(e)), rng.randint(1, 6)))
        e = [x for i, x in enumerate(e) if i not in drop]
    return n, e


def dense_weights(rng, kind, m):
    """m weights of one sign-structured kind"""
    if kind == 'all-negative-int':
        return [rng.randint(-20, -1) for _ in range(m)]
    if kind == 'negated-nonneg-int':          # maximum-weight perfect matching through the minimum-weight entry point
        return [-rng.randint(0, 20) for _ in range(m)]
    if kind == 'negated-nonneg-float':
        return [-(rng.randint(0, 160) / 8.0) for _ in range(m)]
    if kind == 'few-strong-negative':
        ws = [rng.randint(1, 20) for _ in range(m)]
        for i in rng.sample(range(m), rng.randint(1, 6)):
            ws[i] = -rng.randint(5, 15)
        return ws
    if kind == 'one-negative':                # the least negativity there is: one edge at -1 (or -1/8) among positives
        ws = [rng.choice([rng.randint(1, 9), rng.randint(1, 72) / 8.0]) for _ in range(m)]
        ws[rng.randrange(m)] = rng.choice([-1, -0.125, -9])
        return ws
    if kind == 'shifted-below-zero':          # a non-negative assignment moved down by a constant
        c = rng.choice([5, 10, 25])
        return [rng.randint(0, 9) - c for _ in range(m)]
    if kind == 'mixed-sign-float':
        return [rng.randint(-80, 80) / 8.0 for _ in range(m)]
    if kind == 'mixed-sign-wide-int':
        return [rng.choice([-1, 1]) * rng.choice([0, 1, 2, 3, 50, 1000, 10 ** 6]) for _ in range(m)]
    return [rng.randint(0, 12) for _ in range(m)]


def dense_graph(rng, make_weight, weight_kinds):
    """one dense-large graph: (shape, weight-source name, n, ops [(a, b, w)]); nodes relabelled, orientation random,
    natural or shuffled insertion order, sometimes a few edges re-inserted (reversed or not) with a new weight"""
    shape = rng.choices([s for s, _ in DENSE_SHAPES], [k for _, k in DENSE_SHAPES])[0]
    n, edges = dense_edges(rng, shape)
    m = len(edges)
    r = rng.random()
    if r < 0.3:
        an = rng.choice(ALPHABET_NAMES)
        shift = rng.choice([0, 0, 0, 1, -1, 7, -7])
        ws = [rng.choice(ALPHABETS[an]) + shift for _ in range(m)]
        draw = lambda: rng.choice(ALPHABETS[an]) + shift      # noqa
        wname = 'alphabet:' + an
    elif r < 0.55:
        wk = rng.choice(weight_kinds)
        ws = [make_weight(rng, wk) for _ in range(m)]
        draw = lambda: make_weight(rng, wk)                    # noqa
        wname = 'kind:' + wk
    else:
        dk = rng.choice(DENSE_KINDS)
        ws = dense_weights(rng, dk, m)
        draw = lambda: dense_weights(rng, dk, 1)[0]            # noqa
        wname = dk
    perm = list(range(n))
    if rng.random() < 0.7:
        rng.shuffle(perm)
    order = list(range(m))
    if rng.random() < 0.5:
        rng.shuffle(order)
    ops = []
    for i in order:
        a, b = perm[edges[i][0]], perm[edges[i][1]]
        if rng.random() < 0.5:
            a, b = b, a
        ops.append((a, b, ws[i]))
    if rng.random() < 0.3:
        for _ in range(rng.randint(1, 4)):
            a, b, w = rng.choice(ops)
            if rng.random() < 0.7:
                a, b = b, a
            if wname == 'few-strong-negative':
                w = -rng.randint(5, 15)
            elif wname == 'one-negative':
                pass                                          # same weight, other orientation
            else:
                w = draw()
            ops.append((a, b, w))
    return shape, wname, n, ops


# ------------------------------------------------------------------------------------------------------------------
# histories on one SimpleGraph object
def wtok(w):
    f = Fraction(w)
    return '%d/%d' % (f.numerator, f.denominator)


class HistRunner:
    """executes operations on one SimpleGraph (nodes given by index into `objs`) and logs: the operation (JSON-able), the
    token for the Coq model, the content after every content-changing operation, and every matcher call (result
    canonicalised at once AND kept as the returned object, to be read again at the very end)"""

    def __init__(self, gt, objs):
        self.gt = gt
        self.objs = objs
        self.index = {}
        for i, o in enumerate(objs):
            self.index[o] = i
        self.g = gt.SimpleGraph()
        self.ops = []        # JSON-able log
        self.hops = []       # model tokens
        self.states = []     # items after each model token
        self.events = []     # matcher calls
        self.last = None     # last returned object

    # -- helpers
    def items(self, graph=None):
        ix = self.index
        return [((ix[a], ix[b]), w) for (a, b), w in (self.g if graph is None else graph).items()]

    def key(self, a, b):
        return (self.objs[a], self.objs[b])

    def _logged(self, op, tok):
        self.ops.append(op)
        self.hops.append(tok)
        self.states.append(self.items())

    def canon(self, m):
        if not isinstance(m, (set, frozenset)):
            return 'ERR type ' + type(m).__name__
        try:
            return sorted((self.index[a], self.index[b]) for a, b in m)
        except Exception as e:  # noqa
            return 'ERR result ' + type(e).__name__ + ': ' + str(e)[:60]

    # -- one operation
    def do(self, op):
        g, c = self.g, op[0]
        if c == 'A':
            _, a, b, w = op
            g.add_edge(self.objs[a], self.objs[b], w)
            self._logged(['A', a, b, wtok(w)], 'A:%d:%d:%s' % (a, b, wtok(w)))
        elif c == 'S':
            _, a, b, w = op
            g[self.key(a, b)] = w
            self._logged(['S', a, b, wtok(w)], 'S:%d:%d:%s' % (a, b, wtok(w)))
        elif c == 'D':
            _, a, b, how = op
            try:
                if how == 'del':
                    del g[self.key(a, b)]
                elif how == 'pop':
                    g.pop(self.key(a, b))
                else:
                    g.pop(self.key(a, b), None)
            except KeyError:
                pass
            self._logged(['D', a, b, how], 'D:%d:%d' % (a, b))
        elif c == 'P':
            try:
                g.popitem()
            except KeyError:
                pass
            self._logged(['P'], 'P')
        elif c == 'U':
            _, entries, how = op
            pairs = [(self.key(a, b), w) for a, b, w in entries]
            if how == 'dict':
                g.update(dict(pairs))
            elif how == 'pairs':
                g.update(pairs)
            elif how == 'ior':
                g |= dict(pairs)
                self.g = g
            else:
                g.update(iter(pairs))
            # dict(pairs) keeps the first position and the last value of a repeated key: as a sequence of writes this is
            # the same as writing the pairs in order
            self._logged(['U', [[a, b, wtok(w)] for a, b, w in entries], how],
                         'U:' + ','.join('%d:%d:%s' % (a, b, wtok(w)) for a, b, w in entries))
        elif c == 'F':
            _, a, b, w = op
            g.setdefault(self.key(a, b), w)
            self._logged(['F', a, b, wtok(w)], 'F:%d:%d:%s' % (a, b, wtok(w)))
        elif c == 'C':
            g.clear()
            self._logged(['C'], 'C')
        elif c == 'K':           # continue the history on a copy of the object
            how = op[1]
            if how == 'copy.copy':
                self.g = copy.copy(g)
            elif how == 'ctor':
                self.g = self.gt.SimpleGraph(g)
            else:
                self.g = self.gt.SimpleGraph(g.copy())
            self.ops.append(['K', how])
        elif c == 'X':           # the caller consumes / damages the set it was given
            how = op[1]
            m = self.last
            if isinstance(m, set):
                if how == 'clear':
                    m.clear()
                elif how == 'pop' and m:
                    m.pop()
                else:
                    m.add(('garbage', 'garbage'))
                for ev in self.events:
                    if ev['obj'] is m:
                        ev['mutated'] = True
            self.ops.append(['X', how])
        elif c == 'M':
            _, fname, target = op
            graph = g if target == 'self' else (dict(g) if target == 'dict' else g.copy())
            items = self.items(graph)
            try:
                m = getattr(self.gt, fname)(graph)
                res = self.canon(m)
            except Exception as e:  # noqa
                m = None
                res = 'ERR ' + type(e).__name__ + ': ' + str(e)[:80]
            after = self.items(graph)
            self.last = m
            self.events.append({'at': len(self.ops), 'fn': fname, 'target': target, 'items': items, 'res': res, 'obj': m,
                                'mutated': False, 'graph_changed': after != items})
            self.ops.append(['M', fname, target])
        else:
            raise ValueError(op)

    def finish(self, direct_eval):
        evs = []
        for ev in self.events:
            m = ev.pop('obj')
            ev['res_end'] = None if ev['mutated'] or m is None else self.canon(m)
            r = ev['res']
            ev['eval'] = direct_eval(ev['items'], r if isinstance(r, list) else [])
            evs.append(ev)
        return {'ops': self.ops, 'hops': self.hops, 'states': self.states, 'events': evs}


def _orient(run, a, b):
    """the orientation under which the pair is stored (raw dict writes must respect it), else as given"""
    if run.key(b, a) in run.g and run.key(a, b) not in run.g:
        return b, a
    return a, b


def gen_history(gt, objs, seed, make_weight, weight_kinds, nmax, direct_eval, dense_max=8):
    """generate and execute one history (the generator looks at the real object only to choose the next operation)"""
    rng = random.Random(seed)
    run = HistRunner(gt, objs)
    npool = len(objs)
    unsafe = rng.random() < 0.04        # a few histories write a reversed key with a raw dict method (graph outside the
    # property's domain until add_edge repairs it: those calls are skipped, the content is still compared)

    def weights():
        if rng.random() < 0.6:
            al = ALPHABETS[rng.choice(ALPHABET_NAMES)]
            return lambda: rng.choice(al)
        wk = rng.choice(weight_kinds)
        return lambda: make_weight(rng, wk)

    def put(a, b, w):
        """insert / re-weight one edge through a randomly chosen method"""
        r = rng.random()
        if r < 0.45:
            if rng.random() < 0.3:
                a, b = b, a
            run.do(('A', a, b, w))
            return
        a, b = _orient(run, a, b)
        if unsafe and rng.random() < 0.2:
            a, b = b, a
        if r < 0.65:
            run.do(('S', a, b, w))
        elif r < 0.8:
            run.do(('F', a, b, w))
        else:
            run.do(('U', [(a, b, w)], rng.choice(['dict', 'pairs', 'ior', 'iter'])))

    def bulk(entries):
        safe = []
        seen = {}
        for a, b, w in entries:
            a, b = _orient(run, a, b)
            if (b, a) in seen:
                a, b = b, a
            if unsafe and rng.random() < 0.2:
                a, b = b, a
            seen[(a, b)] = 1
            safe.append((a, b, w))
        run.do(('U', safe, rng.choice(['dict', 'pairs', 'ior', 'iter'])))

    def fill():
        fam = rng.choice(('cycle', 'ladder', 'grid', 'knn', 'complete', 'complete', 'pruned', 'prism', 'cycle-chord',
                          'knn-minus', 'tree-pm', 'path'))
        if dense_max > 8 and rng.random() < 0.6:
            fam = 'complete-big'
        n, edges = family_edges(rng, fam, min(nmax, npool), dense_max=min(dense_max, nmax))
        sub = rng.sample(range(npool), n)
        wf = weights()
        edges = list(edges)
        rng.shuffle(edges)
        if rng.random() < 0.3:
            bulk([(sub[a], sub[b], wf()) for a, b in edges])
        else:
            for a, b in edges:
                put(sub[a], sub[b], wf())

    def match():
        k = rng.random()
        fn = 'mwpm' if rng.random() < 0.5 else 'mwpm_networkx'
        target = 'self' if rng.random() < 0.85 else rng.choice(['dict', 'dictcopy'])
        run.do(('M', fn, target))
        if k < 0.25:
            run.do(('M', rng.choice(['mwpm', 'mwpm_networkx']), 'self'))
        if rng.random() < 0.25:
            run.do(('X', rng.choice(['clear', 'pop', 'garbage'])))

    def stored_keys():
        return [(run.index[a], run.index[b]) for a, b in run.g.keys()]

    def edit():
        ks = stored_keys()
        r = rng.random()
        ev = run.events[-1] if run.events else None
        if r < 0.22 and ev and isinstance(ev['res'], list):
            # remove the edges just matched (look for the next-best matching)
            how = rng.choice(['pop', 'popdef', 'del'])
            for a, b in ev['res']:
                a, b = _orient(run, a, b)
                run.do(('D', a, b, how))
        elif r < 0.42 and ks:
            # re-weight many edges at once
            wf = weights()
            sel = [k for k in ks if rng.random() < 0.7] or ks[:1]
            bulk([(a, b, wf()) for a, b in sel])
        elif r < 0.52 and ks:
            wf = weights()
            for a, b in rng.sample(ks, min(len(ks), rng.randint(1, 3))):
                put(a, b, wf())
        elif r < 0.62 and ks:
            for a, b in rng.sample(ks, min(len(ks), rng.randint(1, 2))):
                run.do(('D', a, b, rng.choice(['pop', 'popdef', 'del'])))
        elif r < 0.68:
            a, b = rng.sample(range(npool), 2)
            run.do(('D', a, b, rng.choice(['popdef', 'pop', 'del'])))      # most likely absent
        elif r < 0.76:
            for _ in range(rng.randint(1, 2)):
                run.do(('P',))
        elif r < 0.84:
            run.do(('C',))
            if rng.random() < 0.3:
                run.do(('M', rng.choice(['mwpm', 'mwpm_networkx']), 'self'))
            fill()
        elif r < 0.92:
            # new edges, possibly to new nodes (two at a time keeps the node count even)
            wf = weights()
            nodes = sorted(set(x for k in ks for x in k))
            fresh = [i for i in range(npool) if i not in nodes]
            if len(fresh) >= 2 and len(nodes) + 2 <= nmax and rng.random() < 0.6:
                a, b = rng.sample(fresh, 2)
                put(a, b, wf())
                if nodes:
                    put(a, rng.choice(nodes), wf())
                    put(b, rng.choice(nodes), wf())
            elif len(nodes) >= 2:
                a, b = rng.sample(nodes, 2)
                put(a, b, wf())
        else:
            run.do(('K', rng.choice(['copy.copy', 'ctor', 'dictcopy-ctor'])))

    def plant():
        """make a perfect matching likely: pair up the current nodes with add_edge (only pairs not yet adjacent)"""
        ks = stored_keys()
        nodes = sorted(set(x for k in ks for x in k))
        if len(nodes) % 2:
            fresh = [i for i in range(npool) if i not in nodes]
            if not fresh:
                return
            nodes.append(rng.choice(fresh))
        rng.shuffle(nodes)
        wf = weights()
        have = set(ks)
        for i in range(0, len(nodes), 2):
            a, b = nodes[i], nodes[i + 1]
            if (a, b) not in have and (b, a) not in have:
                put(a, b, wf())

    fill()
    match()
    for _ in range(rng.randint(1, 4)):
        for _ in range(rng.randint(1, 3)):
            edit()
        if rng.random() < 0.5:
            plant()
        match()
    return run.finish(direct_eval)


def replay_history(gt, ops, direct_eval):
    """re-execute a logged history on integer-labelled nodes"""
    nodes = set()
    for op in ops:
        if op[0] in 'ASDF':
            nodes.update(op[1:3])
        elif op[0] == 'U':
            for a, b, _ in op[1]:
                nodes.update((a, b))
    objs = list(range(max(nodes) + 1 if nodes else 0))
    run = HistRunner(gt, objs)

    def num(s):
        f = Fraction(s)
        return f.numerator if f.denominator == 1 else float(f)
    for op in ops:
        c = op[0]
        if c in 'ASF':
            run.do((c, op[1], op[2], num(op[3])))
        elif c == 'U':
            run.do(('U', [(a, b, num(w)) for a, b, w in op[1]], op[2]))
        else:
            run.do(tuple(op))
    return run.finish(direct_eval)
