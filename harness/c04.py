"""C04 — the run loop stops exactly on its limits and the aggregate is the fold of the runs.
Real app.run / run_ftp driven by a scripted error model and decoder realising a chosen outcome history."""
import itertools
import json
import math
import re
from fractions import Fraction

import numpy as np

from harness.common import exc_class, coq_list
from harness.proxies import ScriptedErrorModel, ScriptedDecoder


def ints(a):
    if a is None:
        return '_'
    a = [int(v) for v in a]
    return ','.join(map(str, a)) if a else '-'


def ulps(a, b):
    if a == b:
        return 0
    return abs(a - b) / math.ulp(max(abs(a), abs(b)))


PLAIN = (int, float, str, tuple, type(None), bool)


class Runaway(Exception):
    pass


class BoundedErrorModel(ScriptedErrorModel):
    """scripted error model that does not cycle: a generate call past the end of the script raises"""

    def generate(self, code, probability, rng=None):
        if len(self.calls) >= len(self.errors):
            raise Runaway('generate call %d past the end of the scripted history' % (len(self.calls) + 1))
        return super().generate(code, probability, rng)


def fhex(x):
    """bit-exact rendering of a float for replays (None / non-floats as they are)"""
    return x.hex() if isinstance(x, float) else x


def same(got, want):
    """echoed value is the value passed: equal, and for floats the same binary64 (0.1 + 0.2 is not 0.3, -0.0 not 0.0)"""
    if isinstance(want, float):
        return isinstance(got, float) and got == want and float(got).hex() == want.hex()
    return got == want

# ---- numeric kinds of the per-run vectors handed back through DecodeResult (documented type: numpy.array 1d) ----
# Values are integers in units of 1/DEN, so float kinds carry dyadic values k/4 whose sums are exact.
DEN = 4
KIND_DT = {'i8': np.int8, 'u8': np.uint8, 'i16': np.int16, 'u16': np.uint16, 'i32': np.int32, 'u32': np.uint32,
           'i64': np.int64, 'u64': np.uint64, 'f16': np.float16, 'f32': np.float32, 'f64': np.float64, 'obj': object}
KINDS = sorted(KIND_DT)
# (typical magnitude, occasional large magnitude) of the *values* (not scaled); floats are k/4 with k up to 4*that
KIND_MAG = {'i8': (3, 40), 'u8': (3, 80), 'i16': (9, 9000), 'u16': (9, 20000), 'i32': (9, 2 ** 29), 'u32': (9, 2 ** 30),
            'i64': (9, 2 ** 40), 'u64': (9, 2 ** 40), 'f16': (2, 64), 'f32': (9, 2 ** 22), 'f64': (9, 2 ** 42),
            'obj': (9, 2 ** 40)}
# narrow -> wide, used for the sorted orders
KIND_RANK = {k: i for i, k in enumerate(['u8', 'i8', 'u16', 'i16', 'f16', 'u32', 'i32', 'f32', 'u64', 'i64', 'f64', 'obj'])}


def is_float_kind(kind):
    return kind[0] == 'f'


def mk_array(kind, v):
    """integer vector v in units of 1/DEN -> numpy array of the given kind, or None if some entry is not exactly
    representable in that kind (then the scenario is outside the domain)"""
    if kind == 'obj':
        if any(x % DEN for x in v):
            return None
        a = np.empty(len(v), dtype=object)
        for i, x in enumerate(v):
            a[i] = x // DEN
        return a
    dt = np.dtype(KIND_DT[kind])
    if dt.kind in 'iu':
        info = np.iinfo(dt)
        if any(x % DEN or not (info.min <= x // DEN <= info.max) for x in v):
            return None
        return np.array([x // DEN for x in v], dtype=dt)
    with np.errstate(all='ignore'):
        a = np.array([x / DEN for x in v], dtype=np.float64).astype(dt)
    if any((not math.isfinite(float(y))) or Fraction(float(y)) != Fraction(x, DEN) for x, y in zip(v, a)):
        return None
    return a


def fits(dt, m):
    """is m/DEN exactly representable in dtype dt (object holds Python ints/floats: ints always, k/4 as float)"""
    if dt == np.dtype(object):
        return abs(m) < 2 ** 53 or m % DEN == 0
    if dt.kind in 'iu':
        info = np.iinfo(dt)
        return m % DEN == 0 and info.min <= m // DEN <= info.max
    if dt.kind == 'f':
        if abs(m) >= 2 ** 53:
            return False
        with np.errstate(all='ignore'):
            y = float(np.array(m / DEN, dtype=np.float64).astype(dt))
        return math.isfinite(y) and Fraction(y) == Fraction(m, DEN)
    return False


def in_domain(kinds, vals):
    """NumPy's own promotion rule (np.result_type of the kinds seen so far) gives the narrowest dtype a faithful
    running sum `acc = acc + v` can have after each run. A history is in the domain of the property iff every exact
    partial sum is representable in that dtype: otherwise the loss of information is the caller's choice of dtype
    (int8 + int8 wraps, float32 rounds) on ANY implementation that adds NumPy arrays, not a fault of the fold."""
    acc_dt, tot = None, None
    for kind, v in zip(kinds, vals):
        if v is None or (tot is not None and len(tot) != len(v)):
            return True     # presence / shape mismatch: an error is expected at this run, nothing is summed
        dt = np.dtype(KIND_DT[kind])
        acc_dt = dt if acc_dt is None else np.result_type(acc_dt, dt)
        tot = list(v) if tot is None else [a + b for a, b in zip(tot, v)]
        if not all(fits(acc_dt, m) for m in tot):
            return False
    return True


def scaled(a, den):
    """canonical string of an aggregate tuple in units of 1/den (exact)"""
    if a is None:
        return '_'
    out = []
    for v in a:
        try:
            f = Fraction(v) * den
            out.append(str(f.numerator) if f.denominator == 1 else '%d/%d' % (f.numerator, f.denominator))
        except (TypeError, ValueError, OverflowError):
            out.append(repr(v))
    return ','.join(out) if out else '-'


def unscale(x, den):
    """x/den as a plain int when integral, else as the (exact, dyadic) float"""
    return x // den if x % den == 0 else x / den


def run(ctx):
    import logging
    logging.getLogger('qecsim').setLevel(logging.ERROR)
    from qecsim import app
    from qecsim.error import QecsimError
    from qecsim.model import DecodeResult
    from qecsim.models.basic import FiveQubitCode, SteaneCode
    from qecsim.models.planar import PlanarCode
    rng = ctx.rng
    ctx.rule = ('real app.run/run_ftp with scripted error model + decoder realising a chosen history; every '
                '(max_runs,max_failures) in {None,1..5}^2 x all 2^6 success histories exhaustively, plus random '
                'histories to length %d with lc/cv vectors (None, shape changes), weights, ideal and ftp mode; '
                'per-run vectors whose numpy dtype varies from run to run (all ordered pairs of 12 kinds, random '
                'kind sequences, shared array objects), totals decided exactly in units of 1/4; decoders that own '
                '1-3 preallocated output buffers per field which they overwrite in place and return again (and one '
                'reused DecodeResult object), in all sections and both modes; probabilities any binary64 in [0,1] '
                '(random, thirds, float-noise sums, tiny, subnormal, next to 1, nextafter neighbours), given or '
                'defaulted measurement probability, arbitrary label strings: echoed bit for bit and seen unchanged by '
                'every generate / decode call; decoders returning per-run scripted RECOVERIES (plain arrays / '
                'DecodeResult(recovery) with overrides, by run index or from the `error` context, not a function of '
                'the syndrome) on codes with 2..12 stabilizers and 1..4 steps where syndromes repeat within a call, '
                'all 2^5 histories x {None,1..4}^2 limits on one fixed syndrome plus random histories. '
                'nontrivial = history with >=1 failure and >=1 success consumed and some limit binding'
                % ctx.pick(20, 40))
    ctx.props_obligations()
    codes = [FiveQubitCode(), SteaneCode(), PlanarCode(2, 3)]
    req, exp, kern, kern_mixed = [], [], [], []

    def fold(mr, mf, full):
        """reference fold, independent of the model and of the implementation: (k, fails, want_err, lcs, cvs)"""
        emr, emf = (1, None) if (mr is None and mf is None) else (mr, mf)
        k, fails = 0, 0
        want_err = None
        lcs = cvs = None
        while (emr is None or k < emr) and (emf is None or fails < emf):
            s, lc, cv, w = full[k]
            k += 1
            fails += 0 if s else 1
            for name, val in (('lc', lc), ('cv', cv)):
                cur = lcs if name == 'lc' else cvs
                if k == 1 and val is not None:
                    cur = [0] * len(val)
                if cur is None and val is None:
                    pass
                elif cur is None or val is None or len(cur) != len(val):
                    want_err = k
                    break
                else:
                    cur = [a + b for a, b in zip(cur, val)]
                if name == 'lc':
                    lcs = cur
                else:
                    cvs = cur
            if want_err:
                break
        return emr, emf, k, fails, want_err, lcs, cvs

    def scenario(code, mode, T, mr, mf, hist, tag, p=0.25, q=None, kinds=None, share=False, zero_tail=False,
                 inplace=0, one_result=False, labels=('EM', 'DEC'), preset=None):
        """hist: list of (success, lc, cv, w); followed by an endless tail of failing copies of the last shape.
        kinds = None: lc/cv are integer vectors handed over as int arrays. Otherwise kinds[i] = (lc kind, cv kind) of
        run i and lc/cv are integers in units of 1/DEN (floats kinds carry k/4); share = the decoder hands out the
        same array object whenever kind and value repeat.
        inplace = N > 0: the decoder owns N preallocated output buffers per (field, dtype, length), used in rotation:
        at each decode call it overwrites the next one IN PLACE with this run's values and returns that same object
        again (N = 1: one buffer per field, the object is the same from run to run while its contents change);
        one_result: it also returns one and the same DecodeResult object, with its attributes reassigned.
        The expected totals are the fold of the per-run VALUES as they were when they were returned.
        p, q: the probabilities handed to run / run_ftp (any binary64 in [0, 1]); labels of error model and decoder.
        preset = {'full', 'errs', 'answers', 'rep'}: the runs are given as the step errors the error model generates
        and the answers (plain recoveries, DecodeResults with a recovery ...) the decoder returns, already including
        the tail; `full` holds the per-run outcomes (success, lc, cv, w) that the property assigns to those
        (error, recovery) pairs (computed by plain_runs below, not by the implementation).
        Returns False if the history is outside the domain."""
        n = code.n_k_d[0]
        den = 1 if kinds is None else DEN
        if preset is not None:
            full = preset['full']
        else:
            z = (lambda v: None if v is None else [0] * len(v)) if zero_tail else (lambda v: v)
            tail = (False, z(hist[-1][1]), z(hist[-1][2]), 0)
            full = hist + [tail] * ((mr or 0) + (mf or 0) + 2)
        emr, emf, k, fails, want_err, lcs, cvs = fold(mr, mf, full)
        consumed = full[:k]
        if preset is not None:
            answers, fkinds = preset['answers'], None
        elif kinds is None:
            answers = [DecodeResult(success=s, logical_commutations=None if lc is None else np.array(lc, dtype=int),
                                    custom_values=None if cv is None else np.array(cv, dtype=int))
                       for (s, lc, cv, _) in full]
            fkinds = None
        else:
            fkinds = list(kinds) + [kinds[-1]] * (len(full) - len(kinds))
            # domain: every exact partial sum over the consumed prefix is representable in the NumPy-promoted dtype
            if not (in_domain([a for a, _ in fkinds[:k]], [lc for (_, lc, _, _) in consumed])
                    and in_domain([b for _, b in fkinds[:k]], [cv for (_, _, cv, _) in consumed])):
                return False
            pool = {}

            def arr(kind, v):
                if v is None:
                    return None
                key = (kind, tuple(v))
                if share and key in pool:
                    return pool[key]
                a = mk_array(kind, v)
                if a is None:
                    raise ValueError('unrepresentable')
                pool[key] = a
                return a
            try:
                answers = [DecodeResult(success=s, logical_commutations=arr(lk, lc), custom_values=arr(ck, cv))
                           for (s, lc, cv, _), (lk, ck) in zip(full, fkinds)]
            except ValueError:
                return False
        if inplace:
            # decoder-owned output buffers: the arrays prepared above are only the per-run SOURCE values; what the
            # decoder hands out is its own buffer of that dtype and length, overwritten in place at every call
            sources = [(a.success, a.logical_commutations, a.custom_values) for a in answers]
            bufs, the_result = {}, []

            def own(field, kind, src):
                if src is None:
                    return None
                st = bufs.setdefault((field, kind, len(src)), [0, []])
                j = st[0] % inplace
                st[0] += 1
                if j == len(st[1]):
                    st[1].append(np.empty_like(src))
                buf = st[1][j]
                buf[...] = src          # in place: every earlier holder of this object now sees this run's values
                return buf

            def answer_at(i):
                def answer():
                    s_, lsrc, csrc = sources[i]
                    lk, ck = (None, None) if fkinds is None else fkinds[i]
                    lbuf, cbuf = own('lc', lk, lsrc), own('cv', ck, csrc)
                    if not one_result:
                        return DecodeResult(success=s_, logical_commutations=lbuf, custom_values=cbuf)
                    if not the_result:
                        the_result.append(DecodeResult(success=s_))
                    r = the_result[0]
                    r.success, r.logical_commutations, r.custom_values = s_, lbuf, cbuf
                    return r
                return answer
            answers = [answer_at(i) for i in range(len(sources))]
        errs = [] if preset is None else preset['errs']
        for (_, _, _, w) in (full if preset is None else ()):
            # w spread over T step errors as single-qubit X errors (weights add over steps)
            left = w
            for t in range(T):
                e = np.zeros(2 * n, dtype=int)
                kk = min(n, left) if t < T - 1 else left
                e[:kk] = 1
                left -= kk
                errs.append(e)
        # the script covers every run a correct loop can make (and two more); a loop that asks for more never stops
        em, dec = BoundedErrorModel(errs, label=labels[0]), ScriptedDecoder(answers, label=labels[1])
        if preset is not None:
            preset['decoder'].append(dec)
        kw = {}
        if mr is not None:
            kw['max_runs'] = mr
        if mf is not None:
            kw['max_failures'] = mf
        try:
            if mode == 'ideal':
                data = app.run(code, em, dec, p, random_seed=5, **kw)
            else:
                data = app.run_ftp(code, T, em, dec, p, q, random_seed=5, **kw)
            res = 'ok'
        except QecsimError:
            data, res = None, 'ERR QecsimError %d' % len(dec.calls)
        except Runaway:
            data, res = None, 'ERR Runaway'
        except Exception as e:  # noqa
            data, res = None, 'ERR %s' % exc_class(e)
            if kinds is not None:
                res += ' at run %d: %s' % (len(dec.calls), str(e)[:160])
        hs = ';'.join('%d:%s:%s:%d' % (1 if s else 0, ints(lc), ints(cv), w) for (s, lc, cv, w) in full)
        line = 'run %s %s %d %d %s' % ('_' if mr is None else mr, '_' if mf is None else mf, n, T, hs)
        rep = {'code': repr(code), 'mode': mode, 'T': T, 'max_runs': mr, 'max_failures': mf,
               'error_probability': p, 'error_probability_hex': fhex(p),
               'measurement_error_probability': q, 'measurement_error_probability_hex': fhex(q),
               'labels': list(labels),
               'decoder_arrays': (
                   '%d preallocated buffer(s) per (field, dtype, length), overwritten in place at each decode call '
                   'and returned again%s' % (inplace, '; one DecodeResult object reused for all calls'
                                             if one_result else '') if inplace else
                   'the same array object whenever kind and value repeat' if share else 'a fresh array per run'),
               'history': [(s, lc, cv, w) for (s, lc, cv, w) in hist], 'result': res if data is None else
               {k: (v if isinstance(v, PLAIN) else repr(v)) for k, v in data.items() if k != 'wall_time'}}
        if preset is not None:
            rep.update(preset['rep'])
        if kinds is not None:
            # per run: success, (kind, values) of logical_commutations and of custom_values, error weight
            uv = (lambda kind, v: None if v is None else
                  [kind, [x / den if is_float_kind(kind) else x // den for x in v]])
            rep['history'] = [(s, uv(lk, lc), uv(ck, cv), w) for (s, lc, cv, w), (lk, ck) in zip(hist, kinds)]
            rep['vectors'] = ('numpy arrays of the named dtype per run (obj = object array of Python ints); tail = '
                              'failing runs with %s vectors of the last kinds; decoder %s array objects'
                              % ('zero' if zero_tail else 'copies of the last', 'reuses' if share else 'never reuses'))
        nontriv = any(s for s, *_ in consumed) and any(not s for s, *_ in consumed) and (emr == k or emf == fails)
        ctx.count(line, nontriv, tag, rep if (tag == 'random' and len(ctx.samples) < 3) else None)
        if want_err:
            if res != 'ERR QecsimError %d' % want_err:
                ctx.violation('mismatch-error', 'inconsistent arrays not rejected at the run where they occur', rep)
            impl = res
        elif data is None and res.startswith('ERR Runaway'):
            ctx.violation('runaway-loop', 'the loop went on past the end of the scripted history (more than 2 runs '
                          'after the run at which a limit is reached)',
                          dict(rep, want_n_run=k, want_n_fail=fails, generate_calls=len(em.calls),
                               decoder_calls=len(dec.calls)))
            impl = res
        elif data is None:
            ctx.violation('unexpected-error', 'run raised although the history is consistent', rep)
            impl = res
        else:
            ws = [w for (_, _, _, w) in consumed]
            tot = sum(ws)
            mu = Fraction(tot, k)
            pv = sum((Fraction(w) - mu) ** 2 for w in ws) / k
            want = {'n_run': k, 'n_success': k - fails, 'n_fail': fails,
                    'n_logical_commutations': None if lcs is None else tuple(unscale(x, den) for x in lcs),
                    'custom_totals': None if cvs is None else tuple(unscale(x, den) for x in cvs),
                    'error_weight_total': tot}
            for key, val in want.items():
                if data[key] != val:
                    ctx.violation('aggregate-' + key, '%s is not the fold of the runs' % key, dict(rep, want=val))
            if len(dec.calls) != k or len(em.calls) != k * T:
                ctx.violation('call-count', 'number of simulated runs differs from n_run (one more or one fewer)',
                              dict(rep, decoder_calls=len(dec.calls), generate_calls=len(em.calls)))
            if data['error_weight_pvar'] != float(pv):
                ctx.violation('pvar', 'error_weight_pvar is not the population variance', dict(rep, want=float(pv)))
            if data['logical_failure_rate'] != float(Fraction(fails, k)):
                ctx.violation('failure-rate', 'logical_failure_rate != n_fail/n_run', rep)
            pr = Fraction(tot, n * T * k)
            if ulps(float(data['physical_error_rate']), float(pr)) > 4:
                ctx.violation('physical-rate', 'physical_error_rate != total/(n*T*n_run)', dict(rep, want=float(pr)))
            # identification fields: EXACTLY what was passed (probabilities compared as binary64 values, bit for bit),
            # with the documented default of measurement_error_probability; and every run was made with these values
            q_eff = 0.0 if mode == 'ideal' else ((0.0 if T == 1 else p) if q is None else q)
            ident = {'code': code.label, 'n_k_d': code.n_k_d, 'time_steps': T, 'error_model': labels[0],
                     'decoder': labels[1], 'error_probability': p, 'measurement_error_probability': q_eff}
            for key, val in ident.items():
                if not same(data[key], val):
                    ctx.violation('echo-' + key, 'identification field %s is not the value passed in' % key,
                                  dict(rep, want=val, want_hex=fhex(val), got_hex=fhex(data[key])))
            seen_p = [c[1] for c in em.calls] + [c['kwargs'].get('error_probability') for c in dec.calls]
            seen_q = [c['kwargs'].get('measurement_error_probability') for c in dec.calls]
            if not (all(same(x, p) for x in seen_p) and all(same(x, q_eff) for x in seen_q)):
                ctx.violation('run-probability', 'a run was made with probabilities other than the ones passed in '
                              '(and echoed in the aggregate)',
                              dict(rep, seen_error_probability=sorted(set(map(fhex, seen_p))),
                                   seen_measurement_error_probability=sorted(set(map(fhex, seen_q)))))
            # every value is a plain JSON-serialisable scalar or tuple
            bad = [key for key, v in data.items() if type(v) not in PLAIN
                   or (isinstance(v, tuple) and any(type(x) not in PLAIN for x in v))]
            try:
                json.dumps(data)
            except TypeError:
                bad.append('json.dumps')
            if bad:
                ctx.violation('json-plain-types', 'aggregate holds non-plain / non-JSON-serialisable values '
                              '(e.g. numpy scalars): %s' % sorted(set(bad)), rep)
            impl = 'done %d %d %d %s %s %d' % (data['n_run'], data['n_success'], data['n_fail'],
                                               scaled(data['n_logical_commutations'], den),
                                               scaled(data['custom_totals'], den),
                                               int(data['error_weight_total']))
            exp_stats = (data['error_weight_pvar'], data['logical_failure_rate'], data['physical_error_rate'])
        req.append(line)
        exp.append((impl, None if (want_err or data is None) else exp_stats, rep))
        if len(full) <= 14 and ((len(kern) < 80 and tag == 'random') or (len(kern_mixed) < 40 and tag == 'mixed'
                                                                         and data is not None)):
            (kern if tag == 'random' else kern_mixed).append((mr, mf, full, impl))
        return True

    # ---- generic parameter values and decoder object-reuse patterns ----
    SHORT_P = [0.0, 0.125, 0.25, 0.5, 1.0, 0.1, 0.05, 0.3]
    AWKWARD_P = [1 / 3, 1 / 7, 0.1 + 0.2, 1 / 30, 1e-13, 1 - 1e-13, 2.5e-15, 3e-14, 0.06666666666666668, 2.0 ** -53,
                 1 - 2.0 ** -53, 5e-324, 2.2250738585072014e-308, 0.1 * 3, 0.7 + 0.1, 1e-12, 0.5 + 1e-12]

    def rand_prob():
        """any binary64 in [0, 1]: short decimals, generic values (rng.random(), scaled down by powers of ten),
        awkward constants (thirds, sums with float noise, tiny, next to 1, subnormal) and their nextafter neighbours"""
        r = rng.random()
        if r < 0.2:
            return rng.choice(SHORT_P)
        if r < 0.45:
            return rng.random()
        if r < 0.55:
            return rng.random() * 10.0 ** -rng.randint(1, 20)
        base = rng.choice(AWKWARD_P + SHORT_P[:5])
        if r < 0.8:
            return base
        return min(1.0, max(0.0, math.nextafter(base, rng.choice([0.0, 1.0]))))

    LABELS = ['EM', 'DEC', '', ' ', 'Error model (p=0.1) ', ' padded', '\u0394-d\u00e9codeur', 'two\nlines', 'x' * 200,
              '0.1', 'None', 'a"b\\c', 'Depolarizing', 'Depolarizing ']

    def rand_labels():
        return ('EM', 'DEC') if rng.random() < 0.4 else (rng.choice(LABELS), rng.choice(LABELS))

    def rand_arrays():
        """how the decoder treats the arrays it returns: (share, inplace, one_result)"""
        r = rng.random()
        if r < 0.3:
            return False, 0, False
        if r < 0.5:
            return True, 0, False
        return False, rng.choice([1, 1, 1, 2, 3]), rng.random() < 0.3

    # ---- exhaustive small histories x all limit pairs ----
    L = 6
    lims = [None, 1, 2, 3, 4, 5]
    code = FiveQubitCode()
    for mr in lims:
        for mf in lims:
            for bits in itertools.product([True, False], repeat=L if not ctx.quick or (mr in (None, 3, 5)) else 4):
                hist = [(b, [1 if b else 0, i % 2], None, (i * 3 + (0 if b else 1)) % 6) for i, b in enumerate(bits)]
                scenario(code, 'ideal', 1, mr, mf, hist, 'exhaustive')
                # the same history from a decoder that owns one output buffer per field (contents change in place)
                scenario(code, 'ideal', 1, mr, mf, hist, 'exhaustive-inplace', p=rand_prob(), inplace=1,
                         one_result=bits[0])
    ctx.exhaustive = False
    # ---- random histories: vectors, None, shape changes, ftp ----
    for it in range(ctx.pick(600, 6000)):
        code = rng.choice(codes)
        n = code.n_k_d[0]
        mode = rng.choice(['ideal', 'ftp'])
        T = 1 if mode == 'ideal' else rng.randint(1, 4)
        mr = rng.choice([None, None, 1, 2, 3, 5, 8, 13, rng.randint(1, ctx.pick(20, 40))])
        mf = rng.choice([None, None, 1, 2, 3, 5, rng.randint(1, 8)])
        ln = rng.randint(1, ctx.pick(20, 40))
        kind = rng.random()
        L1, L2 = rng.randint(0, 3), rng.randint(0, 3)
        hist = []
        for i in range(ln):
            s = rng.random() < rng.choice([0.2, 0.5, 0.8])
            lc = [rng.randint(0, 1) for _ in range(L1)]
            cv = [rng.randint(-3, 9) for _ in range(L2)]
            if kind < 0.25:
                cv = None
            elif kind < 0.35:
                lc = None
            elif kind < 0.45 and i == rng.randrange(ln):       # presence flips once
                lc = None if rng.random() < 0.5 else lc
                cv = None if lc is not None else cv
            elif kind < 0.55 and i >= ln // 2:                  # shape change half way
                lc = lc + [1]
            hist.append((s, lc, cv, rng.randint(0, n * T)))
        _, inplace, one_result = rand_arrays()
        scenario(code, mode, T, mr, mf, hist, 'random', p=rand_prob(),
                 q=(None if rng.random() < 0.4 else rand_prob()) if mode == 'ftp' else None,
                 inplace=inplace, one_result=one_result, labels=rand_labels())

    # ---- decoders that return RECOVERY operations (plain arrays, or DecodeResults carrying a recovery) ----
    # The outcome of a run is then resolved by the loop itself from (that run's error, that run's recovery): success
    # iff recovery ^ error commutes with all stabilizers and logicals, logical_commutations = its products with the
    # logicals. The scripted recovery of run i is chosen per RUN (by the run index, or as the run's actual error -
    # taken from the documented keyword context - times a scripted coset element), so it is NOT a function of the
    # syndrome: on codes with few stabilizers the same syndrome recurs many times within one call with different
    # outcomes. Expected per-run outcomes: evaluated here from the scripted (error, recovery) pairs with an independent
    # symplectic product; expected aggregate: reference fold + engine on that outcome stream, as everywhere else.
    from qecsim.models.toric import ToricCode
    from harness.proxies import UserCode
    rep3 = UserCode(S=[[0, 0, 0, 1, 1, 0], [0, 0, 0, 0, 1, 1]], X=[[1, 1, 1, 0, 0, 0]], Z=[[0, 0, 0, 1, 0, 0]],
                    n_k_d=(3, 1, 1), label='repetition-3')
    small_codes = [FiveQubitCode(), SteaneCode(), PlanarCode(2, 2), PlanarCode(2, 3), ToricCode(2, 2), rep3,
                   PlanarCode(3, 3), FiveQubitCode(), rep3]
    cinfo = {}

    def info(code):
        if id(code) not in cinfo:
            cinfo[id(code)] = (code.n_k_d[0], np.array(code.stabilizers, dtype=int), np.array(code.logicals, dtype=int))
        return cinfo[id(code)]

    def sprod(a, b):
        h = len(a) // 2
        return (int(np.dot(a[:h], b[h:])) + int(np.dot(a[h:], b[:h]))) % 2

    def pstr(v):
        h = len(v) // 2
        return ''.join('IXZY'[int(v[i]) + 2 * int(v[h + i])] for i in range(h))

    def span(rows, nonzero=False):
        """a random element of the group generated by the rows"""
        while True:
            pick_ = [rng.random() < 0.5 for _ in rows]
            if any(pick_) or not nonzero:
                break
        out = np.zeros(rows.shape[1], dtype=int)
        for row, b in zip(rows, pick_):
            if b:
                out ^= row
        return out

    def rand_pauli(n, wt):
        e = np.zeros(2 * n, dtype=int)
        for i in rng.sample(range(n), min(wt, n)):
            x = rng.choice([(1, 0), (0, 1), (1, 1)])
            e[i], e[n + i] = x
        return e

    def coset_elem(code, want_success):
        """what recovery ^ error is to be: a stabilizer (success), a stabilizer times a non-trivial logical (failure
        inside the code space) or, sometimes, times a single-qubit operator (usually outside the code space)"""
        n, S, Lg = info(code)
        c = span(S)
        if not want_success:
            c = c ^ (span(Lg, nonzero=True) if rng.random() < 0.8 else rand_pauli(n, 1))
        return c

    def plain_runs(code, mode, T, mr, mf, specs, tag, style, nbuf, p=0.25, q=None, labels=('EM', 'DEC')):
        """specs[i] = {'steps': T step errors, 'coset': c, 'form', 's_over', 'lc_over', 'cv'}: in run i the error model
        generates the step errors and the decoder returns recovery = (error of the run) ^ c in the given form:
          plain   the recovery array itself            dr     DecodeResult(recovery=r)
          dr-s    DecodeResult(success=s_over, recovery=r)    dr-lc  DecodeResult(recovery=r, logical_commutations=lc_over)
        (dr* forms optionally with custom_values cv). style 'scripted': r prepared in advance per run index;
        'oracle': r computed at decode time from the keyword context `error`; nbuf > 0: r is written into one of nbuf
        decoder-owned buffers and that buffer is returned."""
        n, S, Lg = info(code)
        last = specs[-1]
        tail = {'steps': [np.zeros(2 * n, dtype=int)] * T, 'coset': Lg[0].copy(), 's_over': None, 'lc_over': None,
                'form': 'plain' if last['cv'] is None else 'dr', 'cv': None if last['cv'] is None else [0] * len(last['cv'])}
        allspecs = specs + [tail] * ((mr or 0) + (mf or 0) + 2)
        full, errs = [], []
        for sp in allspecs:
            e = np.zeros(2 * n, dtype=int)
            w = 0
            for st in sp['steps']:
                e ^= st
                w += sum(1 for i in range(n) if st[i] or st[n + i])
            sp['r'] = e ^ sp['coset']
            recovered = sp['r'] ^ e
            lc = [sprod(recovered, row) for row in Lg]
            ok = not any(sprod(recovered, row) for row in S) and not any(lc)
            s_ = ok if sp['s_over'] is None else sp['s_over']
            lc = lc if sp['lc_over'] is None else list(sp['lc_over'])
            full.append((s_, lc, sp['cv'], w))
            errs.extend(sp['steps'])
        decs, bufs, cnt = [], [np.zeros(2 * n, dtype=int) for _ in range(nbuf)], [0]

        def answer_at(i):
            def answer():
                sp = allspecs[i]
                if style == 'oracle':
                    r = np.array(decs[0].calls[-1]['kwargs']['error'], dtype=int) ^ sp['coset']
                else:
                    r = sp['r'].copy()
                if nbuf:
                    buf = bufs[cnt[0] % nbuf]
                    cnt[0] += 1
                    buf[...] = r
                    r = buf
                cv = None if sp['cv'] is None else np.array(sp['cv'], dtype=int)
                if sp['form'] == 'plain':
                    return r
                if sp['form'] == 'dr-s':
                    return DecodeResult(success=sp['s_over'], recovery=r, custom_values=cv)
                if sp['form'] == 'dr-lc':
                    return DecodeResult(recovery=r, logical_commutations=np.array(sp['lc_over'], dtype=int),
                                        custom_values=cv)
                return DecodeResult(recovery=r, custom_values=cv)
            return answer

        def show(sp):
            d = {'step_errors': [pstr(st) for st in sp['steps']], 'returns': sp['form'], 'recovery': pstr(sp['r'])}
            for key in ('s_over', 'lc_over', 'cv'):
                if sp[key] is not None:
                    d[{'s_over': 'success', 'lc_over': 'logical_commutations', 'cv': 'custom_values'}[key]] = sp[key]
            return d
        rep = {'runs': [show(sp) for sp in specs], 'tail_run': show(tail),
               'stabilizer_rows': len(S), 'syndrome_bits_per_call': len(S) * T,
               'decoder_arrays': ('recovery of run i %s; %s' % (
                   'prepared per run index' if style == 'scripted' else
                   'computed at decode time as kwargs["error"] ^ (scripted element of run i)',
                   'fresh array per call' if not nbuf else
                   '%d decoder-owned buffer(s) overwritten in place and returned again' % nbuf)),
               'how_to_read': 'error model generates step_errors in order (T per run); decoder returns, at its i-th call, '
                              'the recovery of run i in the form given (plain = the array itself; dr* = DecodeResult '
                              'with that recovery and the listed overrides); history = the outcomes (success, lc, cv, '
                              'error weight) the property assigns to each (error, recovery) pair'}
        preset = {'full': full, 'errs': errs, 'answers': [answer_at(i) for i in range(len(allspecs))], 'rep': rep,
                  'decoder': decs}
        return scenario(code, mode, T, mr, mf, full[:len(specs)], tag, p=p, q=q, labels=labels, preset=preset)

    def spec(steps, coset, form='plain', s_over=None, lc_over=None, cv=None):
        return {'steps': steps, 'coset': coset, 'form': form, 's_over': s_over, 'lc_over': lc_over, 'cv': cv}

    # (a) all success/failure histories x all limit pairs, ONE fixed error (so one syndrome) for the whole call
    five = FiveQubitCode()
    n5, S5, L5 = info(five)
    lims5 = [None, 1, 2, 3, 4]
    vi = 0
    for mr in lims5:
        for mf in lims5:
            for bits in itertools.product([True, False], repeat=5 if not ctx.quick or (mr in (None, 4)) else 4):
                for variant in ((0, 1) if not ctx.quick else (vi % 2,)):
                    mode, T = ('ideal', 1) if variant == 0 else ('ftp', 2 + (vi // 2) % 2)
                    steps = ([np.zeros(2 * n5, dtype=int)] * T if (vi // 4) % 2 == 0 else
                             [rand_pauli(n5, 1) for _ in range(T)])
                    specs = [spec(steps, coset_elem(five, b)) for b in bits]
                    plain_runs(five, mode, T, mr, mf, specs, 'recovery-exhaustive',
                               'oracle' if (vi // 8) % 2 else 'scripted', (vi // 16) % 3, q=0.0 if mode == 'ftp' else None)
                vi += 1
    # (b) random histories: codes with 2..12 stabilizers, 1..4 steps, errors fixed / from a small pool / random
    for it in range(ctx.pick(500, 5000)):
        code = rng.choice(small_codes)
        n, S, Lg = info(code)
        mode = rng.choice(['ideal', 'ftp'])
        T = 1 if mode == 'ideal' else rng.randint(1, 4)
        mr = rng.choice([None, None, 1, 2, 3, 5, 8, 13, rng.randint(1, ctx.pick(20, 40))])
        mf = rng.choice([None, None, 1, 2, 3, 5, rng.randint(1, 8)])
        ln = rng.randint(1, ctx.pick(16, 30))
        epat = rng.choice(['fixed', 'fixed-identity', 'pool', 'pool', 'random'])
        pool = [[np.zeros(2 * n, dtype=int)] * T] if epat == 'fixed-identity' else \
            [[rand_pauli(n, rng.choice([0, 0, 1, 1, 2])) for _ in range(T)]
             for _ in range(1 if epat == 'fixed' else rng.randint(2, 3))]
        fpat = rng.choice(['plain', 'plain', 'plain', 'dr', 'mixed', 'mixed-cv'])
        ncv = rng.randint(1, 2) if (fpat == 'dr' and rng.random() < 0.5) or fpat == 'mixed-cv' else 0
        ps = rng.choice([0.2, 0.5, 0.8])
        specs = []
        for i in range(ln):
            steps = [rand_pauli(n, rng.choice([0, 1, 2])) for _ in range(T)] if epat == 'random' else rng.choice(pool)
            form = 'plain' if fpat == 'plain' else rng.choice(['dr', 'dr', 'dr-s', 'dr-lc']) if fpat == 'dr' else \
                rng.choice(['plain', 'plain', 'dr', 'dr-s', 'dr-lc'])
            if fpat == 'mixed-cv' and i < rng.randint(1, 3):
                form = 'dr'         # presence of custom values is fixed by the first run; a later plain run is an error
            specs.append(spec(steps, coset_elem(code, rng.random() < ps), form,
                              s_over=(rng.random() < ps) if form == 'dr-s' else None,
                              lc_over=[rng.randint(0, 1) for _ in Lg] if form == 'dr-lc' else None,
                              cv=[rng.randint(-3, 9) for _ in range(ncv)] if (ncv and form != 'plain') else None))
        plain_runs(code, mode, T, mr, mf, specs, 'recovery-random', rng.choice(['scripted', 'scripted', 'oracle']),
                   rng.choice([0, 0, 1, 2]), p=rand_prob(),
                   q=rng.choice([0.0, 0.0, None, rand_prob()]) if mode == 'ftp' else None, labels=rand_labels())
    ctx.notes.append(
        'recovery-returning decoders: the decoder returns, per run, a plain recovery array (or a DecodeResult carrying '
        'a recovery, with success / logical_commutations / custom_values overrides) scripted by run index or computed '
        'from the keyword context `error`, never a function of the syndrome; codes with 2..12 stabilizers (repetition-3, '
        '5-qubit, Steane, planar 2x2 2x3 3x3, toric 2x2), 1..4 steps, errors fixed for the whole call / drawn from a '
        'pool of 1-3 / random, so syndromes repeat within a call with different outcomes; all 2^5 outcome histories x '
        '{None,1..4}^2 limits with one fixed error. Per-run outcomes are evaluated from (error, recovery) with an '
        'independent symplectic product; aggregates, decode/generate call counts and stopping point must follow that '
        'history. Error-model scripts do not cycle: a loop that runs past the scripted history is reported as '
        'runaway-loop instead of hanging.')

    # ---- per-run vectors of varying numeric kind (dtype / container) within one simulation ----
    # The aggregate is the element-wise sum whatever dtype each run's vector has. Expected totals: exact fold in
    # units of 1/4 (reference fold above, and the integer engine on 4*values, justified by c04_scale/c04_scale_inj).
    def rand_val(kind, binary=False):
        """a value of the kind in units of 1/DEN"""
        small, large = KIND_MAG[kind]
        unsigned = kind[0] == 'u'
        if binary:
            return DEN * rng.randint(0, 1)
        r = rng.random()
        m = small if r < 0.7 else (large if r < 0.9 else max(small, large // 64))
        if is_float_kind(kind):
            return rng.randint(-DEN * m, DEN * m)
        return DEN * rng.randint(0 if unsigned else -m, m)

    def kind_seq(ln):
        pat = rng.choice(['switch', 'switch', 'narrow-first', 'wide-first', 'random', 'random', 'uniform'])
        if pat == 'uniform':
            return pat, [rng.choice(KINDS)] * ln
        if pat == 'switch':     # the first r runs of one kind, all later runs of another
            a, b = rng.sample(KINDS, 2)
            r = rng.randint(1, max(1, min(3, ln - 1)))
            return pat, [a] * r + [b] * (ln - r)
        sub = rng.sample(KINDS, rng.randint(2, 4))
        ks = [rng.choice(sub) for _ in range(ln)]
        if pat == 'narrow-first':
            ks.sort(key=KIND_RANK.get)
        elif pat == 'wide-first':
            ks.sort(key=KIND_RANK.get, reverse=True)
        return pat, ks

    skipped = 0
    # (a) every ordered pair of kinds: run 1 of kind A, runs 2..3 of kind B, values typical of each kind
    five = FiveQubitCode()
    pair_order = ['i64', 'f64', 'i32', 'f32', 'obj'] + [k_ for k_ in KINDS if k_ not in ('i64', 'f64', 'i32', 'f32', 'obj')]
    for ka in pair_order:
        for kb in pair_order:
            for variant in range(ctx.pick(2, 6)):
                for attempt in range(30):
                    big = variant % 2 == 1
                    va = [rand_val(ka), rand_val(ka)]
                    vb = [[KIND_MAG[kb][1] * DEN // 2 if big else rand_val(kb), rand_val(kb)] for _ in range(2)]
                    if is_float_kind(kb):
                        vb[0][1] = 2 * rng.randint(-3, 3) + 1     # an odd number of quarters
                    lcs_ = [[rand_val(k_, True)] for k_ in (ka, kb, kb)]
                    hist = [(True, lcs_[0], va, 1), (variant % 3 != 2, lcs_[1], vb[0], 2), (True, lcs_[2], vb[1], 0)]
                    kinds = [(ka, ka), (kb, kb), (kb, kb)] if variant < 4 else [('i64', ka), (kb, kb), ('i64', kb)]
                    # variants 0,1: fresh arrays; 2,3: shared objects; 4,5 (thorough): decoder-owned buffers; and in
                    # a share of the quick variants the buffers too, so every ordered pair meets them in both tiers
                    inplace = 1 if (variant >= 4 or rng.random() < 0.35) else 0
                    if scenario(five, 'ideal', 1, 3, None, hist, 'mixed', kinds=kinds,
                                share=bool(variant & 2) and not inplace, zero_tail=True, inplace=inplace,
                                one_result=bool(inplace) and rng.random() < 0.3):
                        break
                    skipped += 1
    # (b) random histories, independent kind sequences for logical_commutations and custom_values
    done = 0
    target = ctx.pick(500, 5000)
    for it in range(target * 20):
        if done >= target:
            break
        code = rng.choice(codes)
        n = code.n_k_d[0]
        mode = rng.choice(['ideal', 'ftp'])
        T = 1 if mode == 'ideal' else rng.randint(1, 3)
        mr = rng.choice([None, 2, 3, 5, 8, rng.randint(2, ctx.pick(14, 30))])
        mf = rng.choice([None, None, 2, 3, rng.randint(1, 6)])
        ln = rng.randint(2, ctx.pick(14, 30))
        L1, L2 = rng.randint(0, 3), rng.randint(0, 3)
        _, lks = kind_seq(ln)
        pat, cks = kind_seq(ln)
        odd = rng.random()
        hist = []
        for i in range(ln):
            s_ = rng.random() < rng.choice([0.5, 0.8, 0.95])
            lc = [rand_val(lks[i], True) for _ in range(L1)]
            cv = [rand_val(cks[i]) for _ in range(L2)]
            if odd < 0.08:
                cv = None
            elif odd < 0.16:
                lc = None
            elif odd < 0.22 and i >= ln // 2:                   # shape change half way, whatever the kinds
                cv = cv + [0]
            hist.append((s_, lc, cv, rng.randint(0, n * T)))
        share, inplace, one_result = rand_arrays()
        if scenario(code, mode, T, mr, mf, hist, 'mixed', p=rand_prob(),
                    q=(None if rng.random() < 0.4 else rand_prob()) if mode == 'ftp' else None,
                    kinds=list(zip(lks, cks)), share=share, zero_tail=rng.random() < 0.7, inplace=inplace,
                    one_result=one_result, labels=rand_labels()):
            done += 1
        else:
            skipped += 1
    ctx.extra['mixed_kind_histories_outside_domain_skipped'] = skipped
    ctx.notes.append(
        'per-run vector kinds explored: numpy arrays of dtype %s (obj = object array of Python ints), float kinds with '
        'dyadic values k/4, varying from run to run. Domain: every exact partial sum is representable in the dtype '
        'NumPy promotion (np.result_type) assigns to the kinds seen so far; histories outside it (int8 + int8 '
        'wrapping, float32 rounding ...) lose information on the unchanged tree too, by the caller\'s choice of '
        'dtype, and are skipped (%d). Left out after running them on the unchanged tree: Python lists/tuples '
        '(AttributeError: no .shape - the documented type of DecodeResult vectors is numpy.array 1d), 0-d arrays / '
        'numpy scalars (TypeError in tuple()), bool arrays (bool + bool stays bool in NumPy).'
        % (','.join(KINDS), skipped))

    ctx.notes.append(
        'decoder object-reuse patterns: fresh array per run; the same array object whenever kind and value repeat; '
        '1-3 decoder-owned preallocated buffers per (field, dtype, length) overwritten in place at every decode call '
        'and returned again, optionally through one reused DecodeResult object. Expected totals are always the fold '
        'of the values as they were when returned (reference fold + engine on the value stream; c04_snapshot: the '
        'loop over returned buffers equals the loop over the values written, for every reuse pattern). '
        'Probabilities are arbitrary binary64 values in [0,1] and labels arbitrary strings; the aggregate must echo '
        'them bit for bit (float.hex) and every generate / decode call must have received the same values (c04_echo).')

    out = ctx.model('c04', req)
    for (impl, stats, rep), m, line in zip(exp, out, req):
        toks = m.split(' ')
        if toks[0] == 'done':
            mcore = ' '.join(toks[:7])
            ok = ctx.cmp('run aggregate', line[:500], impl, mcore)
            if ok and stats is not None:
                pv, fr, pr = (Fraction(int(t.split('/')[0]), int(t.split('/')[1])) for t in toks[7:10])
                ctx.cmp('pvar', line[:300], stats[0], float(pv))
                ctx.cmp('failure rate', line[:300], stats[1], float(fr))
                if ulps(float(stats[2]), float(pr)) > 4:
                    ctx.cmp('physical rate', line[:300], stats[2], float(pr))
        else:
            ctx.cmp('run aggregate', line[:500], impl, m)

    # ---- in-kernel shard ----
    def oz(v):
        return 'None' if v is None else 'Some ' + coq_list(['(%d)%%Z' % x for x in v])
    items = []
    for (mr, mf, full, impl) in kern + kern_mixed:
        runs = coq_list(['mkRun %s (%s) (%s) (%d)%%Z' % ('true' if s else 'false', oz(lc), oz(cv), w)
                         for (s, lc, cv, w) in full])
        toks = impl.split(' ')
        if toks[0] == 'done' and not all(re.fullmatch(r'_|-|-?\d+(,-?\d+)*', t) for t in toks[4:6]):
            continue            # non-integral totals: already reported above
        if toks[0] == 'done':
            want = 'RDone %s %s %s (%s) (%s) (%s)%%Z' % (
                toks[1], toks[3], '(%s)' % oz(None if toks[4] == '_' else [int(x) for x in toks[4].split(',') if x != '-']),
                oz(None if toks[5] == '_' else [int(x) for x in toks[5].split(',') if x != '-']), 'tt', toks[6])
            want = 'RDone %s %s (%s) (%s) (%s)%%Z' % (
                toks[1], toks[3], oz(None if toks[4] == '_' else [int(x) for x in toks[4].split(',') if x != '-']),
                oz(None if toks[5] == '_' else [int(x) for x in toks[5].split(',') if x != '-']), toks[6])
        else:
            want = 'RErr %s' % toks[2]
        items.append('(res_eqb (summarise (run_loop %d %s %s (outs_of %s))) (%s))' % (
            len(full) + 1, 'None' if mr is None else '(Some %d)' % mr, 'None' if mf is None else '(Some %d)' % mf, runs, want))
    text = ('From Coq Require Import List Bool Arith ZArith.\nFrom QV Require Import App.RunLoop.\nImport ListNotations.\n'
            'Definition outs_of (l : list run_data) (i : nat) : run_data := nth i l (mkRun true None None 0%Z).\n'
            'Inductive res := RDone (n f : nat) (lc cv : option (list Z)) (tot : Z) | RErr (m : nat) | RFuel.\n'
            'Definition summarise (o : outcome) : res := match o with Done a => RDone (a_run a) (a_fail a) (a_lc a) '
            '(a_cv a) (zsum (a_ws a)) | Mismatch m => RErr m | OutOfFuel => RFuel end.\n'
            'Definition olz_eqb (a b : option (list Z)) := match a, b with None, None => true | Some x, Some y => '
            'if list_eq_dec Z.eq_dec x y then true else false | _, _ => false end.\n'
            'Definition res_eqb (a b : res) : bool := match a, b with RDone n f l c t, RDone n2 f2 l2 c2 t2 => '
            'Nat.eqb n n2 && Nat.eqb f f2 && olz_eqb l l2 && olz_eqb c c2 && Z.eqb t t2 | RErr m, RErr m2 => Nat.eqb m m2 '
            '| _, _ => false end.\n'
            'Definition checks : list bool :=\n [' + ';\n  '.join(items) + '].\n'
            'Example corr : forallb (fun b => b) checks = true.\nProof. vm_compute. reflexivity. Qed.\n')
    ctx.kernel_cases('sample', text)
    ctx.extra['kernel_cases'] = len(items)


def replay(path):
    print(json.dumps(json.load(open(path)), indent=1))
    return 0
