"""C04 — the run loop stops exactly on its limits and the aggregate is the fold of the runs.
Real app.run / run_ftp driven by a scripted error model and decoder realising a chosen outcome history."""
import itertools
import json
import math
from fractions import Fraction

import numpy as np

from harness.common import exc_class, coq_list
from harness.proxies import ScriptedErrorModel, ScriptedDecoder


def ints(a):
    if a is None:
        return '_'
    a = [int(v) for v in a]
    return ','.join(map(str, a)) if a else '-'


def ulps(a, b):
    if a == b:
        return 0
    return abs(a - b) / math.ulp(max(abs(a), abs(b)))


PLAIN = (int, float, str, tuple, type(None), bool)


def run(ctx):
    import logging
    logging.getLogger('qecsim').setLevel(logging.ERROR)
    from qecsim import app
    from qecsim.error import QecsimError
    from qecsim.model import DecodeResult
    from qecsim.models.basic import FiveQubitCode, SteaneCode
    from qecsim.models.planar import PlanarCode
    rng = ctx.rng
    ctx.rule = ('real app.run/run_ftp with scripted error model + decoder realising a chosen history; every '
                '(max_runs,max_failures) in {None,1..5}^2 x all 2^6 success histories exhaustively, plus random '
                'histories to length %d with lc/cv vectors (None, shape changes), weights, ideal and ftp mode. '
                'nontrivial = history with >=1 failure and >=1 success consumed and some limit binding'
                % ctx.pick(20, 40))
    ctx.props_obligations()
    codes = [FiveQubitCode(), SteaneCode(), PlanarCode(2, 3)]
    req, exp, kern = [], [], []

    def scenario(code, mode, T, mr, mf, hist, tag, p=0.25, q=None):
        """hist: list of (success, lc, cv, w); followed by an endless tail of failing copies of the last shape"""
        n = code.n_k_d[0]
        tail = (False, hist[-1][1], hist[-1][2], 0)
        full = hist + [tail] * ((mr or 0) + (mf or 0) + 2)
        errs = []
        for (_, _, _, w) in full:
            # w spread over T step errors as single-qubit X errors (weights add over steps)
            left = w
            for t in range(T):
                e = np.zeros(2 * n, dtype=int)
                k = min(n, left) if t < T - 1 else left
                e[:k] = 1
                left -= k
                errs.append(e)
        answers = [DecodeResult(success=s, logical_commutations=None if lc is None else np.array(lc, dtype=int),
                                custom_values=None if cv is None else np.array(cv, dtype=int))
                   for (s, lc, cv, _) in full]
        em, dec = ScriptedErrorModel(errs, label='EM'), ScriptedDecoder(answers, label='DEC')
        kw = {}
        if mr is not None:
            kw['max_runs'] = mr
        if mf is not None:
            kw['max_failures'] = mf
        try:
            if mode == 'ideal':
                data = app.run(code, em, dec, p, random_seed=5, **kw)
            else:
                data = app.run_ftp(code, T, em, dec, p, q, random_seed=5, **kw)
            res = 'ok'
        except QecsimError:
            data, res = None, 'ERR QecsimError %d' % len(dec.calls)
        except Exception as e:  # noqa
            data, res = None, 'ERR %s' % exc_class(e)
        hs = ';'.join('%d:%s:%s:%d' % (1 if s else 0, ints(lc), ints(cv), w) for (s, lc, cv, w) in full)
        line = 'run %s %s %d %d %s' % ('_' if mr is None else mr, '_' if mf is None else mf, n, T, hs)
        rep = {'code': repr(code), 'mode': mode, 'T': T, 'max_runs': mr, 'max_failures': mf,
               'history': [(s, lc, cv, w) for (s, lc, cv, w) in hist], 'result': res if data is None else
               {k: (v if isinstance(v, PLAIN) else repr(v)) for k, v in data.items() if k != 'wall_time'}}
        # ---------- reference fold, independent of the model ----------
        emr, emf = (1, None) if (mr is None and mf is None) else (mr, mf)
        k, fails = 0, 0
        want_err = None
        lcs = cvs = None
        while (emr is None or k < emr) and (emf is None or fails < emf):
            s, lc, cv, w = full[k]
            k += 1
            fails += 0 if s else 1
            for name, val in (('lc', lc), ('cv', cv)):
                cur = lcs if name == 'lc' else cvs
                if k == 1 and val is not None:
                    cur = [0] * len(val)
                if cur is None and val is None:
                    pass
                elif cur is None or val is None or len(cur) != len(val):
                    want_err = k
                    break
                else:
                    cur = [a + b for a, b in zip(cur, val)]
                if name == 'lc':
                    lcs = cur
                else:
                    cvs = cur
            if want_err:
                break
        consumed = full[:k]
        nontriv = any(s for s, *_ in consumed) and any(not s for s, *_ in consumed) and (emr == k or emf == fails)
        ctx.count(line, nontriv, tag, rep if (tag == 'random' and len(ctx.samples) < 3) else None)
        if want_err:
            if res != 'ERR QecsimError %d' % want_err:
                ctx.violation('mismatch-error', 'inconsistent arrays not rejected at the run where they occur', rep)
            impl = res
        elif data is None:
            ctx.violation('unexpected-error', 'run raised although the history is consistent', rep)
            impl = res
        else:
            ws = [w for (_, _, _, w) in consumed]
            tot = sum(ws)
            mu = Fraction(tot, k)
            pv = sum((Fraction(w) - mu) ** 2 for w in ws) / k
            want = {'n_run': k, 'n_success': k - fails, 'n_fail': fails,
                    'n_logical_commutations': None if lcs is None else tuple(lcs),
                    'custom_totals': None if cvs is None else tuple(cvs), 'error_weight_total': tot}
            for key, val in want.items():
                if data[key] != val:
                    ctx.violation('aggregate-' + key, '%s is not the fold of the runs' % key, dict(rep, want=val))
            if len(dec.calls) != k or len(em.calls) != k * T:
                ctx.violation('call-count', 'number of simulated runs differs from n_run (one more or one fewer)',
                              dict(rep, decoder_calls=len(dec.calls), generate_calls=len(em.calls)))
            if data['error_weight_pvar'] != float(pv):
                ctx.violation('pvar', 'error_weight_pvar is not the population variance', dict(rep, want=float(pv)))
            if data['logical_failure_rate'] != float(Fraction(fails, k)):
                ctx.violation('failure-rate', 'logical_failure_rate != n_fail/n_run', rep)
            pr = Fraction(tot, n * T * k)
            if ulps(float(data['physical_error_rate']), float(pr)) > 4:
                ctx.violation('physical-rate', 'physical_error_rate != total/(n*T*n_run)', dict(rep, want=float(pr)))
            q_eff = 0.0 if mode == 'ideal' else ((0.0 if T == 1 else p) if q is None else q)
            ident = {'code': code.label, 'n_k_d': code.n_k_d, 'time_steps': T, 'error_model': 'EM', 'decoder': 'DEC',
                     'error_probability': p, 'measurement_error_probability': q_eff}
            for key, val in ident.items():
                if data[key] != val:
                    ctx.violation('echo-' + key, 'identification field %s not echoed' % key, dict(rep, want=val))
            # every value is a plain JSON-serialisable scalar or tuple
            bad = [key for key, v in data.items() if type(v) not in PLAIN
                   or (isinstance(v, tuple) and any(type(x) not in PLAIN for x in v))]
            try:
                json.dumps(data)
            except TypeError:
                bad.append('json.dumps')
            if bad:
                ctx.violation('json-plain-types', 'aggregate holds non-plain / non-JSON-serialisable values '
                              '(e.g. numpy scalars): %s' % sorted(set(bad)), rep)
            impl = 'done %d %d %d %s %s %d' % (data['n_run'], data['n_success'], data['n_fail'],
                                               ints(data['n_logical_commutations']), ints(data['custom_totals']),
                                               int(data['error_weight_total']))
            exp_stats = (data['error_weight_pvar'], data['logical_failure_rate'], data['physical_error_rate'])
        req.append(line)
        exp.append((impl, None if (want_err or data is None) else exp_stats, rep))
        if len(kern) < 80 and tag == 'random' and len(full) <= 14:
            kern.append((mr, mf, full, impl))

    # ---- exhaustive small histories x all limit pairs ----
    L = 6
    lims = [None, 1, 2, 3, 4, 5]
    code = FiveQubitCode()
    for mr in lims:
        for mf in lims:
            for bits in itertools.product([True, False], repeat=L if not ctx.quick or (mr in (None, 3, 5)) else 4):
                hist = [(b, [1 if b else 0, i % 2], None, (i * 3 + (0 if b else 1)) % 6) for i, b in enumerate(bits)]
                scenario(code, 'ideal', 1, mr, mf, hist, 'exhaustive')
    ctx.exhaustive = False
    # ---- random histories: vectors, None, shape changes, ftp ----
    for it in range(ctx.pick(600, 6000)):
        code = rng.choice(codes)
        n = code.n_k_d[0]
        mode = rng.choice(['ideal', 'ftp'])
        T = 1 if mode == 'ideal' else rng.randint(1, 4)
        mr = rng.choice([None, None, 1, 2, 3, 5, 8, 13, rng.randint(1, ctx.pick(20, 40))])
        mf = rng.choice([None, None, 1, 2, 3, 5, rng.randint(1, 8)])
        ln = rng.randint(1, ctx.pick(20, 40))
        kind = rng.random()
        L1, L2 = rng.randint(0, 3), rng.randint(0, 3)
        hist = []
        for i in range(ln):
            s = rng.random() < rng.choice([0.2, 0.5, 0.8])
            lc = [rng.randint(0, 1) for _ in range(L1)]
            cv = [rng.randint(-3, 9) for _ in range(L2)]
            if kind < 0.25:
                cv = None
            elif kind < 0.35:
                lc = None
            elif kind < 0.45 and i == rng.randrange(ln):       # presence flips once
                lc = None if rng.random() < 0.5 else lc
                cv = None if lc is not None else cv
            elif kind < 0.55 and i >= ln // 2:                  # shape change half way
                lc = lc + [1]
            hist.append((s, lc, cv, rng.randint(0, n * T)))
        scenario(code, mode, T, mr, mf, hist, 'random', p=rng.choice([0.0, 0.125, 0.5, 1.0]),
                 q=rng.choice([None, 0.0, 0.25]) if mode == 'ftp' else None)

    out = ctx.model('c04', req)
    for (impl, stats, rep), m, line in zip(exp, out, req):
        toks = m.split(' ')
        if toks[0] == 'done':
            mcore = ' '.join(toks[:7])
            ok = ctx.cmp('run aggregate', line[:500], impl, mcore)
            if ok and stats is not None:
                pv, fr, pr = (Fraction(int(t.split('/')[0]), int(t.split('/')[1])) for t in toks[7:10])
                ctx.cmp('pvar', line[:300], stats[0], float(pv))
                ctx.cmp('failure rate', line[:300], stats[1], float(fr))
                if ulps(float(stats[2]), float(pr)) > 4:
                    ctx.cmp('physical rate', line[:300], stats[2], float(pr))
        else:
            ctx.cmp('run aggregate', line[:500], impl, m)

    # ---- in-kernel shard ----
    def oz(v):
        return 'None' if v is None else 'Some ' + coq_list(['(%d)%%Z' % x for x in v])
    items = []
    for (mr, mf, full, impl) in kern:
        runs = coq_list(['mkRun %s (%s) (%s) (%d)%%Z' % ('true' if s else 'false', oz(lc), oz(cv), w)
                         for (s, lc, cv, w) in full])
        toks = impl.split(' ')
        if toks[0] == 'done':
            want = 'RDone %s %s %s (%s) (%s) (%s)%%Z' % (
                toks[1], toks[3], '(%s)' % oz(None if toks[4] == '_' else [int(x) for x in toks[4].split(',') if x != '-']),
                oz(None if toks[5] == '_' else [int(x) for x in toks[5].split(',') if x != '-']), 'tt', toks[6])
            want = 'RDone %s %s (%s) (%s) (%s)%%Z' % (
                toks[1], toks[3], oz(None if toks[4] == '_' else [int(x) for x in toks[4].split(',') if x != '-']),
                oz(None if toks[5] == '_' else [int(x) for x in toks[5].split(',') if x != '-']), toks[6])
        else:
            want = 'RErr %s' % toks[2]
        items.append('(res_eqb (summarise (run_loop %d %s %s (outs_of %s))) (%s))' % (
            len(full) + 1, 'None' if mr is None else '(Some %d)' % mr, 'None' if mf is None else '(Some %d)' % mf, runs, want))
    text = ('From Coq Require Import List Bool Arith ZArith.\nFrom QV Require Import App.RunLoop.\nImport ListNotations.\n'
            'Definition outs_of (l : list run_data) (i : nat) : run_data := nth i l (mkRun true None None 0%Z).\n'
            'Inductive res := RDone (n f : nat) (lc cv : option (list Z)) (tot : Z) | RErr (m : nat) | RFuel.\n'
            'Definition summarise (o : outcome) : res := match o with Done a => RDone (a_run a) (a_fail a) (a_lc a) '
            '(a_cv a) (zsum (a_ws a)) | Mismatch m => RErr m | OutOfFuel => RFuel end.\n'
            'Definition olz_eqb (a b : option (list Z)) := match a, b with None, None => true | Some x, Some y => '
            'if list_eq_dec Z.eq_dec x y then true else false | _, _ => false end.\n'
            'Definition res_eqb (a b : res) : bool := match a, b with RDone n f l c t, RDone n2 f2 l2 c2 t2 => '
            'Nat.eqb n n2 && Nat.eqb f f2 && olz_eqb l l2 && olz_eqb c c2 && Z.eqb t t2 | RErr m, RErr m2 => Nat.eqb m m2 '
            '| _, _ => false end.\n'
            'Definition checks : list bool :=\n [' + ';\n  '.join(items) + '].\n'
            'Example corr : forallb (fun b => b) checks = true.\nProof. vm_compute. reflexivity. Qed.\n')
    ctx.kernel_cases('sample', text)
    ctx.extra['kernel_cases'] = len(items)


def replay(path):
    print(json.dumps(json.load(open(path)), indent=1))
    return 0
