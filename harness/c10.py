"""C10 — untruncated tensor-network decoders are maximum-likelihood decoders.

Exact-oracle tie: _coset_probabilities / decode of PlanarMPSDecoder, PlanarRMPSDecoder, RotatedPlanarMPSDecoder,
RotatedPlanarRMPSDecoder, Color666MPSDecoder (chi and tol unset, every mode, with and without stp) against the
exact coset sums  sum_{g in G} prod_q dist(letter_q(f g))  computed in exact integer arithmetic from the float
distribution (stabilizer group enumerated from the independent generators, 2^(n-k) elements), and against the
extracted Tensor/Coset model on the small codes; PlanarYDecoder against exact sums over the Y-only operators.
"chi unset" is taken in every documented spelling (harness/c10_spell.py): omitted / None / 0 (the constructors document
"unrestricted=falsy", the command line "[chi] INT >=0"), likewise stp and tol, by keyword, positionally and through the
command line's constructor strings."""
import itertools
import json
import math
import sys
from fractions import Fraction

import numpy as np

from harness.common import bitstr, rowsstr, exc_class

REL = Fraction(1, 10 ** 9)


def to_frac(x):
    import mpmath
    if isinstance(x, mpmath.mpf):
        sign, man, exp, _bc = x._mpf_
        if not man:
            return Fraction(0) if exp == 0 else None
        v = Fraction(int(man)) * (Fraction(2) ** int(exp))
        return -v if sign else v
    x = float(x)
    if math.isinf(x) or math.isnan(x):
        return None
    return Fraction(x)


def gf2_rank(M):
    M = [int(''.join(str(int(b)) for b in row), 2) for row in M]
    rank = 0
    for bit in reversed(range(max(M).bit_length() if M and max(M) else 0)):
        piv = None
        for i in range(rank, len(M)):
            if (M[i] >> bit) & 1:
                piv = i
                break
        if piv is None:
            continue
        M[rank], M[piv] = M[piv], M[rank]
        for i in range(len(M)):
            if i != rank and (M[i] >> bit) & 1:
                M[i] ^= M[rank]
        rank += 1
    return rank


class GroupOracle:
    """all 2^m elements of the stabilizer group as packed X / Z words, built from independent generators"""

    def __init__(self, code):
        S = np.array(code.stabilizers, dtype=np.uint8)
        self.n = S.shape[1] // 2
        assert self.n <= 62
        assert gf2_rank(S) == S.shape[0], 'stabilizer generators are not independent'
        w = (1 << np.arange(self.n, dtype=np.uint64))
        X = np.zeros(1, dtype=np.uint64)
        Z = np.zeros(1, dtype=np.uint64)
        for row in S:
            gx = np.uint64(int((row[:self.n].astype(np.uint64) * w).sum()))
            gz = np.uint64(int((row[self.n:].astype(np.uint64) * w).sum()))
            X = np.concatenate([X, X ^ gx])
            Z = np.concatenate([Z, Z ^ gz])
        self.X, self.Z, self.w = X, Z, w
        self.mask = np.uint64((1 << self.n) - 1)

    def hist(self, f):
        n = self.n
        fx = np.uint64(int((np.array(f[:n], dtype=np.uint64) * self.w).sum()))
        fz = np.uint64(int((np.array(f[n:], dtype=np.uint64) * self.w).sum()))
        x, z = self.X ^ fx, self.Z ^ fz
        ny = np.bitwise_count(x & z).astype(np.int64)
        nx = np.bitwise_count(x & ~z & self.mask).astype(np.int64)
        nz = np.bitwise_count(~x & z & self.mask).astype(np.int64)
        code = nx + (n + 1) * ny + (n + 1) ** 2 * nz
        cnt = np.bincount(code)
        out = []
        for c in np.nonzero(cnt)[0]:
            c = int(c)
            out.append((c % (n + 1), (c // (n + 1)) % (n + 1), c // (n + 1) ** 2, int(cnt[c])))
        return out

    def coset_int(self, f, a):
        """numerator of the coset probability: sum over the group of prod of integer weights a = (aI,aX,aY,aZ)"""
        n = self.n
        pw = [[1] * (n + 1) for _ in range(4)]
        for l in range(4):
            for k in range(1, n + 1):
                pw[l][k] = pw[l][k - 1] * a[l]
        return sum(c * pw[0][n - nx - ny - nz] * pw[1][nx] * pw[2][ny] * pw[3][nz] for (nx, ny, nz, c) in self.hist(f))


def dist_ints(dist):
    """float distribution -> integer numerators over a common power-of-two denominator D"""
    frs = [Fraction(float(p)) for p in dist]
    D = max(f.denominator for f in frs)
    return [int(f * D) for f in frs], D


class DistModel:
    """duck-typed error model with an arbitrary single-qubit distribution"""

    def __init__(self, dist):
        self.dist = tuple(float(p) for p in dist)

    def probability_distribution(self, probability):
        return self.dist

    @property
    def label(self):
        return 'dist%s' % (self.dist,)

    def __repr__(self):
        return 'DistModel(%r)' % (self.dist,)


def rand_dist(rng):
    k = rng.randrange(8)
    if k == 0:
        p = rng.choice([0.01, 0.1, 0.3])
        return (1 - p, p / 3, p / 3, p / 3)
    if k == 1:  # strongly biased towards one letter
        p = rng.choice([0.05, 0.2])
        eta = 10.0 ** rng.randint(2, 8)
        hi = p * eta / (eta + 1)
        lo = p / (2 * (eta + 1))
        perm = rng.choice([(hi, lo, lo), (lo, hi, lo), (lo, lo, hi)])
        return (1 - p,) + perm
    if k == 2:  # a vanishing letter
        p = rng.uniform(0.01, 0.4)
        z = rng.randrange(3)
        v = [p / 2, p / 2, p / 2]
        v[z] = 0.0
        return (1 - p, v[0], v[1], v[2])
    if k == 3:  # single-letter noise
        p = rng.uniform(0.01, 0.4)
        v = [0.0, 0.0, 0.0]
        v[rng.randrange(3)] = p
        return (1 - p, v[0], v[1], v[2])
    if k == 4:  # tiny probabilities
        e = [10.0 ** -rng.randint(3, 10) for _ in range(3)]
        return (1 - sum(e), e[0], e[1], e[2])
    if k == 5:  # high noise, not normalised
        return tuple(rng.uniform(0.05, 1.0) for _ in range(4))
    v = [rng.random() for _ in range(4)]
    t = sum(v)
    return tuple(x / t for x in v)


def logical_class(pt, code, t):
    """index (I, X, Y, Z) of the logical action of the normalizer element t (None if t is not in the normalizer)"""
    if np.any(pt.bsp(t, code.stabilizers.T)):
        return None
    a = int(pt.bsp(t, code.logical_zs.T)[0])  # anticommutes with Z-bar: has an X-bar component
    b = int(pt.bsp(t, code.logical_xs.T)[0])
    return {(0, 0): 0, (1, 0): 1, (1, 1): 2, (0, 1): 3}[(a, b)]


def run(ctx):
    import resource
    try:
        resource.setrlimit(resource.RLIMIT_AS, (14 * 2 ** 30, 14 * 2 ** 30))
    except Exception:  # noqa
        pass
    import logging
    logging.getLogger('qecsim').setLevel(logging.CRITICAL)
    import mpmath
    from qecsim import paulitools as pt
    from qecsim.models.planar import PlanarCode, PlanarMPSDecoder, PlanarRMPSDecoder, PlanarYDecoder
    from qecsim.models.rotatedplanar import RotatedPlanarCode, RotatedPlanarMPSDecoder, RotatedPlanarRMPSDecoder
    from qecsim.models.color import Color666Code, Color666MPSDecoder
    from qecsim.models.generic import (DepolarizingErrorModel, BitFlipErrorModel, PhaseFlipErrorModel,
                                       BitPhaseFlipErrorModel, BiasedDepolarizingErrorModel)
    rng = ctx.rng
    from harness import c10_spell
    builder = c10_spell.Builder(ctx)        # decoder classes + the command line's constructor-string parser
    cycle = c10_spell.SpellCycle(builder)   # documented spellings of 'unset' parameters, round-robin (no randomness)
    n_decode = [0]
    ctx.rule = ('planar %s, rotated planar %s, colour 3 and 5; every syndrome when n-k <= 8, random syndromes beyond; '
                'distributions: depolarizing, biased 1e2..1e8, vanishing letters, single-letter, tiny (1e-3..1e-10), '
                'unnormalised, random; every mode c/r/a, stp None/0.5/1; chi / stp / tol left unset in every documented spelling '
                '(omitted, None, 0, 0.0; by keyword, positionally, mixed, as the command line constructor string: full product on '
                'planar 2x2, rotated 3x3, colour 3, every (chi spelling, mode) on the other codes with n <= 13, in rotation in '
                'decode calls on all sizes); one decoder object per class and mode serving sequences of codes (equal rows+cols, '
                'transposed, equal rows / cols, grow and shrink, colour 3 / 5), forwards and backwards, every step against the '
                'exact sums; exact group sums in integer arithmetic; '
                'nontrivial = distinct (code, syndrome, distribution) with non-zero syndrome and (non-square lattice or '
                'biased distribution)' % (ctx.pick('2x2..3x4', '2x2..4x4'), ctx.pick('3x3..4x4', '3x3..4x5')))
    ctx.props_obligations()
    ctx.trusted.append('the exact coset sums are computed by the harness in Python integer arithmetic (numpy bit counts '
                       'over the 2^(n-k) group elements); they are tied to Tensor/Coset.coset_prob exactly on the small codes')
    req, exp = [], []

    def add(fn, line, impl, inp):
        req.append(line)
        exp.append((fn, inp, impl))

    families = []
    planar_sizes = [(2, 2), (2, 3), (3, 2), (3, 3), (2, 4), (4, 2), (3, 4), (4, 3)] + ([] if ctx.quick else [(4, 4)])
    for sz in planar_sizes:
        families.append(('planar', PlanarCode(*sz), [
            ('PlanarMPSDecoder', lambda mode, stp: PlanarMPSDecoder(mode=mode, stp=stp), True),
            ('PlanarRMPSDecoder', lambda mode, stp: PlanarRMPSDecoder(mode=mode, stp=stp), True)]))
    rot_sizes = [(3, 3), (3, 4), (4, 3), (4, 4)] + ([] if ctx.quick else [(4, 5), (5, 4), (3, 5)])
    for sz in rot_sizes:
        families.append(('rotated', RotatedPlanarCode(*sz), [
            ('RotatedPlanarMPSDecoder', lambda mode, stp: RotatedPlanarMPSDecoder(mode=mode), False),
            ('RotatedPlanarRMPSDecoder', lambda mode, stp: RotatedPlanarRMPSDecoder(mode=mode), False)]))
    for sz in (3, 5):
        families.append(('color', Color666Code(sz), [('Color666MPSDecoder', lambda mode, stp: Color666MPSDecoder(), None)]))

    import time
    sect = {}
    kern = []
    for fam, code, decs in families:
        t_fam = time.time()
        n, m = code.n_k_d[0], code.stabilizers.shape[0]
        oracle = GroupOracle(code)
        S = code.stabilizers
        LX, LZ = code.logical_xs[0], code.logical_zs[0]
        square = len(set(code.size)) == 1 if hasattr(code.size, '__len__') else True
        small = n <= 9
        gens_str = rowsstr(S)
        if m <= 8:
            syndromes = [np.array(s, dtype=int) for s in itertools.product((0, 1), repeat=m)]
            n_dist_per = 1 if m > 5 else 2
        else:
            k_s = ctx.pick(60, 400) if n <= 13 else (ctx.pick(40, 250) if n <= 18 else (ctx.pick(16, 100) if n <= 20 else ctx.pick(8, 30)))
            syndromes = [np.zeros(m, dtype=int)] + [np.array([rng.random() < rng.choice([0.1, 0.3, 0.5]) for _ in range(m)], dtype=int)
                                                   for _ in range(k_s)]
            n_dist_per = 1
        base_dists = [rand_dist(rng) for _ in range(4)]
        for si, syn in enumerate(syndromes):
            for di in range(n_dist_per):
                dist = base_dists[(si + di) % 4] if m <= 8 and rng.random() < 0.7 else rand_dist(rng)
                a, D = dist_ints(dist)
                # sample recovery (shared by the decoders of the family so that values are comparable)
                f_pauli = decs[0][1]('c', None).sample_recovery(code, syn)
                f = f_pauli.to_bsf()
                if not np.array_equal(pt.bsp(f, S.T), syn):
                    ctx.violation('sample-recovery', 'sample recovery does not reproduce the syndrome',
                                  {'code': repr(code), 'syndrome': bitstr(syn)})
                    continue
                cands = [f, f ^ LX, f ^ LX ^ LZ, f ^ LZ]
                exact_int = [oracle.coset_int(c, a) for c in cands]
                Dn = Fraction(D) ** n
                exact = [Fraction(v) / Dn for v in exact_int]
                biased = max(dist[1:]) > 20 * min(dist[1:])
                key = (repr(code), bitstr(syn), tuple(dist))
                ctx.count(key, bool(syn.any()) and (biased or not square), '%s %s' % (fam, 'x'.join(map(str, code.size))
                                                                                     if hasattr(code.size, '__len__') else fam + str(code.size)),
                          {'code': repr(code), 'syndrome': bitstr(syn), 'dist': list(dist),
                           'exact_coset_probabilities': [str(float(e)) for e in exact]} if (si, di) == (3, 0) and n <= 13 else None)
                rep0 = {'code': repr(code), 'syndrome': bitstr(syn), 'dist': [float(p).hex() for p in dist],
                        'sample': bitstr(f), 'exact': [str(float(e)) for e in exact]}
                if small and (n <= 5 or si % max(1, len(syndromes) // ctx.pick(7, 48)) == 0):
                    for ci, c in enumerate(cands):
                        add('exact oracle vs Coset.coset_prob', 'coset %d %s %s %s' % (n, gens_str, bitstr(c), ' '.join(hex(v) for v in a)),
                            hex(exact_int[ci]), rep0)
                # --- every decoder of the family, every mode
                values = {}
                for dname, mk, has_stp in decs:
                    modes = ['c'] if has_stp is None else ['c', 'r', 'a']
                    if m > 12 and has_stp is not None:
                        modes = [rng.choice(['c', 'r', 'a']), 'c'] if rng.random() < 0.5 else [rng.choice(['r', 'a'])]
                        modes = list(dict.fromkeys(modes))
                    for mode in modes:
                        stps = [None] if not has_stp else [rng.choice([None, None, 0.5, 1.0])]
                        for stp in stps:
                            dec = mk(mode, stp)
                            rep = dict(rep0, decoder=repr(dec))
                            try:
                                ps, paulis = dec._coset_probabilities(tuple(dist), f_pauli.copy())
                            except Exception as e:  # noqa
                                ctx.violation('exception', '_coset_probabilities raised ' + exc_class(e), rep)
                                continue
                            ctx.count(None, False, '%s mode=%s%s' % (dname, mode, '' if not stp else ' stp'))
                            got_paulis = [p.to_bsf() for p in paulis]
                            if any(not np.array_equal(g, c) for g, c in zip(got_paulis, cands)):
                                ctx.violation('candidates', 'the four sample Paulis are not f, f.X, f.X.Z, f.Z in this order', rep)
                                continue
                            vals = [to_frac(p) for p in ps]
                            values[(dname, mode, stp)] = vals
                            for ci in range(4):
                                v, e = vals[ci], exact[ci]
                                if v is None or abs(v - e) > REL * e:
                                    ctx.violation('coset-probability',
                                                  'coset %s probability %s differs from the exact sum %s by more than 1e-9 relative'
                                                  % ('IXYZ'[ci], None if v is None else float(v), float(e)),
                                                  dict(rep, coset='IXYZ'[ci], got=str(ps[ci])))
                                    break
                    # decode: the returned recovery lies in a coset of maximal exact probability
                    dmode = rng.choice(['c', 'r', 'a']) if has_stp is not None else 'c'
                    dec = mk(dmode, None)
                    repd = dict(rep0, decoder=repr(dec))
                    n_decode[0] += 1
                    if n_decode[0] % 2:     # every other call: one of the documented equivalent spellings of 'chi / stp / tol
                        sp = cycle.next(dname, dmode)     # unset' (None / 0 / 0.0 / omitted; positional / keyword / CLI string)
                        repd['construct'] = sp.record()
                        try:
                            dec = builder.construct(repd['construct'])
                        except Exception as e:  # noqa
                            ctx.violation('unset-spelling-constructor', 'a documented spelling of unset parameters is rejected: '
                                          '%s raised %s' % (sp.text, exc_class(e)), repd)
                            continue
                        repd['decoder'] = repr(dec)
                    try:
                        r = dec.decode(code, syn, error_model=DistModel(dist), error_probability=0.1)
                    except Exception as e:  # noqa
                        ctx.violation('exception', 'decode raised ' + exc_class(e), repd)
                        continue
                    ctx.count(None, False, dname + ' decode')
                    cls = logical_class(pt, code, np.asarray(r) ^ f)
                    rep = dict(repd, recovery=bitstr(r), recovery_class=cls)
                    if cls is None:
                        ctx.violation('decode-syndrome', 'decoded recovery does not reproduce the syndrome', rep)
                        continue
                    srt = sorted(exact, reverse=True)
                    tie = srt[0] == 0 or (srt[0] - srt[1]) <= REL * srt[0]
                    if not tie:
                        if exact[cls] != srt[0]:
                            ctx.violation('decode-argmax', 'decode returns a recovery from coset %s, which is not a coset of '
                                          'maximal probability' % 'IXYZ'[cls], rep)
                        add('arg-max choice', 'mlchoice ' + ','.join(hex(v) for v in exact_int), str(cls), rep)
                        if small and len(kern) < 40 and syn.any():
                            kern.append((n, S, cands, a, exact_int, cls))
                # --- networks built independently agree with each other
                ks = list(values)
                for i in range(len(ks)):
                    for j in range(i + 1, len(ks)):
                        for ci in range(4):
                            x, y = values[ks[i]][ci], values[ks[j]][ci]
                            if x is None or y is None or abs(x - y) > 2 * REL * max(abs(x), abs(y)):
                                ctx.violation('cross-agreement', '%s and %s disagree on coset %s' % (ks[i], ks[j], 'IXYZ'[ci]),
                                              dict(rep0, a=str(ks[i]), b=str(ks[j])))
                                break

        sect[repr(code)] = round(time.time() - t_fam, 1)
    # ---- histories on live decoder objects: A(P1), B(P2), A(P1) with reused instances (added after a seeded change
    #      that shared cached tensors between instances was missed): every value still equals the exact coset sum ----
    for fam, code, decs in families:
        n, m = code.n_k_d[0], code.stabilizers.shape[0]
        if n > 13:
            continue
        oracle = GroupOracle(code)
        S = code.stabilizers
        LX, LZ = code.logical_xs[0], code.logical_zs[0]
        for dname, mk, has_stp in decs:
            for trial in range(ctx.pick(2, 8)):
                mode_a, mode_b = ('c', 'c') if has_stp is None else (rng.choice(['c', 'r', 'a']), rng.choice(['c', 'r', 'a']))
                A, B = mk(mode_a, None), mk(mode_b, None)
                P1, P2 = rand_dist(rng), rand_dist(rng)
                syn = np.array([rng.random() < 0.4 for _ in range(m)], dtype=int)
                f_pauli = decs[0][1]('c', None).sample_recovery(code, syn)
                f = f_pauli.to_bsf()
                cands = [f, f ^ LX, f ^ LX ^ LZ, f ^ LZ]
                script = [(A, P1), (B, P2), (A, P1), (B, P1), (A, P2), (B, P2)]
                for step, (dec, dist) in enumerate(script):
                    a, D = dist_ints(dist)
                    Dn = Fraction(D) ** n
                    exact = [Fraction(oracle.coset_int(c, a)) / Dn for c in cands]
                    rep = {'code': repr(code), 'decoder': repr(dec), 'syndrome': bitstr(syn), 'history_step': step,
                           'history': ['%s(%s)' % ('AB'[d is B], 'P1' if q is P1 else 'P2') for d, q in script[:step + 1]],
                           'P1': [float(x).hex() for x in P1], 'P2': [float(x).hex() for x in P2]}
                    try:
                        ps, _ = dec._coset_probabilities(tuple(dist), f_pauli.copy())
                    except Exception as e:  # noqa
                        ctx.violation('exception', '_coset_probabilities raised ' + exc_class(e), rep)
                        break
                    ctx.count(('history', repr(code), dname, trial, step), True, 'live-instance-history')
                    vals = [to_frac(p_) for p_ in ps]
                    bad = [ci for ci in range(4) if vals[ci] is None or abs(vals[ci] - exact[ci]) > REL * exact[ci]]
                    if bad:
                        ctx.violation('coset-probability-history', 'coset probability of a reused decoder instance differs from the '
                                      'exact sum after another instance was used with another distribution', rep)
                        break
    t_sec = time.time()
    # ---- library error models through decode (documented distributions) ----------------------------------
    for code, dec in ((PlanarCode(3, 3), PlanarMPSDecoder()), (PlanarCode(2, 3), PlanarRMPSDecoder(mode='a')),
                      (RotatedPlanarCode(3, 3), RotatedPlanarMPSDecoder(mode='r')),
                      (RotatedPlanarCode(4, 3), RotatedPlanarRMPSDecoder()), (Color666Code(3), Color666MPSDecoder())):
        oracle = GroupOracle(code)
        n = code.n_k_d[0]
        for em in (DepolarizingErrorModel(), BitFlipErrorModel(), PhaseFlipErrorModel(), BitPhaseFlipErrorModel(),
                   BiasedDepolarizingErrorModel(10, 'Z'), BiasedDepolarizingErrorModel(100, 'Y')):
            for _ in range(ctx.pick(4, 20)):
                p = rng.choice([0.05, 0.1, 0.2, 0.3])
                err = em.generate(code, p, np.random.default_rng(rng.randrange(2 ** 32)))
                syn = pt.bsp(err, code.stabilizers.T)
                dist = em.probability_distribution(p)
                a, D = dist_ints(dist)
                f = dec.sample_recovery(code, syn).to_bsf()
                LX, LZ = code.logical_xs[0], code.logical_zs[0]
                exact_int = [oracle.coset_int(c, a) for c in (f, f ^ LX, f ^ LX ^ LZ, f ^ LZ)]
                r = dec.decode(code, syn, error_model=em, error_probability=p)
                cls = logical_class(pt, code, np.asarray(r) ^ f)
                srt = sorted(exact_int, reverse=True)
                ctx.count((repr(code), repr(em), bitstr(syn), p), bool(syn.any()), 'decode ' + type(em).__name__)
                rep = {'code': repr(code), 'decoder': repr(dec), 'error_model': repr(em), 'p': p, 'syndrome': bitstr(syn),
                       'dist': [float(x).hex() for x in dist], 'recovery': bitstr(r)}
                if cls is None:
                    ctx.violation('decode-syndrome', 'decoded recovery does not reproduce the syndrome', rep)
                elif srt[0] and (srt[0] - srt[1]) * 10 ** 9 > srt[0] and exact_int[cls] != srt[0]:
                    ctx.violation('decode-argmax', 'decode returns a recovery outside the most likely coset', rep)

    sect['library models'] = round(time.time() - t_sec, 1)
    t_sec = time.time()
    # ---- node values of the planar network ---------------------------------------------------------------
    tnc = PlanarMPSDecoder.TNC()
    for dist in [rand_dist(rng) for _ in range(3)]:
        a, D = dist_ints(dist)
        for fch in 'IXYZ':
            fx, fz = int(fch in 'XY'), int(fch in 'ZY')
            for (nn, e, s, w) in itertools.product((0, 1), repeat=4):
                for name, fn in (('hnode', tnc.h_node_value), ('vnode', tnc.v_node_value)):
                    v = fn(tuple(dist), fch, nn, e, s, w)
                    add(name + ' value', '%s %d %d %d %d %d %d %s' % (name, fx, fz, nn, e, s, w, ' '.join(hex(x) for x in a)),
                        hex(int(Fraction(float(v)) * D)), None)
                    ctx.count(None, False, 'node value')
                    # direct: the probability of f . Z^n X^e Z^s X^w (rotated for vertical edges)
                    if name == 'hnode':
                        x, z = fx ^ e ^ w, fz ^ nn ^ s
                    else:
                        x, z = fx ^ s ^ nn, fz ^ e ^ w
                    want = dist[{(0, 0): 0, (1, 0): 1, (1, 1): 2, (0, 1): 3}[(x, z)]]
                    if v != want:
                        ctx.violation('node-value', name + ' value is not the probability of the sample times the adjacent '
                                      'stabilizer choices', {'f': fch, 'nesw': [nn, e, s, w], 'dist': list(dist), 'got': v})

    sect['node values'] = round(time.time() - t_sec, 1)
    t_sec = time.time()
    # ---- stabilizer tensors are deltas (tsr.delta) ------------------------------------------------------
    from qecsim.tensortools import tsr as tt_tsr
    for shape in itertools.product((1, 2, 3), repeat=4):
        dl = tt_tsr.delta(shape)
        add('tsr.delta', 'delta %d.%d.%d.%d' % shape, ','.join(str(int(v)) for v in dl.flatten()), shape)
        ctx.count(None, False, 'delta')
        for idx in np.ndindex(shape):
            nd = [i for i, dsz in zip(idx, shape) if dsz != 1]
            if int(dl[idx]) != (1 if len(set(nd)) <= 1 else 0):
                ctx.violation('delta', 'delta tensor entry is not [all non-dummy indices equal]', {'shape': list(shape), 'index': list(idx)})
                break
    # ---- planar Y decoder ---------------------------------------------------------------------------------
    ydec = PlanarYDecoder()
    for (rr, cc) in [(r_, c_) for r_ in range(2, 6) for c_ in range(2, 6)]:
        code = PlanarCode(rr, cc)
        n = code.n_k_d[0]
        S = np.array(code.stabilizers, dtype=np.uint8)
        # Y-only operators <-> subsets y of qubits; syndrome map H y with H[j][q] = 1 iff Y_q anticommutes with stabilizer j
        H = (S[:, :n] ^ S[:, n:]).astype(np.uint8)
        ker = gf2_kernel(H)
        d = len(ker)
        if d > ctx.pick(16, 20):
            continue
        K = np.zeros((1, n), dtype=np.uint8)
        for v in ker:
            K = np.concatenate([K, K ^ v])
        yb = np.concatenate([K, K], axis=1)  # bsf of the Y-only operators in the kernel
        lx = (pt.bsp(yb, code.logical_xs.T)[:, 0] if yb.shape[0] > 1 else pt.bsp(yb, code.logical_xs.T).reshape(-1)) % 2
        lz = (pt.bsp(yb, code.logical_zs.T)[:, 0] if yb.shape[0] > 1 else pt.bsp(yb, code.logical_zs.T).reshape(-1)) % 2
        cls_k = lx * 2 + lz  # 0 = stabilizer
        classes = sorted(set(int(c) for c in cls_k))
        # the decoder's own group of all-Y stabilizers must be exactly the trivial class
        gy = ydec._y_stabilizers(code)
        mine = set(bitstr(v) for v in yb[cls_k == 0])
        theirs = set(bitstr(v) for v in gy)
        if mine != theirs:
            ctx.violation('y-stabilizers', 'the decoder\'s group of all-Y stabilizers is not the group of Y-only stabilizers',
                          {'code': repr(code), 'missing': len(mine - theirs), 'extra': len(theirs - mine)})
        if len(classes) != 2:
            ctx.violation('y-logical', 'the Y-only normalizer does not split into exactly two cosets', {'code': repr(code), 'classes': classes})
        wts = K.sum(axis=1)
        for _ in range(ctx.pick(40, 300)):
            p = rng.choice([0.02, 0.1, 0.2, 0.3, 0.45, 0.6, 0.85])
            yerr = np.array([rng.random() < p for _ in range(n)], dtype=np.uint8)
            err = np.concatenate([yerr, yerr]).astype(int)
            syn = pt.bsp(err, code.stabilizers.T)
            py = rng.choice([p, rng.uniform(0.01, 0.49), rng.uniform(0.51, 0.99)])   # Pr(Y) above 1/2 too: heavier is likelier
            dist = (1 - py, 0.0, py, 0.0)
            try:
                r = ydec.decode(code, syn, error_model=DistModel(dist), error_probability=py)
            except Exception as e:  # noqa
                ctx.violation('exception', 'PlanarYDecoder.decode raised ' + exc_class(e), {'code': repr(code), 'syndrome': bitstr(syn)})
                continue
            r = np.asarray(r)
            ctx.count((repr(code), bitstr(syn), py), bool(syn.any()), 'PlanarYDecoder %dx%d' % (rr, cc),
                      {'code': repr(code), 'y_error': bitstr(yerr), 'p_y': py} if (rr, cc) == (3, 3) else None)
            rep = {'code': repr(code), 'y_error': bitstr(yerr), 'p_y': float(py).hex(), 'recovery': bitstr(r)}
            if not np.array_equal(pt.bsp(r, code.stabilizers.T), syn) or not np.array_equal(r[:n], r[n:]):
                ctx.violation('y-decode', 'recovery is not a Y-only operator with the syndrome', rep)
                continue
            # exact coset sums over the Y-only operators with this syndrome: err + kernel, split by logical class
            a, D = dist_ints((dist[0], dist[2]))
            wt_all = (K ^ yerr).sum(axis=1)
            tot = {}
            for c in classes:
                ws = np.bincount(wt_all[cls_k == c], minlength=n + 1)
                tot[c] = sum(int(cnt) * a[1] ** k * a[0] ** (n - k) for k, cnt in enumerate(ws) if cnt)
            t = (r[:n] ^ yerr)
            idx = np.nonzero((K == t).all(axis=1))[0]
            if len(idx) != 1:
                ctx.violation('y-decode', 'recovery times error is not in the Y-only normalizer', rep)
                continue
            c_r = int(cls_k[idx[0]])
            best = max(tot.values())
            others = sorted(tot.values(), reverse=True)
            tie = len(others) > 1 and (others[0] - others[1]) * 10 ** 9 <= others[0]
            if not tie and tot[c_r] != best:
                ctx.violation('y-argmax', 'PlanarYDecoder returns a recovery from the less likely coset',
                              dict(rep, totals={str(k): str(v) for k, v in tot.items()}))

    sect['Y decoder'] = round(time.time() - t_sec, 1)
    t_sec = time.time()
    # ---- documented equivalent spellings of 'unset' (added after a seeded change that made chi=0 - documented as
    #      unrestricted, and the only command-line route to modes r / a with exact contraction - truncate to bond dimension 1
    #      was missed): chi in {omitted, None, 0}, stp / tol in {omitted, None, 0, 0.0}, mode omitted / given, passed by
    #      keyword / positionally / mixed / as the command line's constructor string; every one against the exact sums
    c10_spell.run_spellings(ctx, sys.modules[__name__], families, add, builder)
    sect['unset spellings'] = round(time.time() - t_sec, 1)
    t_sec = time.time()
    # ---- one decoder object serving several codes in sequence (added after a seeded change that cached a layer of the
    #      network on the decoder keyed by the network SHAPE - shared by rotated codes of equal rows+cols - was missed: every
    #      decoder above is constructed for one code): each class / mode walks through codes of equal rows+cols, transposed
    #      sizes, equal rows / cols, growing and shrinking sizes; every step against the exact sums of that code
    from harness import c10_reuse
    c10_reuse.run_reuse(ctx, sys.modules[__name__], builder, add)
    sect['one decoder, many codes'] = round(time.time() - t_sec, 1)
    t_sec = time.time()
    # ---- correspondence with the extracted model -----------------------------------------------------------
    out = ctx.model('c10', req, timeout=1500)
    for (fn, inp, impl), mo, line in zip(exp, out, req):
        ctx.cmp(fn, inp if inp is not None else line[:300], impl, mo)
    ctx.extra['model_requests'] = len(req)
    sect['model engine'] = round(time.time() - t_sec, 1)
    ctx.extra['section_seconds'] = sect

    # ---- in-kernel shard -------------------------------------------------------------------------------------
    from harness.common import coq_bits, coq_list
    items = []
    for (n, S, cands, a, exact_int, cls) in kern[:24]:
        gens = coq_list([coq_bits(list(map(int, r))) for r in S])
        vals = []
        for c, v in zip(cands, exact_int):
            items.append('(coset_prob Zring (%d, %d, %d, %d)%%Z %d %s %s =? %d)%%Z' % (a[0], a[1], a[2], a[3], n, gens,
                                                                                   coq_bits(list(map(int, c))), v))
            vals.append('(%d)%%Z' % v)
        items.append('(ml_choice %s =? %d)%%nat' % (coq_list(vals), cls))
    text = ('From Coq Require Import List Bool Arith NArith ZArith.\nFrom QV Require Import Core.Bits Tensor.Sums Tensor.Coset.\n'
            'Import ListNotations.\nDefinition checks : list bool :=\n [' + ';\n  '.join(items) + '].\n'
            'Example corr : forallb (fun b => b) checks = true.\nProof. vm_compute. reflexivity. Qed.\n')
    ctx.kernel_cases('sample', text)
    ctx.extra['kernel_cases'] = len(items)


def gf2_kernel(H):
    """basis of the kernel of the binary matrix H (rows as numpy uint8 vectors)"""
    H = np.array(H, dtype=np.uint8) % 2
    m, n = H.shape
    A = H.copy()
    piv_cols = []
    r = 0
    for c in range(n):
        rows = [i for i in range(r, m) if A[i, c]]
        if not rows:
            continue
        A[[r, rows[0]]] = A[[rows[0], r]]
        for i in range(m):
            if i != r and A[i, c]:
                A[i] ^= A[r]
        piv_cols.append(c)
        r += 1
        if r == m:
            break
    free = [c for c in range(n) if c not in piv_cols]
    basis = []
    for fc in free:
        v = np.zeros(n, dtype=np.uint8)
        v[fc] = 1
        for i, pc in enumerate(piv_cols):
            if A[i, fc]:
                v[pc] = 1
        basis.append(v)
    return basis


def replay(path):
    d = json.load(open(path))
    print(json.dumps(d, indent=1)[:4000])
    rep = d.get('replay', {})
    if rep.get('check') == 'c10_net':      # a site / contraction of the network built by create_tn (harness/c10_net.py)
        from harness import c10_net
        return c10_net.replay_dict(rep)
    if rep.get('check') == 'c10_reuse':    # a history of one decoder object over several codes (harness/c10_reuse.py)
        from harness import c10_reuse
        return c10_reuse.replay_dict(rep)
    if ('decoder' not in rep and 'construct' not in rep) or 'dist' not in rep or 'syndrome' not in rep:
        return 0
    import logging
    logging.getLogger('qecsim').setLevel(logging.CRITICAL)
    from qecsim import paulitools as pt  # noqa
    from qecsim.models.planar import PlanarCode, PlanarMPSDecoder, PlanarRMPSDecoder  # noqa
    from qecsim.models.rotatedplanar import RotatedPlanarCode, RotatedPlanarMPSDecoder, RotatedPlanarRMPSDecoder  # noqa
    from qecsim.models.color import Color666Code, Color666MPSDecoder  # noqa
    code = eval(rep['code'])
    if rep.get('construct'):    # constructed through a documented spelling of the unset parameters (harness/c10_spell.py)
        from harness import c10_spell
        print('decoder constructed as', rep['construct']['text'])
        dec = c10_spell.Builder().construct(rep['construct'])
    else:
        dec = eval(rep['decoder'])
    dist = tuple(float.fromhex(h) if isinstance(h, str) else float(h) for h in rep['dist'])
    syn = np.array([int(ch) for ch in rep['syndrome']], dtype=int)
    oracle = GroupOracle(code)
    f_p = dec.sample_recovery(code, syn)
    f = f_p.to_bsf()
    LX, LZ = code.logical_xs[0], code.logical_zs[0]
    a, D = dist_ints(dist)
    n = code.n_k_d[0]
    exact = [Fraction(oracle.coset_int(c, a)) / Fraction(D) ** n for c in (f, f ^ LX, f ^ LX ^ LZ, f ^ LZ)]
    ps, _ = dec._coset_probabilities(dist, f_p)
    bad = False
    for ci in range(4):
        v = to_frac(ps[ci])
        ok = v is not None and abs(v - exact[ci]) <= REL * exact[ci]
        print('coset', 'IXYZ'[ci], 'impl', ps[ci], 'exact', float(exact[ci]), 'OK' if ok else 'MISMATCH')
        bad = bad or not ok
    r = dec.decode(code, syn, error_model=DistModel(dist), error_probability=0.1)
    cls = logical_class(pt, code, np.asarray(r) ^ f)
    print('decode class', cls, 'argmax', max(range(4), key=lambda i: exact[i]))
    srt = sorted(exact, reverse=True)
    if cls is None or (srt[0] - srt[1] > REL * srt[0] and exact[cls] != srt[0]):
        bad = True
    print('REPRODUCED' if bad else 'not reproduced')
    return 1 if bad else 0


_run_base = run


def run(ctx):   # noqa: F811
    """... then the network correspondence (harness/c10_net.py): the tensor network PlanarMPSDecoder.TNC.create_tn builds,
    site by site against the Gallina network of Tensor/CosetNetwork.v (engine build/qmodel_c10n), and its contractions"""
    _run_base(ctx)
    from harness import c10_net
    c10_net.run_extra(ctx)
    ctx.rule += ('; plus (c10_net) every site tensor (shape and all entries, exact) of PlanarMPSDecoder.TNC.create_tn on planar %s '
                 'for power-of-two / dyadic / ratio / depolarizing / biased / zero-letter distributions and identity, sample_recovery, '
                 'sample x logical, random, all-Y, single-letter samples against the Gallina network planar_network; its contractions '
                 '(both directions, transposed, splits, _coset_probabilities c/r/a) against the model sweep, exactly for power-of-two '
                 'distributions; PlanarRMPSDecoder sites against the model qubit nodes fused with their deltas'
                 % ctx.pick('2x2..4x4, 2x5, 5x3, 5x5', '2x2..5x5, 6x6, 2x7, 7x3'))
