"""C02 — ONE decoder object reused across DIFFERENT codes (operation histories).

The property quantifies over every code/decoder pairing; nothing in it says that a decoder object serves one code
only, and scripts that compare codes build one decoder and loop over the codes.  The main sweep of c02.py builds a
fresh decoder per (code, decoder) job; here, for every decoder class and several parameter sets, one decoder object
decodes a whole STREAM of (code, error, context) items:

  codes     all small codes the class supports, ordered so that codes a careless cache key would confuse are adjacent:
            equal n_k_d (Steane / Color666(3); Planar r x c / c x r; Toric r x c / c x r; RotatedPlanar r x c / c x r;
            Toric 2x2 / RotatedToric 4x2), equal n with different d (5-qubit / Planar 2x2), equal syndrome length, and -
            for the generic NaiveDecoder, which supports any StabilizerCode - TWIN codes: the same code with its qubits
            relabelled by a permutation and its generators reordered (equal n_k_d, equal label, equal repr, equal
            matrix shapes, different stabilizers)
  items     every syndrome of the small codes on each of them; on larger codes errors of spread weights plus MIRROR
            items: an error whose syndrome BIT PATTERN equals the one just decoded on the previous code of the same
            syndrome length (solved over GF(2) from the implementation's stabilizer matrix, re-checked letter-level)
  contexts  error model and probability change from item to item (same pool as the main sweep, noise domain respected);
            documented rejections (ValueError of NaiveDecoder(max_qubits) on a larger code, of the symmetry decoders on
            a context model without usable bias) are interleaved: a raising call must not spoil the following ones
  orders    blocks there-and-back (second pass on fresh, equal code objects), item-wise interleaved, shuffled with
            immediate repeats
  caller    after each decode the caller overwrites the arrays it owns (the returned recovery, the syndrome it passed)

The verdict on every item is the one of the main sweep (verified checker recovery_ok + independent letter-level
syndrome; c02.py regroups the stream results per code and evaluates them with the same code as fresh-object jobs);
for NaiveDecoder additionally the exact answer of the model (Decoders/Naive.v naive_decode, engine dec).  A failing
item is reported with a SHRUNK history (a short list of earlier decodes by the same object after which the item still
fails; found by re-running candidate histories on the implementation and evaluating the property letter-level)."""
import random
import signal

import numpy as np

from harness import decoder_zoo as zoo
from harness.common import bitstr

CHECK = 'c02_reuse'


# ---------------------------------------------------------------------------------------------
# codes: zoo specs plus twins
# ---------------------------------------------------------------------------------------------
def _twin_class():
    from qecsim.model import StabilizerCode

    class TwinCode(StabilizerCode):
        """`base` with qubit q renamed perm[q] and the generators rotated: a different stabilizer code with the same
        n_k_d, label, repr and matrix shapes (NaiveDecoder supports any StabilizerCode)."""

        def __init__(self, base, seed):
            r = random.Random(seed)
            n = base.n_k_d[0]
            perm = list(range(n))
            while n > 1 and perm == list(range(n)):
                r.shuffle(perm)
            cols = perm + [n + q for q in perm]
            S = np.atleast_2d(np.asarray(base.stabilizers))
            m = S.shape[0]
            rows = [(i + 1 + seed) % m for i in range(m)]
            self._stabilizers = np.array(S[rows][:, cols])
            self._logical_xs = np.array(np.atleast_2d(base.logical_xs)[:, cols])
            self._logical_zs = np.array(np.atleast_2d(base.logical_zs)[:, cols])
            self._n_k_d = base.n_k_d
            self._label = base.label
            self._repr = repr(base)

        stabilizers = property(lambda self: self._stabilizers)
        logical_xs = property(lambda self: self._logical_xs)
        logical_zs = property(lambda self: self._logical_zs)
        n_k_d = property(lambda self: self._n_k_d)
        label = property(lambda self: self._label)

        def __repr__(self):
            return self._repr
    return TwinCode


_TWIN = []


def make_code(spec):
    if spec[0] == 'twin':
        if not _TWIN:
            _TWIN.append(_twin_class())
        base, seed = spec[1]
        return _TWIN[0](zoo.make_code(base), seed)
    return zoo.make_code(spec)


_CACHE = {}


def cached_code(spec):
    if spec not in _CACHE:
        _CACHE[spec] = make_code(spec)
    return _CACHE[spec]


def code_name(spec):
    if spec[0] == 'twin':
        return 'twin%d_%s' % (spec[1][1], zoo.code_name(spec[1][0]))
    return zoo.code_name(spec)


def spec_to_json(spec):
    if spec[0] == 'twin':
        return ['twin', [spec_to_json(spec[1][0]), spec[1][1]]]
    return [spec[0], list(spec[1])]


def spec_from_json(j):
    if j[0] == 'twin':
        return ('twin', (spec_from_json(j[1][0]), j[1][1]))
    return (j[0], tuple(j[1]))


def ems_to_json(ems):
    return [ems[0], [list(x) if isinstance(x, tuple) else x for x in ems[1]]]


def ems_from_json(j):
    return (j[0], tuple(tuple(x) if isinstance(x, list) else x for x in j[1]))


def twin(spec, seed):
    return ('twin', (spec, seed))


# ---------------------------------------------------------------------------------------------
# worker: one decoder object, many codes
# ---------------------------------------------------------------------------------------------
def run_stream(job):
    """job = dict(id, decoder=spec, items=[(code_spec, error bits, (em_spec, p), fresh_code)], scribble=bool,
    no_alarm=bool).  ONE decoder object decodes the items in order.  Every answer is copied to a digit string first;
    then (scribble) the arrays the caller owns - the returned recovery, the syndrome passed in - are overwritten."""
    from qecsim import paulitools as pt
    from qecsim.model import DecodeResult
    try:
        decoder = zoo.make_decoder(job['decoder'])
    except Exception as e:  # noqa
        return {'id': job['id'], 'ctor_error': '%s: %s' % (type(e).__name__, e), 'results': []}
    alarm = not job.get('no_alarm')
    res = []
    import time
    t0 = time.time()
    for k, (cs, es, (ems, p), fresh) in enumerate(job['items']):
        code = make_code(cs) if fresh else cached_code(cs)
        e = np.array([int(c) for c in es], dtype=int)
        s = pt.bsp(e, code.stabilizers.T)
        rec = {'syndrome': ''.join(map(str, s.tolist()))}
        try:
            em = zoo.make_error_model(ems)
            kw = {'error_model': em, 'error_probability': p}
            if k % 3 == 0:      # what app.run_once passes besides
                kw.update(error=e.copy(), step_errors=[e.copy()], measurement_error_probability=0.0,
                          step_measurement_errors=[np.zeros(s.shape, dtype=int)])
            arg = s.copy()
            if alarm:
                signal.alarm(zoo.DECODE_TIMEOUT)
            try:
                r = decoder.decode(code, arg, **kw)
            finally:
                if alarm:
                    signal.alarm(0)
            if r is None:
                rec['outcome'] = 'None'
            else:
                if isinstance(r, DecodeResult):
                    rec['decode_result'] = True
                    r = r.recovery
                a = np.asarray(r)
                rec['outcome'] = 'ok'
                rec['shape'] = list(a.shape)
                rec['dtype'] = str(a.dtype)
                rec['recovery'] = zoo.digits(a) if a.ndim == 1 and a.dtype != object else None
                if job.get('scribble', True):
                    try:
                        a[...] = 1 - a
                        arg[...] = 1 - arg
                    except (ValueError, TypeError):
                        pass
        except zoo._Timeout:
            rec['outcome'] = 'ERR Timeout after %ds' % zoo.DECODE_TIMEOUT
        except MemoryError:
            rec['outcome'] = 'ERR MemoryError (cap %d GB)' % (zoo.MEM_CAP >> 30)
        except Exception as ex:  # noqa
            rec['outcome'] = 'ERR %s: %s' % (type(ex).__name__, str(ex)[:160])
        res.append(rec)
    return {'id': job['id'], 'results': res, 'seconds': round(time.time() - t0, 1)}


def run_any(job):
    """pool entry: a stream (one decoder object over many codes) or a fresh-object job of the main sweep"""
    return run_stream(job) if 'items' in job else zoo.run_decode_job(job)


# ---------------------------------------------------------------------------------------------
# streams
# ---------------------------------------------------------------------------------------------
def _pairs(sizes):
    """r x c followed by c x r"""
    out = []
    for r, c in sizes:
        out.append((r, c))
        if r != c:
            out.append((c, r))
    return out


def code_lists(quick):
    L = {
        'planar': _pairs([(2, 2), (2, 3), (3, 3), (2, 5), (3, 4), (4, 4), (3, 5)] + ([] if quick else [(4, 5), (5, 5), (4, 6)])),
        'toric': _pairs([(2, 2), (2, 3), (3, 3), (2, 5), (3, 4), (4, 4), (4, 5)] + ([] if quick else [(5, 5), (4, 6), (3, 6)])),
        'rotatedplanar': _pairs([(3, 3), (3, 4), (4, 4), (3, 5), (4, 5)] + ([] if quick else [(5, 5), (4, 6), (3, 7)])),
        'rotatedtoric': _pairs([(2, 2), (2, 4), (4, 4), (4, 6)] + ([] if quick else [(6, 6), (2, 6)])),
        'color666': [(3,), (5,)],
    }
    out = {f: [(f, sz) for sz in v] for f, v in L.items()}
    five, steane, c3 = ('five', ()), ('steane', ()), ('color666', (3,))
    p23, t22, rp33 = ('planar', (2, 3)), ('toric', (2, 2)), ('rotatedplanar', (3, 3))
    out['naive'] = [five, twin(five, 1), ('planar', (2, 2)), steane, c3, twin(steane, 2), twin(c3, 6), ('rotatedtoric', (2, 2)),
                    p23, ('planar', (3, 2)), twin(p23, 3), t22, ('rotatedtoric', (4, 2)), ('rotatedtoric', (2, 4)), twin(t22, 4),
                    rp33, twin(rp33, 5)]
    return out


def decoder_sets(rng, quick):
    """[(family key, decoder spec, codes filter)]: per class the default and drawn parameter sets; a parameter set that
    makes exact contraction (chi=None / stp=1) is kept to the codes where that was measured cheap"""
    out = []
    # 7: the 8- and 9-qubit codes raise the documented ValueError in between
    for mq in ((10, None, 7) if quick else (10, None, 0, 7)):
        out.append(('naive', ('NaiveDecoder', (mq,)), None))
    if not quick:
        out.append(('naive', ('NaiveDecoder', ()), None))
    for _ in range(3):
        out.append(('planar', ('PlanarMWPMDecoder', ()), None))
        out.append(('planar', ('PlanarYDecoder', ()), None))
        out.append(('toric', ('ToricMWPMDecoder', ()), None))
    out.append(('planar', ('PlanarCMWPMDecoder', ()), None))
    for _ in range(2):
        out.append(('planar', ('PlanarCMWPMDecoder', zoo.cmwpm_params(rng)), None))
    for fam, names in (('planar', ('PlanarMPSDecoder', 'PlanarRMPSDecoder')),
                       ('rotatedplanar', ('RotatedPlanarMPSDecoder', 'RotatedPlanarRMPSDecoder')),
                       ('color666', ('Color666MPSDecoder',))):
        for name in names:
            exact = lambda cs, name=name: zoo.none_chi_ok(name, cs)   # noqa
            sets = [(fam, (name, ()), exact), (fam, (name, zoo.tn_params(rng, name, 0, True)), exact)]
            if quick:
                sets = [sets[rng.randrange(2)]]
            out += sets
            for _ in range(1 if quick else 2):
                out.append((fam, (name, zoo.tn_params(rng, name, 0, False)), None))
    etas = [None, 10, rng.choice([0.1, 1, 300])]
    for eta in etas:
        out.append(('rotatedplanar', ('RotatedPlanarSMWPMDecoder', (eta,)), None))
        out.append(('rotatedtoric', ('RotatedToricSMWPMDecoder', (rng.choice([False, True]), eta)), None))
    return out


ORDERS = ('blocks-there-and-back', 'interleaved', 'shuffled-repeats')


def arrange(rng, order, per_code):
    """per_code = [(code_spec, [item])] -> [(item, fresh_code_object)]"""
    if order == 'blocks-there-and-back':
        out = [(it, False) for cs, its in per_code for it in its]
        for cs, its in reversed(per_code[:-1]):
            m = max(4, len(its) // 4)
            out += [(it, True) for it in (its if len(its) <= m else rng.sample(its, m))]
        return out
    if order == 'interleaved':
        out = []
        for i in range(max(len(its) for _, its in per_code)):
            for cs, its in per_code:
                if i < len(its):
                    out.append((its[i], False))
        return out
    out = [(it, False) for cs, its in per_code for it in its]
    rng.shuffle(out)
    rep = []
    for x in out:
        rep.append(x)
        if rng.random() < 0.2:
            rep.append((x[0], True))     # the same decode again at once, on a fresh equal code object
    return rep


def build_streams(ctx, tmpdir, context_pool):
    """-> [dict(decoder, order, items=[(cs, error bits, (ems, p), fresh)], tags=[(mode, dom)])]"""
    from harness.c02_dense import SyndromeMap
    rng = ctx.rng
    quick = ctx.quick
    capbits = ctx.pick(7, 8)
    lists = code_lists(quick)
    info = {}

    def code_info(cs):
        if cs not in info:
            code = make_code(cs)
            if cs[0] == 'twin':
                code.validate()
            info[cs] = {'code': code, 'n': code.n_k_d[0], 'scodes': zoo.stab_letter_codes(code.stabilizers), 'bases': {}, 'smap': None}
        return info[cs]

    def basis(cs, letters):
        ci = code_info(cs)
        if letters not in ci['bases']:
            ci['bases'][letters] = zoo.syndrome_space(ci['code'], letters)
        return ci['bases'][letters]

    streams = []
    turn = {}        # per decoder class: the orders in rotation from a drawn start
    for fam, ds, ok in decoder_sets(rng, quick):
        codes = [cs for cs in lists[fam] if ok is None or ok(cs)]
        if len(codes) < 2:
            continue
        if ds[0] not in turn:
            turn[ds[0]] = rng.randrange(len(ORDERS))
        order = ORDERS[turn[ds[0]] % len(ORDERS)]
        turn[ds[0]] += 1
        nsample = ctx.pick(6, 32) if ds[0] == 'NaiveDecoder' else ctx.pick(8, 32)
        pool = context_pool(rng, code_info(codes[0])['code'], ds, tmpdir)
        by_dom = {d: [(s, p) for s, p, dd in pool if dd == d] for d in ('any', 'Y', 'reject')}
        if zoo.y_only(ds):
            by_dom = {'any': [], 'Y': [(s, p) for s, p, _ in pool], 'reject': []}
        limit = ds[1][0] if ds[0] == 'NaiveDecoder' and ds[1] and ds[1][0] else None
        per_code = []
        prev = None      # (syndrome length, [syndrome bit strings]) of the previous code
        for cs in codes:
            ci = code_info(cs)
            n = ci['n']
            items = []

            def add(e, dom, mode):
                s, p = rng.choice(by_dom[dom])
                items.append({'cs': cs, 'es': bitstr(e), 'ctx': (s, p if p is not None else rng.choice(zoo.PROBS)), 'dom': dom, 'mode': mode})
            if limit is not None and n > limit:
                # NaiveDecoder(max_qubits) on a code with more qubits: the documented ValueError, in between good decodes
                for e in zoo.weighted_errors(rng, n, 1)[1:4]:
                    s, p = rng.choice(by_dom['any'])
                    items.append({'cs': cs, 'es': bitstr(e), 'ctx': (s, p or 0.1), 'dom': 'reject', 'mode': 'documented-reject'})
                per_code.append((cs, items))
                prev = None
                continue
            for dom in ('any', 'Y'):
                if not by_dom[dom]:
                    continue
                letters = 'Y' if dom == 'Y' else 'XZ'
                b = basis(cs, letters)
                if len(b) <= capbits:
                    errs = zoo.all_syndrome_errors(b)
                    mode = 'all-syndromes'
                    if dom == 'Y' and by_dom['any'] and len(errs) > 32:
                        errs = rng.sample(errs, 32)
                        mode = 'sampled-syndromes'
                else:
                    errs = zoo.weighted_errors(rng, n, 1, 'Y' if dom == 'Y' else 'XYZ')
                    if len(errs) > nsample:
                        errs = errs[:3] + rng.sample(errs[3:], nsample - 3)
                    mode = 'spread-weights'
                    # mirror items: the syndrome bit patterns the previous code (same syndrome length) was just given
                    if dom == 'any' and prev is not None and prev[0] == ci['scodes'].shape[0]:
                        if ci['smap'] is None:
                            ci['smap'] = SyndromeMap(ci['code'].stabilizers)
                        for ss in prev[1][:nsample]:
                            sv = np.array([int(c) for c in ss], dtype=int)
                            w = ci['smap'].witness(sv)
                            if w is not None and np.array_equal(zoo.letter_syndrome(ci['scodes'], w), sv):
                                add(w, 'any', 'mirror-syndromes')
                for e in errs:
                    add(e, dom, mode)
            for j in range(min(3, len(by_dom['reject']))):
                e = zoo.weighted_errors(rng, n, 1)[1 + j]
                items.append({'cs': cs, 'es': bitstr(e), 'ctx': (by_dom['reject'][j][0], 0.1), 'dom': 'reject', 'mode': 'documented-reject'})
            rng.shuffle(items)
            per_code.append((cs, items))
            anyit = [it for it in items if it['dom'] == 'any']
            prev = (ci['scodes'].shape[0], [bitstr(zoo.letter_syndrome(ci['scodes'], np.array([int(c) for c in it['es']]))) for it in anyit])
        seq = arrange(rng, order, per_code)
        streams.append({'decoder': ds, 'order': order, 'family': fam,
                        'items': [(it['cs'], it['es'], it['ctx'], fresh) for it, fresh in seq],
                        'tags': [(it['mode'], it['dom']) for it, _ in seq]})
    return streams, info


# ---------------------------------------------------------------------------------------------
# shrinking a failing history (evaluated on the implementation, property checked letter-level)
# ---------------------------------------------------------------------------------------------
def item_fails(res, cs, reject):
    """the property, evaluated directly on what decode gave for this item"""
    if reject:
        return not (res['outcome'].startswith('ERR ValueError') or res['outcome'] == 'ok')
    if res['outcome'] != 'ok' or res.get('recovery') is None:
        return True
    code = cached_code(cs)
    rec = res['recovery']
    if len(rec) != 2 * code.n_k_d[0] or not set(rec) <= {'0', '1'}:
        return True
    sc = zoo.stab_letter_codes(code.stabilizers)
    return bitstr(zoo.letter_syndrome(sc, np.array([int(c) for c in rec]))) != res['syndrome']


def last_fails(ds, items, reject=False):
    out = run_stream({'id': 0, 'decoder': ds, 'items': items, 'no_alarm': True})
    if out.get('ctor_error') or len(out['results']) != len(items):
        return True
    return item_fails(out['results'][-1], items[-1][0], reject)


def shrink_history(ds, items, pos, reject=False, budget=40, full_check=True):
    """a short history of ONE decoder object that still fails at its last item: [] when a fresh object fails alone,
    None when no failing history was confirmed in this process; else earlier items (order kept) found by trying the
    items with the same syndrome bits, the items of the other codes, (full_check) the whole prefix, then halving"""
    last = items[pos]
    if last_fails(ds, [last], reject):
        return []
    prefix = list(items[:pos])
    from qecsim import paulitools as pt

    def syn(it):
        code = cached_code(it[0])
        return bitstr(pt.bsp(np.array([int(c) for c in it[1]], dtype=int), code.stabilizers.T))
    target = syn(last)
    cands = [[it for it in prefix if it[0] != last[0] and syn(it) == target],
             [it for it in prefix if syn(it) == target],
             [it for it in prefix if it[0] != last[0]][-64:],
             prefix[-64:]]
    cur = None
    for c in cands:
        if c and len(c) < len(prefix) and last_fails(ds, c + [last], reject):
            cur = c
            break
    if cur is None:
        if not full_check or not last_fails(ds, prefix + [last], reject):
            return None
        cur = prefix
    # ddmin-like halving within the budget of re-runs
    chunk = max(1, len(cur) // 2)
    while budget > 0 and len(cur) > 1:
        shrunk = False
        for i in range(0, len(cur), chunk):
            trial = cur[:i] + cur[i + chunk:]
            budget -= 1
            if trial and last_fails(ds, trial + [last], reject):
                cur = trial
                shrunk = True
                break
            if budget <= 0:
                break
        if not shrunk:
            if chunk == 1:
                break
            chunk = max(1, chunk // 2)
        else:
            chunk = max(1, min(chunk, len(cur) // 2))
    return cur


def items_to_json(items):
    return [[spec_to_json(cs), zoo.bsf_to_letters(np.array([int(c) for c in es])), ems_to_json(c[0]), c[1], bool(fresh)]
            for cs, es, c, fresh in items]


def items_from_json(j):
    return [(spec_from_json(cs), bitstr(zoo.letters_to_bsf(es)), (ems_from_json(ems), p), fresh) for cs, es, ems, p, fresh in j]


def replay_dict(r):
    """re-run the recorded history (ONE decoder object: the `prior` decodes, then the failing one) and re-apply the
    verified checker to the last answer: 1 if the failure reproduces"""
    from harness.common import Ctx, rowsstr
    ds = (r['decoder'][0], tuple(r['decoder'][1]))
    cs = spec_from_json(r['code'])
    last = (cs, bitstr(zoo.letters_to_bsf(r['error'])), (ems_from_json(r['error_model']), r['error_probability']),
            bool(r.get('fresh_code_object')))
    items = items_from_json(r.get('prior') or []) + [last]
    zoo._init_worker()
    print('history: %d earlier decode(s) by the same decoder object, then the failing one' % (len(items) - 1))
    out = run_stream({'id': 0, 'decoder': ds, 'items': items})
    if out.get('ctor_error'):
        print('constructor:', out['ctor_error'])
        print('REPRODUCED')
        return 1
    res = out['results'][-1]
    print('outcome now:', res)
    reject = r.get('mode') == 'documented-reject'
    if reject:
        bad = 0 if (res['outcome'].startswith('ERR ValueError') or res['outcome'] == 'ok') else 1
    else:
        bad = 1
        if res.get('recovery') is not None:
            code = make_code(cs)
            ctx = Ctx('C02', 'quick', 0)
            o = ctx.model('dec', ['mat c ' + rowsstr(code.stabilizers),
                                  'rok c %d %s %s' % (code.n_k_d[0], res['recovery'] or '-', res['syndrome'])])
            print('recovery_ok =', o[1])
            bad = 0 if o[1] == '1' else 1
    print('REPRODUCED' if bad else 'not reproduced')
    return bad
