"""C15 - PATHS ON EXISTING PAULIS AND OPERATION HISTORIES (planar, toric, rotated toric).

The all-pairs checks of the family modules look at `new_pauli().path(a, b).to_bsf()` only.  Decoders and callers chain
`pauli.path(a, b)` on ONE object that already carries operators and look at it in between, so here, on one lattice-Pauli
object per trial:

  start   identity | new_pauli(random bsf) | random sites / plaquettes already applied | a copy() of such a Pauli
  steps   path(a, b) with same-type end points (real; planar also boundary-virtual; tori also indices shifted by periods):
          random pairs, REPEATED pairs, reversed pairs, chained pairs (b of the last = a of the next), pairs near an
          earlier one (overlapping routes); interleaved with site / plaquette / logical operations and with READS
          (to_bsf(), repr(), str(), copy(), ==, operator()), some of whose results are kept and looked at later
  after   every step (or after a few steps without any read):
            to_bsf() == previous bsf XOR the MODEL's path operator for (a, b)   (engine latpt / latrc; Lattice/PathAct.v:
              path on any Pauli = XOR with the path operator of the identity Pauli)            key <fam>-path-history-bsf
            operator(site) agrees with the bsf at every site                                    key <fam>-path-history-operator
            copy() / == agree with the bsf                                                      key <fam>-path-history-copy-eq
            the syndrome (implementation's own stabilizers, own symplectic product) changed by exactly the in-lattice
              end points of the path                                                            key <fam>-path-history-syndrome
            arrays returned by earlier to_bsf() calls still hold what they held                 key <fam>-path-history-result-changed
  end     path(a, b) applied twice (with or without a read in between) restores the Pauli      key <fam>-path-twice
          rotated toric: the whole script is also run by the model (rt_ops) from the identity   key rottoric-path-history-model

Other operations (site, plaquette, logicals) are taken from a fresh Pauli of the implementation (C07 compares those with
the model); only the path part is decided against the model here."""
import traceback

import numpy as np

from harness import lat_common
from harness.common import bitstr, exc_class

LET = {(0, 0): 'I', (1, 0): 'X', (0, 1): 'Z', (1, 1): 'Y'}


def _bits_from_hex(h, m):
    return np.array([int(ch) for ch in bin(int(h, 16))[2:].zfill(m)[-m:]], dtype=np.int64)


def _bits_from_str(s, m):
    return np.array([int(ch) for ch in s], dtype=np.int64) if s != '-' else np.zeros(m, dtype=np.int64)


def _s(i):
    return ':'.join(str(int(v)) for v in i)


class _Fam:
    """one lattice: index sets, the family's operations and the model's path operators"""
    name = None
    logicals = ()

    def setup(self):
        code = self.code
        self.n = int(code.n_k_d[0])
        self.type_of = {p: t for t, nodes in enumerate(self.types) for p in nodes}
        # position of every site in the bsf (as the implementation lays it out; the flatten bijection is C07's)
        self.pos = {}
        for s_ in self.sites:
            nz = np.flatnonzero(code.new_pauli().site('X', s_).to_bsf())
            self.pos[s_] = int(nz[0]) if len(nz) == 1 else None
        S = np.asarray(code.stabilizers).astype(np.int64)
        self.Sx, self.Sz = S[:, :self.n], S[:, self.n:]
        # stabilizer row of every real plaquette, through the implementation's own syndrome map
        self.row_of = {}
        for i in range(len(S)):
            e = np.zeros(len(S), dtype=int)
            e[i] = 1
            g = [tuple(int(v) for v in t) for t in code.syndrome_to_plaquette_indices(e)]
            if len(g) == 1:
                self.row_of[g[0]] = i

    def syndrome(self, b):
        b = np.asarray(b).astype(np.int64)
        return (self.Sz @ b[:self.n] + self.Sx @ b[self.n:]) % 2

    def variant(self, rng, p):
        return p

    def canon(self, p):
        return p

    def near(self, rng, p):
        """a node of the same type close to p (its route overlaps routes through p)"""
        q0 = self.canon_node(p)
        cand = [q for q in self.types[self.type_of[q0]] if max(abs(u - v) for u, v in zip(q, q0)) <= 2]
        return rng.choice(cand)

    def canon_node(self, p):
        return p


class _Planar(_Fam):
    name = 'planar'
    logicals = ('logical_x', 'logical_z')

    def __init__(self, size):
        from qecsim.models.planar import PlanarCode
        from harness.lat_planar import all_sites, planar_plaquette_sets
        self.size = size
        self.code = PlanarCode(*size)
        self.sites = all_sites(*size)
        real, virt = planar_plaquette_sets(self.code)
        self.real = set(real)
        self.plaquettes = list(real)
        self.types = [[p for p in real + virt if p[0] % 2 == t] for t in (1, 0)]
        self.setup()

    def canon(self, p):
        return p if p in self.real else None      # a virtual end point is outside the lattice: no syndrome bit

    def model_paths(self, ctx, pairs):
        out = []
        for k in range(0, len(pairs), 300):
            rep = ctx.model('latpt', ['ppath %d %d %s' % (self.size[0], self.size[1],
                                                         ','.join(_s(a) + '>' + _s(b) for a, b in pairs[k:k + 300]))])[0]
            out += rep.split(',')
        return [None if (r == 'E' or r.startswith('ERR')) else _bits_from_hex(r.split(';')[0], 2 * self.n) for r in out]


class _Toric(_Fam):
    name = 'toric'
    logicals = ('logical_x1', 'logical_x2', 'logical_z1', 'logical_z2')

    def __init__(self, size):
        from qecsim.models.toric import ToricCode
        from harness.lat_toric import all_indices
        self.size = size
        self.code = ToricCode(*size)
        self.sites = all_indices(*size)
        self.plaquettes = list(self.sites)
        self.types = [[p for p in self.sites if p[0] == la] for la in (0, 1)]
        self.setup()

    def variant(self, rng, p):
        if rng.random() < 0.3:
            R, C = self.size
            return (p[0] + 2 * rng.randint(-1, 1), p[1] + R * rng.randint(-2, 2), p[2] + C * rng.randint(-2, 2))
        return p

    def canon(self, p):
        return (p[0] % 2, p[1] % self.size[0], p[2] % self.size[1])

    canon_node = canon

    def model_paths(self, ctx, pairs):
        out = []
        for k in range(0, len(pairs), 300):
            rep = ctx.model('latpt', ['tpath %d %d %s' % (self.size[0], self.size[1],
                                                         ','.join(_s(a) + '>' + _s(b) for a, b in pairs[k:k + 300]))])[0]
            out += rep.split(',')
        return [None if (r == 'E' or r.startswith('ERR')) else _bits_from_hex(r.split(';')[0], 2 * self.n) for r in out]


class _RotToric(_Fam):
    name = 'rottoric'
    logicals = ('logical_x1', 'logical_x2', 'logical_z1', 'logical_z2')

    def __init__(self, size):
        from qecsim.models.rotatedtoric import RotatedToricCode
        self.size = size
        r, c = size
        self.code = RotatedToricCode(r, c)
        self.sites = [(x, y) for y in range(r) for x in range(c)]
        self.plaquettes = list(self.sites)
        self.types = [[p for p in self.sites if (p[0] - p[1]) % 2 == t] for t in (0, 1)]
        self.setup()

    def variant(self, rng, p):
        if rng.random() < 0.3:
            r, c = self.size
            return (p[0] + c * rng.randint(-2, 2), p[1] + r * rng.randint(-2, 2))
        return p

    def canon(self, p):
        return (p[0] % self.size[1], p[1] % self.size[0])

    canon_node = canon

    def model_paths(self, ctx, pairs):
        r, c = self.size
        out = ctx.model('latrc', ['rt_pathsfrom %d %d %d %d %d:%d' % (r, c, a[0], a[1], b[0], b[1]) for a, b in pairs])
        return [None if (m == 'E' or m.startswith('ERR')) else _bits_from_str(m, 2 * self.n) for m in out]

    def script(self, ops):
        """the operations of a history as an rt_ops script of the model"""
        tok = []
        for op in ops:
            if op[0] == 'path':
                tok.append('T:%d:%d:%d:%d' % (op[1][0], op[1][1], op[2][0], op[2][1]))
            elif op[0] == 'site':
                tok.append('S%s:%d:%d' % (op[1], op[2][0], op[2][1]))
            elif op[0] == 'plaquette':
                tok.append('P:%d:%d' % op[1])
            elif op[0] == 'logical':
                tok.append({'logical_x1': 'LX1', 'logical_x2': 'LX2', 'logical_z1': 'LZ1', 'logical_z2': 'LZ2'}[op[1]])
        return ','.join(tok)


# ------------------------------------------------------------------------------------------------------------------
# histories
# ------------------------------------------------------------------------------------------------------------------
READS = ('to_bsf', 'repr', 'str', 'copy', 'copy-continue', 'eq', 'operator')


def _gen_pair(rng, F, prev):
    q = rng.random()
    if prev and q < 0.18:
        a, b = rng.choice(prev)                          # the same path again
        return a, b
    if prev and q < 0.28:
        b, a = rng.choice(prev)                          # the way back
        return a, b
    if prev and q < 0.45:
        a = prev[-1][1]                                  # chained: continue from the last end point
        b = rng.choice(F.types[F.type_of[F.canon_node(a)]])
    elif prev and q < 0.65:
        pa, pb = rng.choice(prev)                        # end points close to an earlier pair: overlapping routes
        a = F.near(rng, pa)
        b = F.near(rng, pb) if F.type_of[F.canon_node(pb)] == F.type_of[F.canon_node(a)] else F.near(rng, a)
    else:
        nodes = rng.choice(F.types)
        a, b = rng.choice(nodes), rng.choice(nodes)
    return F.variant(rng, a), F.variant(rng, b)


def _gen_history(rng, F, nsteps):
    """(start, ops): start = ('identity',) | ('bsf', bits) | ('built',) ; ops as tuples, reads included"""
    r = rng.random()
    n = F.n
    if r < 0.2:
        start = ('identity',)
    elif r < 0.65:
        dens = rng.choice([0.1, 0.3, 0.5, 0.9])
        start = ('bsf', [1 if rng.random() < dens else 0 for _ in range(2 * n)])
    else:
        start = ('built',)
    ops, prev = [], []
    if start[0] == 'built':
        for _ in range(rng.randint(1, 6)):
            if rng.random() < 0.6:
                ops.append(('site', rng.choice('XYZ'), rng.choice(F.sites)))
            else:
                ops.append(('plaquette', rng.choice(F.plaquettes)))
        if rng.random() < 0.3:
            ops.append(('read', 'copy-continue'))
    for _ in range(nsteps):
        if rng.random() < 0.35:
            ops.append(('read', rng.choice(READS)))
        r = rng.random()
        if r < 0.62:
            a, b = _gen_pair(rng, F, prev)
            prev.append((a, b))
            ops.append(('path', a, b))
        elif r < 0.8:
            ops.append(('site', rng.choice('XYZ'), rng.choice(F.sites)))
        elif r < 0.93:
            ops.append(('plaquette', rng.choice(F.plaquettes)))
        else:
            ops.append(('logical', rng.choice(F.logicals)))
    # path twice at the end
    if prev and rng.random() < 0.5:
        a, b = rng.choice(prev)
    else:
        nodes = rng.choice(F.types)
        a, b = F.variant(rng, rng.choice(nodes)), F.variant(rng, rng.choice(nodes))
    twice = (a, b, rng.choice(READS + (None, None, None)))
    return start, ops, twice


def _op_text(op):
    if op[0] == 'path':
        return 'path(%s, %s)' % (tuple(op[1]), tuple(op[2]))
    if op[0] == 'site':
        return "site('%s', %s)" % (op[1], tuple(op[2]))
    if op[0] == 'plaquette':
        return 'plaquette(%s)' % (tuple(op[1]),)
    if op[0] == 'logical':
        return op[1] + '()'
    return {'to_bsf': 'to_bsf()', 'repr': 'repr(pauli)', 'str': 'str(pauli)', 'copy': 'pauli.copy()',
            'copy-continue': 'pauli = pauli.copy()', 'eq': 'pauli == new_pauli(to_bsf())',
            'operator': 'operator(site) at every site'}[op[1]]


def _apply(p, op):
    if op[0] == 'path':
        return p.path(op[1], op[2])
    if op[0] == 'site':
        return p.site(op[1], op[2])
    if op[0] == 'plaquette':
        return p.plaquette(op[1])
    return getattr(p, op[1])()


class _Stop(Exception):
    pass


def _run_history(ctx, F, start, ops, twice, pathop, trial, stats):
    rng = ctx.rng
    code, n, fam = F.code, F.n, F.name
    rep0 = {'family': fam, 'size': list(F.size), 'start': 'new_pauli()' if start[0] != 'bsf' else 'new_pauli(bsf %s)' % bitstr(start[1])}
    hist = []

    def fail(key, what, **kw):
        lat_common._viol(ctx, fam + key, what, dict(rep0, history=list(hist), **kw), cap=3)
        raise _Stop()

    if start[0] == 'bsf':
        cur = np.array(start[1], dtype=np.int64)
        p = code.new_pauli(np.array(start[1], dtype=int))
    else:
        cur = np.zeros(2 * n, dtype=np.int64)
        p = code.new_pauli()
    held = []          # (array returned by an earlier to_bsf(), what it held, position in the history)
    left_behind = []   # (pauli object left behind by `pauli = pauli.copy()`, what it held)
    delta_cache = stats.setdefault('delta', {})
    last_checked = None   # implementation's bsf at the last checked read, if nothing happened since
    unread = 0

    def observe(kind):
        nonlocal p
        if kind == 'to_bsf':
            a = p.to_bsf()
            held.append((a, np.array(a).copy(), len(hist)))
        elif kind == 'repr':
            repr(p)
        elif kind == 'str':
            str(p)
        elif kind == 'copy':
            q = p.copy()
            held.append((q.to_bsf(), cur.copy(), len(hist)))
            if not np.array_equal(q.to_bsf(), cur):
                fail('-path-history-copy-eq', 'copy() of the Pauli does not carry the operations applied so far',
                     copy=bitstr(q.to_bsf()), expected=bitstr(cur))
        elif kind == 'copy-continue':
            left_behind.append((p, cur.copy()))
            p = p.copy()
        elif kind == 'eq':
            if not (p == code.new_pauli(np.array(cur, dtype=int))):
                fail('-path-history-copy-eq', '== disagrees with the operations applied so far', expected=bitstr(cur))
        elif kind == 'operator':
            for s_ in F.sites[:40]:
                p.operator(s_)

    def check(op):
        nonlocal last_checked
        got = np.asarray(p.to_bsf())
        stats['checked'] += 1
        if got.shape != cur.shape or not np.array_equal(got, cur):
            fail('-path-history-bsf', 'to_bsf() after a history of operations on one Pauli is not the previous operator times '
                 'the path operator (model) of every path applied', to_bsf=bitstr(got), expected=bitstr(cur))
        sites = F.sites if len(F.sites) <= 80 else rng.sample(F.sites, 80)
        bad = [s_ for s_ in sites if F.pos[s_] is not None and
               p.operator(s_) != LET[(int(got[F.pos[s_]]), int(got[n + F.pos[s_]]))]]
        if bad:
            fail('-path-history-operator', 'operator(site) disagrees with to_bsf() after a history of operations',
                 sites=[list(s_) for s_ in bad[:4]], to_bsf=bitstr(got))
        if not (p == code.new_pauli(got.copy())) or not np.array_equal(p.copy().to_bsf(), got):
            fail('-path-history-copy-eq', 'equality / copy() disagree with to_bsf() after a history of operations', to_bsf=bitstr(got))
        if op is not None and op[0] == 'path' and last_checked is not None:
            want = np.zeros(len(F.Sx), dtype=np.int64)
            for e in (op[1], op[2]):
                c = F.canon(e)
                if c is not None and c in F.row_of:
                    want[F.row_of[c]] ^= 1
            dsyn = (F.syndrome(got) + F.syndrome(last_checked)) % 2
            if not np.array_equal(dsyn, want):
                fail('-path-history-syndrome', 'path(a, b) on a Pauli that already carries operators changes the syndrome at '
                     'plaquettes other than exactly its in-lattice end points', a=list(op[1]), b=list(op[2]),
                     syndrome_change=bitstr(dsyn), want=bitstr(want))
        for arr, snap, at in held:
            if not np.array_equal(arr, snap):
                fail('-path-history-result-changed', 'an array returned by an earlier to_bsf() / copy() changed when later '
                     'operations were applied to the Pauli', returned_after_step=at)
        for q, snap in left_behind:
            if not np.array_equal(q.to_bsf(), snap):
                fail('-path-history-result-changed', 'operations on a copy() changed the Pauli it was copied from')
        last_checked = got.copy()

    try:
        for k, op in enumerate(ops):
            hist.append(_op_text(op))
            if op[0] == 'read':
                observe(op[1])
                continue
            if op[0] == 'path':
                delta = pathop[(op[1], op[2])]
                if delta is None:
                    ctx.obligation('model defines the path operator of a same-type pair', False, repr((fam, F.size, op)))
                    raise _Stop()
                nontrivial = bool(cur.any())
            else:
                key = op
                if key not in delta_cache:
                    delta_cache[key] = np.asarray(_apply(code.new_pauli(), op).to_bsf()).astype(np.int64)
                delta = delta_cache[key]
                nontrivial = False
            _apply(p, op)
            cur = cur ^ delta
            ctx.count((fam, 'history', F.size, trial, k), nontrivial, fam + '-path-history' if op[0] == 'path' else fam + '-history-other-op',
                      dict(rep0, history=list(hist)) if stats.get('sampled') is None and op[0] == 'path' and nontrivial and k >= 4 else None)
            if op[0] == 'path' and nontrivial and k >= 4:
                stats['sampled'] = True
            last = all(o[0] == 'read' for o in ops[k + 1:])
            if rng.random() < 0.7 or unread >= 2 or last:
                check(op)
                unread = 0
            else:
                unread += 1
                last_checked = None
        # path(a, b) twice restores the Pauli
        a, b, between = twice
        if pathop[(a, b)] is not None:
            hist.append('path(%s, %s)' % (tuple(a), tuple(b)))
            p.path(a, b)
            if between is not None:
                hist.append(_op_text(('read', between)))
                cur = cur ^ pathop[(a, b)]
                observe(between)
                cur = cur ^ pathop[(a, b)]
            hist.append('path(%s, %s)' % (tuple(a), tuple(b)))
            p.path(a, b)
            got = np.asarray(p.to_bsf())
            ctx.count((fam, 'twice', F.size, trial), bool(cur.any()) and F.canon_node(a) != F.canon_node(b), fam + '-path-twice')
            if not np.array_equal(got, cur):
                fail('-path-twice', 'path(a, b) applied twice does not restore the Pauli', a=list(a), b=list(b),
                     to_bsf=bitstr(got), expected=bitstr(cur))
            last_checked = None
            check(None)
        return cur
    except _Stop:
        return None
    except Exception as e:  # noqa
        lat_common._viol(ctx, fam + '-path-history-raises', 'a documented lattice-Pauli call raises %s in a history of operations on one '
                         'Pauli' % exc_class(e), dict(rep0, history=list(hist), exception=repr(e)[:200],
                                                   trace=traceback.format_exc()[-600:]))
        return None


def _sizes(ctx):
    rng = ctx.rng
    fixed = {_Planar: [(2, 2), (3, 4), (5, 5)], _Toric: [(2, 2), (3, 4), (5, 5)], _RotToric: [(2, 4), (4, 4), (6, 6)]}
    out = []
    for cls, lst in fixed.items():
        extra = ctx.pick(2, 5)
        hi = ctx.pick(8, 10)
        while extra:
            if cls is _RotToric:
                s = (2 * rng.randint(1, hi // 2), 2 * rng.randint(1, hi // 2))
            else:
                s = (rng.randint(2, hi), rng.randint(2, hi))
            if s not in lst:
                lst = lst + [s]
                extra -= 1
        out += [(cls, s) for s in lst]
    return out


def theorem_obligations(ctx):
    """Lattice/PathAct.v (path on ANY Pauli = XOR with the path operator of the identity Pauli; path twice restores the
    Pauli; planar, toric, rotated toric, all sizes) must compile against the current development, closed under the global
    context - it is what makes `previous bsf XOR model path operator` the model's answer for a path on an existing Pauli."""
    import os
    import re
    import shutil
    import subprocess
    import tempfile
    from harness.common import COQ
    src = os.path.join(COQ, 'theories', 'Lattice', 'PathAct.v')
    names = re.findall(r'^\s*Theorem\s+(\w+)', open(src).read(), flags=re.M)
    tmp = tempfile.mkdtemp(prefix='verif_pathact_')
    try:
        p = subprocess.run(['timeout', '300', 'coqc', '-Q', 'theories', 'QV', '-noglob', '-o', os.path.join(tmp, 'PathAct.vo'),
                            os.path.relpath(src, COQ)], cwd=COQ, capture_output=True, text=True)
        closed = p.stdout.count('Closed under the global context')
        ok = p.returncode == 0 and closed == len(names) and not re.search(r'\b(Admitted|Axiom|Parameter)\b', open(src).read())
        for nm in names:
            ctx.obligation('theorem %s (Lattice/PathAct.v)' % nm, ok, p.stdout + p.stderr)
    finally:
        shutil.rmtree(tmp, ignore_errors=True)


def path_histories(ctx):
    rng = ctx.rng
    theorem_obligations(ctx)
    trials = ctx.pick(40, 200)
    totals = {}
    for cls, size in _sizes(ctx):
        try:
            F = cls(size)
        except Exception as e:  # noqa
            ctx.violation(cls.name + '-path-history-raises', 'building the lattice / its index sets raises %s' % exc_class(e),
                          {'family': cls.name, 'size': list(size), 'trace': traceback.format_exc()[-600:]})
            continue
        hists = [_gen_history(rng, F, rng.randint(3, 9)) for _ in range(trials)]
        pairs = sorted({(op[1], op[2]) for _, ops, _ in hists for op in ops if op[0] == 'path'} | {(t[0], t[1]) for _, _, t in hists})
        pathop = dict(zip(pairs, F.model_paths(ctx, pairs)))
        stats = totals.setdefault(F.name, {'checked': 0, 'histories': 0, 'sizes': []})
        stats['sizes'].append(list(size))
        stats.pop('delta', None)
        finals = []
        for trial, (start, ops, twice) in enumerate(hists):
            stats['histories'] += 1
            finals.append(_run_history(ctx, F, start, ops, twice, pathop, trial, stats))
        if cls is _RotToric:
            # the whole script through the model, from the identity: start XOR model result = what the object holds
            idx = [i for i, f in enumerate(finals) if f is not None]
            r, c = size
            out = ctx.model('latrc', ['rt_ops %d %d %s' % (r, c, F.script(hists[i][1])) if F.script(hists[i][1]) else 'rt_nkd %d %d' % (r, c)
                                      for i in idx])
            for i, m in zip(idx, out):
                start, ops, _ = hists[i]
                if not F.script(ops):
                    continue
                base = np.array(start[1], dtype=np.int64) if start[0] == 'bsf' else np.zeros(2 * F.n, dtype=np.int64)
                ctx.count((F.name, 'script', size, i), True, 'rottoric-history-script')
                if m.startswith('ERR') or not np.array_equal(base ^ _bits_from_str(m, 2 * F.n), finals[i]):
                    lat_common._viol(ctx, 'rottoric-path-history-model', 'the Pauli after a history of operations differs from the model '
                                     'running the same script', {'family': F.name, 'size': list(size), 'start': bitstr(base),
                                                              'history': [_op_text(o) for o in ops], 'model': m[:300],
                                                              'to_bsf': bitstr(finals[i])})
        stats.pop('delta', None)
    for st in totals.values():
        st.pop('sampled', None)
    ctx.extra['path_histories'] = totals
    ctx.notes.append('paths on existing Paulis: %s histories on one Pauli object (random start, repeated / reversed / chained / '
                     'overlapping paths, other operations, reads in between); every checked read decided against the '
                     'model\'s path operators' % sum(s['histories'] for s in totals.values()))
