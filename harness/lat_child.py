"""Child-interpreter worker for the lattice properties (C07 / C08): computes the published matrices of the requested
codes in THIS interpreter (started by harness/lat_common.py with other interpreter options, e.g. `python -O`, and / or
another LOGGING CONFIGURATION of the process) and prints one JSON line per code: n_k_d, a digest of (stabilizers,
logical_xs, logical_zs), optionally the rows (hex).
Stand-alone on purpose (imports only qecsim + numpy; no `assert` statements - they would be stripped under -O).

stdin : one JSON document {"rows": bool, "codes": [[family, [args...]], ...], "logging": null | {"target": "root" |
        "qecsim" | "ini", "level": "DEBUG" | "INFO"}}
        logging target root / qecsim: that logger gets the level and a handler that FORMATS every record and prints
        nothing; ini: qecsim.util.init_logging() as the command line does (the caller points $QECSIM_CFG at a directory
        with a logging_qecsim.ini), before any code is constructed
stdout: first line {"flags": {...}}; then per code {"family":..,"args":..,"n_k_d":..,"digest":..,"rows":{..}} or {"error":..};
        with a logging configuration a last line {"log_records": number of records formatted}"""
import hashlib
import json
import sys

import logging

import numpy as np


def classes():
    from qecsim.models.planar import PlanarCode
    from qecsim.models.toric import ToricCode
    from qecsim.models.rotatedplanar import RotatedPlanarCode
    from qecsim.models.rotatedtoric import RotatedToricCode
    from qecsim.models.color import Color666Code
    from qecsim.models.basic import FiveQubitCode, SteaneCode
    return {'planar': PlanarCode, 'toric': ToricCode, 'rotplanar': RotatedPlanarCode, 'rottoric': RotatedToricCode,
            'color': Color666Code, 'five': FiveQubitCode, 'steane': SteaneCode}


def hexrow(bits):
    bits = np.asarray(bits).astype(np.uint8) & 1
    n = len(bits)
    if n == 0:
        return '-'
    pad = (-n) % 8
    v = int.from_bytes(np.packbits(np.concatenate([np.zeros(pad, dtype=np.uint8), bits])).tobytes(), 'big')
    return '%0*x' % ((n + 3) // 4, v)


def matrix_digest(mats):
    """digest of a tuple of integer matrices: shapes and exact entries"""
    h = hashlib.sha1()
    for M in mats:
        M = np.asarray(M)
        h.update(repr(tuple(int(v) for v in M.shape)).encode())
        h.update(np.ascontiguousarray(M.astype(np.int64)).tobytes())
    return h.hexdigest()


class Formatting(logging.Handler):
    """formats every record it is given (as a stream handler would) and prints nothing"""
    records = 0

    def emit(self, record):
        self.format(record)
        Formatting.records += 1


def configure_logging(cfg):
    if not cfg:
        return None
    level = getattr(logging, cfg['level'])
    if cfg['target'] == 'ini':
        from qecsim import util
        util.init_logging()
    else:
        lg = logging.getLogger() if cfg['target'] == 'root' else logging.getLogger(cfg['target'])
        lg.setLevel(level)
        lg.addHandler(Formatting())
    probe = logging.getLogger('qecsim.models.harness_probe')
    return {'target': cfg['target'], 'level': cfg['level'], 'enabled_for_level': bool(probe.isEnabledFor(level)),
            'enabled_below': bool(probe.isEnabledFor(level - 10))}


def main():
    spec = json.load(sys.stdin)
    log = configure_logging(spec.get('logging'))
    cls = classes()
    print(json.dumps({'flags': {'optimize': sys.flags.optimize, 'debug': bool(__debug__), 'logging': log}}))
    for fam, args in spec['codes']:
        rec = {'family': fam, 'args': args}
        try:
            code = cls[fam](*args)
            S, X, Z = code.stabilizers, code.logical_xs, code.logical_zs
            rec['n_k_d'] = [int(v) for v in code.n_k_d]
            rec['digest'] = matrix_digest((S, X, Z))
            if not np.array_equal(code.logicals, np.vstack([X, Z])):
                rec['digest'] += '+logicals-differ'
            try:
                code.validate()
                rec['validate'] = 'ok'
            except Exception as e:  # noqa
                rec['validate'] = '%s: %s' % (type(e).__name__, str(e)[:120])
            if spec.get('rows'):
                rec['rows'] = {nm: [hexrow(r) for r in M] for nm, M in (('stabilizers', S), ('logical_xs', X), ('logical_zs', Z))}
        except Exception as e:  # noqa
            rec['error'] = '%s: %s' % (type(e).__name__, str(e)[:200])
        print(json.dumps(rec))
    if log:
        print(json.dumps({'log_records': Formatting.records}))
    sys.stdout.flush()


if __name__ == '__main__':
    main()
