"""C12 — MPS canonical forms and truncation honour their contracts.

Level: verified checker + numerical checking (see DESIGN 5/C12).  What is *theorem* (Props/C12.v): the
contiguous-run finder, reverse, the truncate guard, the shape (bond-dimension) model of the QR/SVD sweeps
with "every internal bond <= chi", and state preservation of the uncut sweep relative to QR/SVD oracles.
What is *numerical checking on the implementation's float outputs* (this file): state preservation and
isometry residuals <= 1e-9*scale, unit norm, the truncation error bound against independently recomputed
Schmidt values, zero-state behaviour; the shapes and discrete decisions are compared exactly with the
extracted model."""
import itertools
import json
import math

import numpy as np

from harness.common import exc_class

TOL = 1e-9


# ---------------------------------------------------------------------------------------------
def shape_enc(mps):
    return '|'.join('_' if t is None else '%d.%d.%d.%d' % t.shape for t in mps) if len(mps) else '-'


def mask_enc(mask):
    return '_' if mask is None else (''.join('1' if b else '0' for b in mask) or '-')


def run_of(mps):
    idx = [i for i, t in enumerate(mps) if t is not None]
    return (idx[0], idx[-1] + 1) if idx else (0, 0)


def dense_state(mps):
    """the represented tensor, by plain numpy (no qecsim code): shape (n0, e1, w1, ..., eL, wL, sL) flattened to
    (n0, prod, sL)"""
    ts = [t for t in mps if t is not None]
    acc = None
    for t in ts:
        x = np.transpose(t, (0, 1, 3, 2))  # n e w s
        if acc is None:
            acc = x.reshape((t.shape[0], -1, t.shape[2]))
        else:
            acc = np.tensordot(acc, x, axes=([2], [0]))  # (n0, P, e, w, s)
            acc = acc.reshape((acc.shape[0], -1, t.shape[2]))
    return acc


def scale_of(mps):
    sc = 1.0
    for t in mps:
        if t is not None:
            sc *= float(np.linalg.norm(t))
    return sc


def left_iso_resid(t):
    m = np.transpose(t, (0, 1, 3, 2)).reshape((-1, t.shape[2]))
    return float(np.abs(m.T @ m - np.eye(t.shape[2])).max())


def right_iso_resid(t):
    m = np.transpose(t, (2, 1, 3, 0)).reshape((-1, t.shape[0]))
    return float(np.abs(m.T @ m - np.eye(t.shape[0])).max())


def schmidt_values(mps):
    """singular values of the dense state across every internal bond of the run (independent of qecsim)"""
    ts = [t for t in mps if t is not None]
    st = dense_state(mps)
    n0, sL = st.shape[0], st.shape[2]
    phys = [t.shape[1] * t.shape[3] for t in ts]
    out = []
    full = st.reshape((n0,) + tuple(phys) + (sL,))
    for i in range(len(ts) - 1):
        left = n0 * int(np.prod(phys[:i + 1]))
        m = full.reshape((left, -1))
        out.append(np.linalg.svd(m, compute_uv=False))
    return out


def gen_mps(rng, kind=None, maxlen=7):
    kind = kind or rng.choice(['normal', 'normal', 'uniform', 'rankdef', 'rankdef', 'ints', 'scaled', 'zero-tensor',
                               'zero-struct', 'zero-all'])
    L = rng.randint(1, maxlen)
    typ = rng.choice(['bra', 'ket', 'mpo', 'mpo'])
    budget = 40000
    while True:
        es = [1 if typ == 'ket' else rng.randint(1, 4) for _ in range(L)]
        ws = [1 if typ == 'bra' else rng.randint(1, 4) for _ in range(L)]
        n0 = rng.choice([1, 1, 1, 2, 3])
        sL = rng.choice([1, 1, 1, 2, 3])
        if n0 * sL * int(np.prod(es)) * int(np.prod(ws)) <= budget:
            break
    bonds = [n0] + [rng.randint(1, 6) for _ in range(L - 1)] + [sL]
    ts = []
    for i in range(L):
        shape = (bonds[i], es[i], bonds[i + 1], ws[i])
        n = int(np.prod(shape))
        if kind in ('normal', 'zero-tensor', 'scaled'):
            t = np.array([rng.gauss(0, 1) for _ in range(n)]).reshape(shape)
        elif kind == 'ints':
            t = np.array([float(rng.randint(-2, 2)) for _ in range(n)]).reshape(shape)
            if not t.any():
                t.flat[0] = 1.0
        elif kind == 'rankdef':
            m, c = shape[0] * shape[1] * shape[3], shape[2]
            r = rng.randint(1, max(1, min(m, c) - 1))
            a = np.array([rng.gauss(0, 1) for _ in range(m * r)]).reshape((m, r))
            b = np.array([rng.gauss(0, 1) for _ in range(r * c)]).reshape((r, c))
            t = np.transpose((a @ b).reshape((shape[0], shape[1], shape[3], shape[2])), (0, 1, 3, 2)).copy()
        else:
            t = np.array([rng.uniform(0.1, 1.0) for _ in range(n)]).reshape(shape)
        if kind == 'scaled':
            t = t * (10.0 ** rng.randint(-25, 25))
        ts.append(t)
    if kind == 'zero-tensor':
        ts[rng.randrange(L)][...] = 0.0
    elif kind == 'zero-all':
        for t in ts:
            t[...] = 0.0
    elif kind == 'zero-struct':
        if L >= 2 and bonds[1] >= 2:
            ts[0][...] = 0.0
            ts[0][:, :, 0, :] = 1.0  # only s = 0 leaves site 0
            ts[1][0, ...] = 0.0      # and site 1 ignores n = 0
        else:
            ts[rng.randrange(L)][...] = 0.0
    lead, trail = rng.choice([0, 0, 1, 2]), rng.choice([0, 0, 1, 2])
    return [None] * lead + ts + [None] * trail, kind, typ


def hexs(mps):
    return [None if t is None else {'shape': list(t.shape), 'hex': [float(v).hex() for v in t.flatten()]} for t in mps]


def from_hexs(d):
    return [None if x is None else np.array([float.fromhex(h) for h in x['hex']]).reshape(x['shape']) for x in d]


def finite(mps):
    return all(t is None or np.isfinite(t).all() for t in mps)


def is_zeros_like(out, mps):
    return len(out) == len(mps) and all(
        (o is None and t is None) or (o is not None and t is not None and o.shape == (1, t.shape[1], 1, t.shape[3])
                                      and not o.any()) for o, t in zip(out, mps))


# ---------------------------------------------------------------------------------------------
# Caller-side containers.  qecsim documents an MPS/MPO as "list of numpy.array (4d)", but a tensor-network column
# tn[:, col] (what mps2d.contract hands to these functions, and what it returns as a partial contraction) is a 1-d NumPy
# object array, usually a *view* of the 2-d network.  Every function is exercised with every container the unchanged
# tree accepts, and after every call the container must still hold the very same tensor objects, bit for bit.
CONTAINERS = ('list', 'tuple', 'objarray', 'column', 'row', 'strided')
MASK_CONTAINERS = ('list', 'tuple', 'boolarray')


def tensor_bits_equal(t, s):
    return (t is None and s is None) or (t is not None and s is not None and type(t) is type(s) and t.shape == s.shape
                                         and t.dtype == s.dtype and t.tobytes() == s.tobytes())


class Cont:
    """A container of kind `ckind` holding the tensor objects `tensors`; `obj` is what is handed to qecsim.  For the view
    kinds `base` is the owning array (a small 2-d network / a longer 1-d array) whose other cells hold sentinel tensors."""

    def __init__(self, tensors, ckind, base=None, index=None):
        self.ckind = ckind
        self.snap = [None if t is None else t.copy() for t in tensors]
        self.build(list(tensors), base, index)

    def build(self, tensors, base=None, index=None):
        L, ckind = len(tensors), self.ckind
        self.tensors = tensors
        self.base = None
        if base is not None:      # an existing array: obj is the array itself (index None) or the view base[index]
            self.base, self.obj = base, (base if index is None else base[index])
        elif ckind == 'list':
            self.obj = list(tensors)
        elif ckind == 'tuple':
            self.obj = tuple(tensors)
        else:
            shape, index = {'objarray': ((L,), slice(None)), 'column': ((L, 3), (slice(None), 1)),
                            'row': ((3, L), (1, slice(None))), 'strided': ((2 * L + 1,), slice(1, None, 2))}[ckind]
            arr = np.empty(shape, dtype=object)
            for k, idx in enumerate(np.ndindex(*shape)):
                arr[idx] = np.full((1, 1, 1, 1), float(k + 2))     # sentinels (overwritten below inside the view)
            view = arr if ckind == 'objarray' else arr[index]
            for i, t in enumerate(tensors):
                view[i] = t
            self.obj = view
            if ckind != 'objarray':
                self.base = arr
        if self.base is not None:
            self.cells = [(idx, self.base[idx]) for idx in np.ndindex(*self.base.shape)]
            self.cell_snap = [None if c is None else c.copy() for _, c in self.cells]
        self.obj_type, self.obj_len = type(self.obj), len(self.obj)

    def rebuild(self):
        """after a detected modification: a fresh container of the same kind holding fresh copies of the original tensors"""
        self.build([None if t is None else t.copy() for t in self.snap])

    def modified(self):
        """None, or a description of how the caller's container / tensors differ from what was handed over"""
        if type(self.obj) is not self.obj_type or len(self.obj) != self.obj_len:
            return 'container changed type or length'
        for i, t in enumerate(self.tensors):
            if self.obj[i] is not t:
                return 'container element %d was replaced by another object' % i
        if self.base is not None:
            for (idx, c), cs in zip(self.cells, self.cell_snap):
                if self.base[idx] is not c:
                    return 'cell %s of the array owning the view was replaced' % (idx,)
                if not tensor_bits_equal(c, cs):
                    return 'contents of the tensor in cell %s of the owning array changed' % (idx,)
        for i, (t, sn) in enumerate(zip(self.tensors, self.snap)):
            if not tensor_bits_equal(t, sn):
                return 'contents of tensor %d changed' % i
        return None


def wrap_mask(mask, mkind):
    if mask is None:
        return None
    return {'list': list, 'tuple': tuple, 'boolarray': lambda m: np.array(m, dtype=bool)}[mkind](mask)


def input_check(ctx, name, cont, rep, mask=None, cmask=None):
    """input not modified: container, tensor objects, tensor contents and the mask; restores the container if it was"""
    bad = cont.modified()
    if bad is None and mask is not None and (len(cmask) != len(mask) or [bool(b) for b in cmask] != [bool(b) for b in mask]):
        bad = 'the mask was modified'
    if bad:
        ctx.violation('input-modified', '%s modified its input (%s container): %s' % (name, cont.ckind, bad), rep)
        cont.rebuild()
    return bad


# ---------------------------------------------------------------------------------------------
def check_canonical(ctx, tt, mpmath, mps, kind, right, chi, tol, qr, normalise, mask, add, cont=None, mkind='list'):
    """one call of left/right_canonical_form on the container `cont` (default: a list of the tensors `mps`); returns
    nothing, reports violations.  All expected values below come from the snapshot taken before the call."""
    fn = tt.mps.right_canonical_form if right else tt.mps.left_canonical_form
    name = 'right_canonical_form' if right else 'left_canonical_form'
    cont = cont or Cont(mps, 'list')
    rep = {'function': name, 'mps': hexs(cont.snap), 'kind': kind, 'chi': chi, 'tol': tol, 'qr': qr, 'normalise': normalise,
           'mask': None if mask is None else [bool(b) for b in mask], 'container': cont.ckind, 'mask_container': mkind}
    cmask = wrap_mask(mask, mkind)
    try:
        res = fn(cont.obj, chi=chi, tol=tol, qr=qr, normalise=normalise, mask=cmask)
    except Exception as e:  # noqa
        ctx.violation('exception', '%s raised %s: %s' % (name, type(e).__name__, str(e)[:100]), rep)
        input_check(ctx, name, cont, rep, mask, cmask)
        return
    out, norm = (res if normalise else (res, None))
    input_check(ctx, name, cont, rep, mask, cmask)
    mps = inp = cont.snap
    if normalise and not isinstance(norm, mpmath.mpf):
        ctx.violation('norm-type', 'norm is not an mpmath.mpf', rep)
    if len(out) != len(mps) or any((o is None) != (t is None) for o, t in zip(out, mps)):
        ctx.violation('none-pattern', 'empty sites not preserved', rep)
        return
    if not finite(out) or (normalise and not mpmath.isfinite(norm)):
        ctx.violation('nan', 'NaN/inf in the result', rep)
        return
    a, b = run_of(mps)
    sc = scale_of(mps)
    st_in = dense_state(mps)
    zero_state = st_in is None or not st_in.any()
    cut = (not qr) and (bool(chi) or bool(tol))
    nf = 1.0 if norm is None else float(norm)
    if a == b:
        return
    ro = [t for t in out if t is not None]
    ri = [t for t in mps if t is not None]
    if any(o.ndim != 4 or 0 in o.shape for o in ro) or \
            any(o.shape[1] != t.shape[1] or o.shape[3] != t.shape[3] for o, t in zip(ro, ri)) or \
            any(x.shape[2] != y.shape[0] for x, y in zip(ro, ro[1:])):
        ctx.violation('shapes', 'physical legs changed, bonds inconsistent or of dimension 0', dict(rep, out=shape_enc(out)))
        return
    st_out = dense_state(out)
    # ---- zero state
    exact_zero = any(t is not None and not t.any() for t in mps)
    zl = is_zeros_like(out, mps)
    if normalise and ((nf == 0.0) != zl):
        ctx.violation('zero-state', 'norm 0 and zeros_like tensors do not go together', dict(rep, norm=str(norm)))
        return
    if zl and (not normalise or nf == 0.0):
        # the zero short-circuit was taken (or the input is trivially zero): legitimate only for a numerically zero state
        # (a cut applied to a non-canonical MPS may legitimately annihilate the state)
        if not cut and float(np.abs(st_in).max()) > TOL * sc:
            ctx.violation('zero-state', 'zeros_like returned for a non-zero state', rep)
        return
    if zero_state:
        if normalise and exact_zero:
            ctx.violation('zero-state', 'a zero tensor does not give zeros_like tensors and norm 0', dict(rep, norm=str(norm)))
        if float(np.abs(st_out).max()) * abs(nf) > TOL * sc:
            ctx.violation('zero-state', 'zero state mapped to a non-zero state', rep)
        return
    if ro[0].shape[0] != ri[0].shape[0] or ro[-1].shape[2] != ri[-1].shape[2]:
        ctx.violation('shapes', 'outer legs changed', dict(rep, out=shape_enc(out)))
        return
    # ---- shapes against the model (tol unset: shapes are a function of the input shapes)
    if not tol and not (normalise and nf == 0.0) and not is_zeros_like(out, mps):
        add(name + ' shapes', '%s %s %s %s %s' % ('rcf' if right else 'lcf', shape_enc(mps), '_' if chi is None else str(chi),
                                               '1' if qr else '0', mask_enc(mask)), shape_enc(out), rep)
    # ---- isometries away from the orthogonality centre
    sites = ro[1:] if right else ro[:-1]
    for j, t in enumerate(sites):
        r = right_iso_resid(t) if right else left_iso_resid(t)
        if r > TOL:
            ctx.violation('isometry', 'site %d is not an isometry (residual %.3g)' % (j, r), rep)
            break
    # ---- bonds <= chi where truncation is allowed
    if cut and chi:
        msk = [True] * len(mps) if mask is None else list(mask)
        for i in range(a, b):
            t = out[i]
            # the bond between site i and its successor in sweep direction is cut iff mask of site i (lcf) / i (rcf)
            if not right and i < b - 1 and msk[i] and t.shape[2] > chi:
                ctx.violation('bond-chi', 'bond %d exceeds chi' % i, dict(rep, out=shape_enc(out)))
            if right and i > a and msk[i] and t.shape[0] > chi:
                ctx.violation('bond-chi', 'bond %d exceeds chi' % i, dict(rep, out=shape_enc(out)))
    # ---- masks honoured: a masked-out tensor is never cut
    if mask is not None and cut:
        for i in range(a, b):
            if not mask[i]:
                t, ti = out[i], inp[i]
                if not right and i < b - 1:
                    full = min(out[i].shape[0] * t.shape[1] * t.shape[3], ti.shape[2])
                    if t.shape[2] != full:
                        ctx.violation('mask', 'masked-out tensor %d was cut' % i, dict(rep, out=shape_enc(out)))
                if right and i > a:
                    full = min(out[i].shape[2] * t.shape[1] * t.shape[3], ti.shape[0])
                    if t.shape[0] != full:
                        ctx.violation('mask', 'masked-out tensor %d was cut' % i, dict(rep, out=shape_enc(out)))
    # ---- state preservation (no cut), unit norm
    if normalise and nf != 0.0:
        nrm = float(np.linalg.norm(st_out))
        if abs(nrm - 1.0) > TOL:
            ctx.violation('unit-norm', 'normalised result has norm %.12g' % nrm, rep)
    exact = (not cut) or (not tol and chi and all(min(t.shape[0], t.shape[2]) <= chi for t in ri)
                          and max(t.shape[0] for t in ri[1:] + ri[:1]) <= chi and max(t.shape[2] for t in ri) <= chi)
    if exact:
        if st_out.shape != st_in.shape:
            ctx.violation('state', 'state shape changed', rep)
        else:
            err = float(np.abs(st_out * nf - st_in).max())
            if err > TOL * sc:
                ctx.violation('state', 'represented tensor changed by %.3g (scale %.3g)' % (err, sc), rep)


def check_truncate(ctx, tt, mpmath, mps, kind, chi, tol, mask, add, cont=None, mkind='list'):
    cont = cont or Cont(mps, 'list')
    rep = {'function': 'truncate', 'mps': hexs(cont.snap), 'kind': kind, 'chi': chi, 'tol': tol,
           'mask': None if mask is None else [bool(b) for b in mask], 'container': cont.ckind, 'mask_container': mkind}
    cmask = wrap_mask(mask, mkind)
    given = cont.obj
    try:
        out, norm = tt.mps.truncate(given, chi=chi, tol=tol, mask=cmask)
    except Exception as e:  # noqa
        ctx.violation('exception', 'truncate raised %s: %s' % (type(e).__name__, str(e)[:100]), rep)
        input_check(ctx, 'truncate', cont, rep, mask, cmask)
        return
    same_object = out is given
    input_check(ctx, 'truncate', cont, rep, mask, cmask)
    mps = cont.snap
    bd = max([t.shape[0] for t in mps if t is not None] + [0])
    noop = not (len(mps) and (tol or (chi and chi < bd)) and (mask is None or any(mask)))
    # the discrete decision and the shapes, against the model
    if not tol:
        ident = same_object
        zl = (not ident) and is_zeros_like(out, mps)
        if not zl:
            add('truncate shapes', 'truncate %s %s %s' % (shape_enc(mps), '_' if chi is None else str(chi), mask_enc(mask)),
                'ID' if ident else shape_enc(out), rep)
    # identity when nothing is to be done
    no_bond_exceeds = (not chi) or all(t is None or t.shape[0] <= chi for t in mps)
    if (not tol and no_bond_exceeds) or (mask is not None and not any(mask)) or not len(mps):
        if not same_object or type(norm) is not float or norm != 1.0:
            ctx.violation('truncate-identity', 'truncate is not the identity (same object, norm 1.0) although nothing '
                          'may be truncated', dict(rep, norm=str(norm)))
        return
    if noop != (same_object):
        ctx.violation('truncate-guard', 'truncate guard decision differs from its documentation', rep)
    if same_object:
        return
    if len(out) != len(mps) or any((o is None) != (t is None) for o, t in zip(out, mps)):
        ctx.violation('none-pattern', 'empty sites not preserved', rep)
        return
    if not finite(out) or not mpmath.isfinite(norm):
        ctx.violation('nan', 'NaN/inf in the result of truncate', dict(rep, norm=str(norm)))
        return
    a, b = run_of(mps)
    st_in = dense_state(mps)
    nf = float(norm)
    ro = [t for t in out if t is not None]
    ri = [t for t in mps if t is not None]
    if any(o.ndim != 4 or 0 in o.shape for o in ro) or \
            any(o.shape[1] != t.shape[1] or o.shape[3] != t.shape[3] for o, t in zip(ro, ri)) or \
            any(x.shape[2] != y.shape[0] for x, y in zip(ro, ro[1:])):
        ctx.violation('shapes', 'physical legs changed, bonds inconsistent or of dimension 0', dict(rep, out=shape_enc(out)))
        return
    zl = is_zeros_like(out, mps)
    if (nf == 0.0) != zl:
        ctx.violation('zero-state', 'norm 0 and zeros_like tensors do not go together (truncate)', dict(rep, norm=str(norm)))
        return
    if zl:
        if float(np.abs(st_in).max()) > TOL * scale_of(mps):
            ctx.violation('zero-state', 'truncate returned zeros_like for a non-zero state', rep)
        return
    if not st_in.any():
        if any(t is not None and not t.any() for t in mps):
            ctx.violation('zero-state', 'truncate of an MPS with a zero tensor is not (zeros_like, 0)', dict(rep, norm=str(norm)))
        so = dense_state(out)
        if float(np.abs(so).max()) * abs(nf) > TOL * scale_of(mps):
            ctx.violation('zero-state', 'zero state mapped to a non-zero state by truncate', rep)
        return
    ro = [t for t in out if t is not None]
    ri = [t for t in mps if t is not None]
    if ro[0].shape[0] != ri[0].shape[0] or ro[-1].shape[2] != ri[-1].shape[2] or \
            any(o.shape[1] != t.shape[1] or o.shape[3] != t.shape[3] for o, t in zip(ro, ri)) or \
            any(x.shape[2] != y.shape[0] for x, y in zip(ro, ro[1:])):
        ctx.violation('shapes', 'outer/physical legs changed or bonds inconsistent', dict(rep, out=shape_enc(out)))
        return
    msk = [True] * len(mps) if mask is None else list(mask)
    if chi:
        for i in range(a + 1, b):
            if msk[i] and out[i].shape[0] > chi:
                ctx.violation('bond-chi', 'bond into site %d exceeds chi after truncate' % i, dict(rep, out=shape_enc(out)))
                break
    for j, t in enumerate(ro[1:]):
        r = right_iso_resid(t)
        if r > TOL:
            ctx.violation('isometry', 'site %d of the truncated MPS is not a right isometry (%.3g)' % (j + 1, r), rep)
            break
    st_out = dense_state(out)
    sc = scale_of(mps)
    nin = float(np.linalg.norm(st_in))
    if st_out.shape != st_in.shape:
        ctx.violation('state', 'state shape changed', rep)
        return
    if nin > 1e-6 * sc:
        sv = schmidt_values(mps)
        keep = [t.shape[0] for t in ro[1:]]
        bound = sum(float((s[k:] ** 2).sum()) for s, k in zip(sv, keep))
        err2 = float(((st_out * nf - st_in) ** 2).sum())
        if err2 > bound * (1 + 1e-6) + TOL * nin ** 2:
            ctx.violation('truncation-error', 'error^2 %.6g exceeds discarded Schmidt weight %.6g' % (err2, bound),
                          dict(rep, out=shape_enc(out)))
        # the returned norm is the norm of the input state (left-canonical, normalised last row)
        if abs(nf - nin) > TOL * max(nin, sc):
            ctx.violation('truncate-norm', 'returned norm %.12g is not the norm of the state %.12g' % (nf, nin), rep)


def pairwise_expected(le, ri):
    """contract_pairwise of one site by tensordot (independent of qecsim): sum over left.E = right.W"""
    if le is None:
        return ri
    if ri is None:
        return le
    x = np.transpose(np.tensordot(le, ri, axes=([1], [3])), (0, 3, 4, 1, 5, 2))  # n s w N E S -> n N E s S w
    return x.reshape((le.shape[0] * ri.shape[0], ri.shape[1], le.shape[2] * ri.shape[2], le.shape[3]))


def ladder_expected(mps):
    """contract_ladder of a contiguous, bond-consistent run by tensordot: (n, e1*..*eL, sL, w1*..*wL)"""
    acc = None
    for t in mps:
        if t is None:
            continue
        if acc is None:
            acc = t
        else:
            x = np.transpose(np.tensordot(acc, t, axes=([2], [0])), (0, 1, 3, 4, 2, 5))  # n e w E S W -> n e E S w W
            acc = x.reshape((acc.shape[0], acc.shape[1] * t.shape[1], t.shape[2], acc.shape[3] * t.shape[3]))
    return acc


def ladder_ok(mps):
    """a single contiguous run of tensors with matching bonds"""
    pat = ''.join('0' if t is None else '1' for t in mps).strip('0')
    ts = [t for t in mps if t is not None]
    return bool(ts) and '0' not in pat and all(x.shape[2] == y.shape[0] for x, y in zip(ts, ts[1:]))


def check_pairwise(ctx, tt, left, right, lck, rck):
    """contract_pairwise / zeros_like / contract_ladder / inner_product on caller containers: inputs not modified, results
    equal to the tensordot evaluation whatever the container"""
    lc, rc = Cont(left, lck), Cont(right, rck)
    rep = {'function': 'contract_pairwise', 'mps': hexs(left), 'right': hexs(right), 'container': lck, 'right_container': rck}
    try:
        out = tt.mps.contract_pairwise(lc.obj, rc.obj)
    except Exception as e:  # noqa
        ctx.violation('exception', 'contract_pairwise raised %s: %s' % (type(e).__name__, str(e)[:100]), rep)
        return
    input_check(ctx, 'contract_pairwise (left argument)', lc, rep)
    input_check(ctx, 'contract_pairwise (right argument)', rc, rep)
    want = [pairwise_expected(a, b) for a, b in zip(lc.snap, rc.snap)]
    sc = [1.0 if w is None else max(float(np.linalg.norm(a)) if a is not None else 1.0, 0.0) *
          (float(np.linalg.norm(b)) if b is not None else 1.0) for w, a, b in zip(want, lc.snap, rc.snap)]
    if len(out) != len(want) or any((o is None) != (w is None) or (o is not None and (
            o.shape != w.shape or float(np.abs(o - w).max()) > 1e-12 * x)) for o, w, x in zip(out, want, sc)):
        ctx.violation('pairwise', 'contract_pairwise differs from the site-by-site contraction over left.E = right.W', rep)
        return
    for c, nm in ((lc, 'mps'), (rc, 'right')):
        z = tt.mps.zeros_like(c.obj)
        input_check(ctx, 'zeros_like', c, dict(rep, function='zeros_like', mps=rep[nm], container=c.ckind))
        if not is_zeros_like(z, c.snap):
            ctx.violation('zeros-like', 'zeros_like does not give zero tensors of bond dimension 1 with the same physical legs',
                          dict(rep, function='zeros_like', mps=rep[nm], container=c.ckind))
    if not ladder_ok(want):
        return
    pc = Cont(want, lck)
    prep = {'function': 'contract_ladder', 'mps': hexs(want), 'container': lck}
    try:
        lad = tt.mps.contract_ladder(pc.obj)
    except Exception as e:  # noqa
        ctx.violation('exception', 'contract_ladder raised %s: %s' % (type(e).__name__, str(e)[:100]), prep)
        return
    input_check(ctx, 'contract_ladder', pc, prep)
    wl = ladder_expected(want)
    lsc = scale_of(want)
    if lad.shape != wl.shape or float(np.abs(lad - wl).max()) > 1e-10 * lsc:
        ctx.violation('ladder', 'contract_ladder differs from the bond-by-bond contraction', prep)
        return
    if wl.size == 1:
        irep = dict(rep, function='inner_product')
        try:
            ip = tt.mps.inner_product(lc.obj, rc.obj)
        except Exception as e:  # noqa
            ctx.violation('exception', 'inner_product raised %s: %s' % (type(e).__name__, str(e)[:100]), irep)
            return
        input_check(ctx, 'inner_product (bra)', lc, irep)
        input_check(ctx, 'inner_product (ket)', rc, irep)
        if abs(float(ip) - float(wl.flatten()[0])) > 1e-10 * lsc:
            ctx.violation('inner-product', 'inner_product %r differs from the contraction %r' % (float(ip), float(wl.flatten()[0])),
                          irep)


def gen_partner(rng, left, typ):
    """an MPS/MPO whose W legs match the E legs of `left` site by site (None allowed where pairwise contraction copies)"""
    n = len(left)
    a, b = run_of(left)
    ket = typ == 'bra' and left[a].shape[0] == 1 and left[b - 1].shape[2] == 1 and rng.random() < 0.7
    rb = [rng.randint(1, 3) for _ in range(n + 1)]
    if ket:
        rb[a] = rb[b] = 1
    right = []
    for i, t in enumerate(left):
        if t is None:
            right.append(None if (ket or rng.random() < 0.7) else
                         np.array([rng.gauss(0, 1) for _ in range(rb[i] * 2 * rb[i + 1] * 1)]).reshape((rb[i], 2, rb[i + 1], 1)))
        elif not ket and rng.random() < 0.08:
            right.append(None)
        else:
            shape = (rb[i], 1 if ket else rng.randint(1, 3), rb[i + 1], t.shape[1])
            right.append(np.array([rng.gauss(0, 1) for _ in range(int(np.prod(shape)))]).reshape(shape))
    return right


def check_network(ctx, tt, mpmath, tn, label, add, rng, mask_containers):
    """every column of a 2-d network, passed as the view tn[:, c], and partial contractions as returned by
    mps2d.contract (1-d object arrays; a one-column partial contraction is itself a view of the network): the whole
    network must be untouched afterwards and the usual contracts must hold"""
    def calls(cont, tensors, kind):
        for _ in range(2):
            chi = rng.choice([None, 1, 2, 3, 4])
            tol = rng.choice([None, None, 1e-8])
            qr = rng.random() < 0.3
            if qr:
                chi, tol = None, None
            mask = None if rng.random() < 0.6 else [rng.random() < 0.6 for _ in tensors]
            check_canonical(ctx, tt, mpmath, tensors, kind, rng.random() < 0.5, chi, tol, qr, rng.random() < 0.6, mask, add,
                            cont=cont, mkind=rng.choice(mask_containers))
            ctx.count((label, kind, 'cf', chi, tol, qr, mask_enc(mask)), True, 'network column/partial contraction')
        for _ in range(2):
            bd = max(t.shape[0] for t in tensors if t is not None)
            chi = rng.choice([1, 2, max(bd - 1, 1), max(bd // 2, 1), bd])
            mask = None if rng.random() < 0.6 else [rng.random() < 0.6 for _ in tensors]
            check_truncate(ctx, tt, mpmath, tensors, kind, chi, rng.choice([None, None, 1e-8]), mask, add, cont=cont,
                           mkind=rng.choice(mask_containers))
            ctx.count((label, kind, 'truncate', chi, mask_enc(mask)), True, 'network column/partial contraction')

    ncols = tn.shape[1]
    guard = Cont(list(tn[:, 0]), 'column', base=tn, index=(slice(None), 0))     # watches every cell of the network
    for c in range(ncols):
        tensors = list(tn[:, c])
        if ladder_ok(tensors):
            calls(Cont(tensors, 'column', base=tn, index=(slice(None), c)), tensors, 'network-column')
    if guard.modified():
        return      # reported above by the call that did it; the network is no longer the one that was built
    for start, stop, step in [(None, k, None) for k in range(1, ncols)] + [(-1, k, -1) for k in range(ncols - 2, -1, -1)]:
        prep = {'function': 'mps2d.contract', 'network': label, 'start': start, 'stop': stop, 'step': step,
                'chi': rng.choice([None, 4, 6])}
        part, mult = tt.mps2d.contract(tn, chi=prep['chi'], start=start, stop=stop, step=step)
        bad = guard.modified()
        if bad:
            ctx.violation('input-modified', 'a partial contraction by mps2d.contract (which hands the columns tn[:, c] to '
                          'contract_pairwise / truncate) modified the network: ' + bad, prep)
            return
        if part is None or not isinstance(part, np.ndarray) or part.dtype != object or part.ndim != 1:
            ctx.violation('partial-type', 'a partial contraction is not the documented 1-d numpy array of tensors',
                          {'network': label, 'start': start, 'stop': stop, 'step': step, 'type': type(part).__name__})
            continue
        tensors = list(part)
        if not ladder_ok(tensors) or int(np.prod([t.shape[1] * t.shape[3] for t in tensors])) > 70000:
            continue
        if np.shares_memory(part, tn):      # the one-column partial contraction is the network column itself
            col = 0 if step is None else ncols - 1
            cont = Cont(tensors, 'column', base=tn, index=(slice(None), col))
        else:
            cont = Cont(tensors, 'objarray', base=part)
        calls(cont, tensors, 'partial-contraction')
        if guard.modified():
            return


def run(ctx):
    import mpmath
    from qecsim import tensortools as tt
    rng = ctx.rng
    ctx.rule = ('generated MPS/MPO: run length 1-7 with 0-2 leading/trailing None, physical dims 1-4 (bra/ket/MPO), bonds '
                '1-6, outer legs 1-3; entries gaussian / uniform / rank-deficient / small ints / scaled 1e+-25 / a zero '
                'tensor / structurally zero state / all zero; left and right canonical forms (QR, SVD, chi, tol, masks, '
                'normalise) and truncate; every MPS handed over in one of the containers list / tuple / 1-d object array / '
                'column, row or strided view of an object array (masks: list / tuple / bool array), the container reused by '
                'all calls and checked unmodified after each; columns and partial contractions of planar networks 2x2..4x3 '
                '(thorough ..5x5) as views of the network; nontrivial = distinct case with >= 3 sites and some bond > chi')
    ctx.props_obligations()
    ctx.trusted.append('LAPACK QR/SVD via SciPy meet their contracts (checked numerically on every observed call through '
                       'the isometry and state residuals); numpy float linear algebra in the harness (einsum/tensordot/svd)')
    ctx.notes.append('level: theorems for the discrete skeleton (start/stop finder, reverse, truncate guard, shape model with '
                     'bonds <= chi, uncut-sweep state preservation relative to QR/SVD oracles); the numerical contracts '
                     '(residuals <= 1e-9*scale, unit norm, truncation error bound) are numerical checks of float outputs')
    req, exp = [], []

    def add(fn, line, impl, inp):
        req.append(line)
        exp.append((fn, inp, impl))

    # ---- 0. the contiguous-run finder, exhaustively -------------------------------------------------
    t1 = np.ones((1, 1, 1, 1))
    for n in range(0, ctx.pick(9, 12)):
        for pat in itertools.product('01', repeat=n):
            mps = [t1 if ch == '1' else None for ch in pat]
            try:
                impl = '%d %d' % tt.mps._mps_start_stop_indices(mps)
            except ValueError:
                impl = 'ERR ValueError'
            add('_mps_start_stop_indices', 'startstop ' + (''.join(pat) or '-'), impl, ''.join(pat))
            ctx.count(None, False, 'start-stop')
            # direct: ValueError iff a tensor follows a None that follows a tensor
            s = ''.join(pat).strip('0')
            if ('0' in s) != (impl == 'ERR ValueError'):
                ctx.violation('start-stop', 'contiguity decision wrong', {'pattern': ''.join(pat), 'got': impl})
            if impl != 'ERR ValueError' and '1' in pat:
                a, b = map(int, impl.split())
                if ''.join(pat) != '0' * a + '1' * (b - a) + '0' * (n - b):
                    ctx.violation('start-stop', 'start/stop do not delimit the tensors', {'pattern': ''.join(pat), 'got': impl})
    ctx.exhaustive = False

    # ---- 1. generated MPS -------------------------------------------------------------------------
    # every container kind below is accepted by every function of the unchanged tree (probed by hand on /repo with all six
    # kinds and all three mask kinds: no exception), so the whole product is inside the domain
    containers, mask_containers = ('list',) + CONTAINERS, MASK_CONTAINERS
    ctx.notes.append('containers: every MPS/MPO is handed over as list / tuple / owning 1-d object array / column view '
                     'tn[:, c] / row view / strided view of a 1-d object array, masks as list / tuple / numpy bool array; the '
                     'unchanged tree accepts all of them in every function (none left out); after every call the container '
                     'must hold the same tensor objects with bit-identical contents (key input-modified), one container '
                     'object is reused for all calls on a generated MPS, and all expected values are computed from a '
                     'snapshot taken before the first call')
    for it in range(ctx.pick(2500, 25000)):
        mps, kind, typ = gen_mps(rng, maxlen=ctx.pick(6, 7) if it % 5 else 7)
        a, b = run_of(mps)
        L = b - a
        # the caller's container: one object per generated MPS, reused by every call below (and restored by input_check if
        # a call modified it); the mask container varies per call
        ckind = rng.choice(containers)
        cont = Cont(mps, ckind)
        crep = {'mps': hexs(mps), 'container': ckind}
        bd = tt.mps.bond_dimension(cont.obj)
        input_check(ctx, 'bond_dimension', cont, dict(crep, function='bond_dimension'))
        add('bond_dimension', 'bond ' + shape_enc(mps), str(bd), None)
        if bd != max([t.shape[0] for t in mps if t is not None] + [0]) or type(bd) is not int:
            ctx.violation('bond-dimension', 'bond_dimension is not the largest north dimension',
                          {'mps': shape_enc(mps), 'container': ckind})
        # reverse
        rv = tt.mps.reverse(cont.obj)
        input_check(ctx, 'reverse', cont, dict(crep, function='reverse'))
        add('reverse shapes', 'reverse ' + shape_enc(mps), shape_enc(rv), None)
        rr = tt.mps.reverse(rv)
        if len(rv) != len(mps) or len(rr) != len(mps) or \
                any((x is None) != (y is None) or (x is not None and not np.array_equal(x, y)) for x, y in zip(rr, mps)) or \
                any((x is None) != (y is None) or (x is not None and not np.array_equal(np.transpose(x, (2, 1, 0, 3)), y))
                    for x, y in zip(rv, reversed(mps))):
            ctx.violation('reverse', 'reverse is not the mirror image / not an involution', crep)
        maxb = max([max(t.shape[0], t.shape[2]) for t in mps if t is not None] + [1])
        ntv = L >= 3
        for rep_i in range(3):
            chi = rng.choice([None, None, 1, 2, 3, rng.randint(1, 7), maxb, maxb + 1])
            tol = rng.choice([None, None, None, 0, 1e-12, 1e-8, 1e-3, 0.3])
            qr = rng.random() < 0.3
            if qr:
                chi, tol = rng.choice([None, 0]), rng.choice([None, 0, 0.0])
            normalise = rng.random() < 0.5
            mask = None if rng.random() < 0.5 else [rng.random() < 0.6 for _ in mps]
            right = rng.random() < 0.5
            check_canonical(ctx, tt, mpmath, mps, kind, right, chi, tol, qr, normalise, mask, add, cont=cont,
                            mkind=rng.choice(mask_containers))
            ctx.count((shape_enc(mps), kind, chi, tol, qr, normalise, mask_enc(mask), right, it),
                      ntv and bool(chi) and chi < maxb and not qr,
                      '%s %s %s' % ('rcf' if right else 'lcf', 'qr' if qr else 'svd', kind),
                      {'mps': shape_enc(mps), 'kind': kind, 'form': 'right' if right else 'left', 'chi': chi, 'tol': tol,
                       'qr': qr, 'normalise': normalise, 'mask': mask_enc(mask), 'container': ckind}
                      if it in (3, 11) and rep_i == 0 else None)
        for rep_i in range(3):
            chi = rng.choice([None, 1, 2, 3, rng.randint(1, 7), max(bd, 1), max(bd - 1, 1), bd + 1, 0])
            tol = rng.choice([None, None, None, 0, 0.0, 1e-12, 1e-8, 1e-3])
            mask = None if rng.random() < 0.6 else [rng.random() < rng.choice([0.0, 0.6, 0.6]) for _ in mps]
            check_truncate(ctx, tt, mpmath, mps, kind, chi, tol, mask, add, cont=cont, mkind=rng.choice(mask_containers))
            ctx.count((shape_enc(mps), kind, chi, tol, mask_enc(mask), 'truncate', it),
                      ntv and bool(chi) and chi < bd, 'truncate %s' % kind)
        ctx.count(None, False, 'container ' + ckind)

    # ---- 1b. the functions feeding / consuming the sweeps, on the same containers ------------------------------
    for it in range(ctx.pick(400, 4000)):
        left, kind, typ = gen_mps(rng, kind=rng.choice(['normal', 'uniform', 'ints', 'zero-tensor']), maxlen=5)
        right = gen_partner(rng, left, typ)
        lck, rck = rng.choice(containers), rng.choice(containers)
        check_pairwise(ctx, tt, left, right, lck, rck)
        ctx.count((shape_enc(left), shape_enc(right), lck, rck, it), ladder_ok(left) and len(left) >= 3,
                  'pairwise/ladder/inner_product/zeros_like on containers')

    # ---- 1c. real networks: columns passed as views tn[:, c]; partial contractions from mps2d.contract ---------------
    from qecsim.models.generic import DepolarizingErrorModel, BitPhaseFlipErrorModel
    from qecsim.models.planar import PlanarCode, PlanarMPSDecoder
    for size in ctx.pick([(2, 2), (3, 3), (3, 4), (4, 3)], [(2, 2), (2, 3), (3, 3), (3, 4), (4, 3), (4, 4), (5, 5)]):
        for rep_i in range(ctx.pick(1, 3)):
            code = PlanarCode(*size)
            em = rng.choice([DepolarizingErrorModel(), BitPhaseFlipErrorModel()])
            p = rng.choice([0.05, 0.1, 0.2])
            bits = [rng.random() < p for _ in range(2 * code.n_k_d[0])]
            tn = PlanarMPSDecoder.TNC().create_tn(em.probability_distribution(p), code.new_pauli(np.array(bits, dtype=int)))
            check_network(ctx, tt, mpmath, tn, 'planar %dx%d %s p=%s' % (size + (em.label, p)), add, rng, mask_containers)

    # ---- 2. argument validation -----------------------------------------------------------------------
    mps = [np.ones((1, 2, 2, 1)), np.ones((2, 2, 1, 1))]
    for kw in ({'chi': 2, 'qr': True}, {'tol': 1e-3, 'qr': True}, {'mask': [True]}):
        try:
            tt.mps.left_canonical_form(mps, **kw)
            got = 'ok'
        except AssertionError:
            got = 'AssertionError'
        except Exception as e:  # noqa
            got = exc_class(e)
        ctx.count(None, False, 'validation')
        if got != 'AssertionError':
            ctx.violation('validation', 'incompatible arguments accepted', {'kwargs': str(kw), 'got': got})
    for pat in ('101', '1101'):
        col = [np.ones((1, 1, 1, 1)) if ch == '1' else None for ch in pat]
        for f in (tt.mps.left_canonical_form, tt.mps.right_canonical_form):
            try:
                f(col)
                got = 'ok'
            except ValueError:
                got = 'ValueError'
            ctx.count(None, False, 'validation')
            if got != 'ValueError':
                ctx.violation('validation', 'non-contiguous MPS accepted', {'pattern': pat})
    if tt.mps.bond_dimension([]) != 0 or tt.mps.bond_dimension([None]) != 0:
        ctx.violation('bond-dimension', 'bond_dimension of an empty MPS is not 0', {})
    e = tt.mps.truncate([], chi=1)
    if e[0] != [] or e[1] != 1.0:
        ctx.violation('truncate-identity', 'truncate of an empty MPS', {})

    # ---- correspondence with the extracted model ------------------------------------------------------
    out = ctx.model('c12', req)
    for (fn, inp, impl), m, line in zip(exp, out, req):
        ctx.cmp(fn, {'request': line[:300], 'case': inp} if isinstance(inp, dict) else line[:300], impl, m)
    ctx.extra['model_requests'] = len(req)

    # ---- in-kernel shard ------------------------------------------------------------------------------
    items = []
    seen = set()
    for (fn, inp, impl), line in zip(exp, req):
        if len(items) >= 120:
            break
        toks = line.split()
        if toks[0] not in ('lcf', 'rcf', 'truncate') or line in seen or len(line) > 160:
            continue
        seen.add(line)

        def shp(s):
            return '[' + '; '.join('None' if x == '_' else 'Some (%s, %s, %s, %s)' % tuple(x.split('.'))
                                   for x in (s.split('|') if s != '-' else [])) + ']'

        def optz(s):
            return 'None' if s == '_' else '(Some (%s)%%Z)' % s

        def msk(s):
            return 'None' if s == '_' else '(Some [' + '; '.join('true' if c == '1' else 'false' for c in (s if s != '-' else '')) + '])'
        if toks[0] in ('lcf', 'rcf'):
            items.append('(sres_eqb (%s_dims %s %s %s %s) (Some %s))' % (toks[0], optz(toks[2]), 'true' if toks[3] == '1' else 'false',
                                                                      msk(toks[4]), shp(toks[1]), shp(impl)))
        else:
            items.append('(sres_eqb (truncate_dims %s %s %s) (%s))' % (optz(toks[2]), msk(toks[3]), shp(toks[1]),
                                                                      'Some ' + shp(toks[1] if impl == 'ID' else impl)))
    text = ('From Coq Require Import List Bool Arith ZArith.\nFrom QV Require Import Tensor.MpsDims.\nImport ListNotations.\n'
            'Definition checks : list bool :=\n [' + ';\n  '.join(items) + '].\n'
            'Example corr : forallb (fun b => b) checks = true.\nProof. vm_compute. reflexivity. Qed.\n')
    ctx.kernel_cases('sample', text)
    ctx.extra['kernel_cases'] = len(items)



_run_main = run


def run(ctx):   # noqa: F811
    _run_main(ctx)
    from harness import c12_extra, c12_own
    c12_extra.run(ctx)
    c12_own.run(ctx)    # result ownership histories: caller edits returned tensors in place, then calls again


def replay(path):
    d = json.load(open(path))
    rep = d.get('replay', {})
    print(json.dumps({k: v for k, v in d.items() if k != 'replay'}, indent=1))
    if rep.get('function') == 'ownership-history':
        from harness import c12_own
        return c12_own.replay_rep(rep)
    if 'mps' not in rep or not isinstance(rep['mps'], list):
        print(json.dumps(rep, indent=1)[:3000])
        return 0
    import mpmath
    from qecsim import tensortools as tt
    from harness.common import Ctx
    mps = from_hexs(rep['mps'])
    ctx = Ctx('C12', 'quick', 0)
    sink = []
    cont = Cont(mps, rep.get('container', 'list'))
    mkind = rep.get('mask_container', 'list')
    fnname = rep.get('function')
    if fnname == 'truncate':
        check_truncate(ctx, tt, mpmath, mps, rep.get('kind', ''), rep.get('chi'), rep.get('tol'), rep.get('mask'),
                       lambda *a: sink.append(a), cont=cont, mkind=mkind)
    elif fnname in ('left_canonical_form', 'right_canonical_form'):
        check_canonical(ctx, tt, mpmath, mps, rep.get('kind', ''), fnname == 'right_canonical_form', rep.get('chi'),
                        rep.get('tol'), rep.get('qr', False), rep.get('normalise', False), rep.get('mask'),
                        lambda *a: sink.append(a), cont=cont, mkind=mkind)
    elif fnname in ('bond_dimension', 'reverse', 'zeros_like', 'contract_ladder'):
        getattr(tt.mps, fnname)(cont.obj)
        input_check(ctx, fnname, cont, rep)
    elif fnname in ('contract_pairwise', 'inner_product') and 'right' in rep:
        check_pairwise(ctx, tt, mps, from_hexs(rep['right']), rep.get('container', 'list'), rep.get('right_container', 'list'))
    else:
        print(json.dumps({k: v for k, v in rep.items() if k != 'mps'}, indent=1)[:3000])
        return 0
    for v in ctx.violations:
        print('REPRODUCED:', v['key'], v['what'])
    return 1 if ctx.violations else 0
