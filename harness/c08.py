"""C08 — the advertised d is the true minimum distance.  Every family's check_c08 (exhaustive search on the
implementation's own matrices for sizes within budget, logical weights beyond) plus the basic codes."""
import itertools
import json

import numpy as np

from harness import lat_common


def basic_codes(ctx):
    from qecsim.models.basic import FiveQubitCode, SteaneCode
    from qecsim import paulitools as pt
    from harness.c07 import gf2_rank

    def check(code, stage):
        n, k, d = code.n_k_d
        S = code.stabilizers
        rS = gf2_rank(S)
        found = None
        for p in pt.ipauli(n, 1, d):
            b = pt.pauli_to_bsf(p)
            if pt.bsp(b, S.T).any():
                continue
            if gf2_rank(np.vstack([S, b])) > rS:       # not a product of stabilizers
                found = p
                break
        w = None if found is None else sum(1 for c in found if c != 'I')
        ctx.count(('basic-distance', repr(code), stage), True, 'basic-distance', {'code': repr(code), 'd': d, 'lightest_logical': found})
        if w != d:
            ctx.violation('basic-distance', 'advertised d is not the minimum weight of a non-trivial logical',
                          {'code': repr(code), 'd': d, 'lightest_logical': found, 'stage': stage})
        for L in code.logicals:
            if pt.bsf_wt(L) < d:
                ctx.violation('basic-logical-lighter', 'a supplied logical is lighter than d', {'code': repr(code), 'stage': stage})

    codes = (FiveQubitCode(), SteaneCode())
    for code in codes:
        check(code, 'fresh')
    # the caller's own scratch work with the public conversion functions on the same operator lists (results are the
    # caller's to overwrite) must not change what these and later code objects publish
    for code in codes:
        for mat in (code.stabilizers, code.logical_xs, code.logical_zs):
            paulis = pt.bsf_to_pauli(mat)
            for arg in (paulis, list(paulis), tuple(paulis), paulis[0]):
                a = pt.pauli_to_bsf(arg)
                a[...] = 0
                a[..., 0] = 1
            b = np.array(mat).copy()
            q = pt.bsf_to_pauli(b)
            b[...] = 1
            del q
    for code in codes + (FiveQubitCode(), SteaneCode()):
        check(code, 'after the caller overwrote its own pauli_to_bsf results for the same operator lists')


def low_weight_sweep(ctx):
    """Every size of every family in the C07 range: no non-trivial normalizer element of weight 1 (all sizes) or
    2 (n <= 120) when d exceeds that weight - a cheap necessary condition that reaches sizes far beyond the
    exhaustive search budget."""
    from qecsim.models.planar import PlanarCode
    from qecsim.models.toric import ToricCode
    from qecsim.models.rotatedplanar import RotatedPlanarCode
    from qecsim.models.rotatedtoric import RotatedToricCode
    from qecsim.models.color import Color666Code
    from harness.c07 import gf2_rank
    q = ctx.quick
    sizes = [(PlanarCode, (r, c)) for r in range(2, 11 if q else 17) for c in range(2, 11 if q else 17)]
    sizes += [(ToricCode, (r, c)) for r in range(2, 11 if q else 17) for c in range(2, 11 if q else 17)]
    sizes += [(RotatedPlanarCode, (r, c)) for r in range(3, 12 if q else 18) for c in range(3, 12 if q else 18)]
    sizes += [(RotatedToricCode, (r, c)) for r in range(2, 13 if q else 19, 2) for c in range(2, 13 if q else 19, 2)]
    sizes += [(Color666Code, (s,)) for s in range(3, 14 if q else 22, 2)]
    for cls, args in sizes:
        code = cls(*args)
        n, k, d = code.n_k_d
        S = np.array(code.stabilizers, dtype=np.uint8)
        Sx, Sz = S[:, :n].astype(np.int64), S[:, n:].astype(np.int64)
        rS = None
        singles = []
        for qb in range(n):
            for pl in (1, 2, 3):
                singles.append((qb, pl))
        cand = []
        if d > 1:
            E = np.zeros((len(singles), 2 * n), dtype=np.int64)
            for i, (qb, pl) in enumerate(singles):
                E[i, qb], E[i, n + qb] = pl & 1, pl >> 1
            syn = (E[:, n:] @ Sx.T + E[:, :n] @ Sz.T) % 2
            cand += [E[i] for i in np.flatnonzero(~syn.any(axis=1))]
            if d > 2 and n <= 120:
                # pairs: syndromes add
                ssyn = syn.astype(np.uint8)
                packed = np.packbits(ssyn, axis=1)
                index = {}
                for i in range(len(singles)):
                    index.setdefault(packed[i].tobytes(), []).append(i)
                for key_, lst in index.items():
                    for a in range(len(lst)):
                        for b in range(a + 1, len(lst)):
                            i, j = lst[a], lst[b]
                            if singles[i][0] != singles[j][0] and ssyn[i].any():
                                cand.append((E[i] + E[j]) % 2)
        ctx.count(('low-weight', cls.__name__, args), args[0] != args[-1] or d >= 3, 'low-weight-sweep',
                  {'code': repr(code), 'd': d, 'commuting_low_weight_operators': len(cand)} if len(ctx.samples) < 9 else None)
        for v in cand[:50]:
            if rS is None:
                rS = gf2_rank(S)
            if gf2_rank(np.vstack([S, v.astype(np.uint8)])) > rS:
                ctx.violation('low-weight-logical', 'a non-trivial logical operator lighter than the advertised d exists',
                              {'code': repr(code), 'n_k_d': [n, k, d], 'operator': ''.join('IXZY'[int(v[i]) + 2 * int(v[n + i])] for i in range(n))})
                break


def run(ctx):
    ctx.rule = ('per family: exhaustive CSS search (X-type and Z-type supports) over operators of weight < d on the '
                'implementation\'s matrices for every size within the tier budget incl. non-square; a weight-d '
                'non-trivial logical exists; supplied logicals not lighter than d over the full size range. '
                'nontrivial = size with rows != cols or d >= 3')
    lat_common.prepare(ctx)
    fams = lat_common.run_families(ctx, 'check_c08', translator_families=['planar', 'toric', 'rotplanar', 'rottoric', 'color'])
    basic_codes(ctx)
    low_weight_sweep(ctx)
    ctx.extra['families'] = fams + ['basic']


def replay(path):
    print(json.dumps(json.load(open(path)), indent=1, default=str))
    return 0
