"""C08 — the advertised d is the true minimum distance.  Every family's check_c08 (exhaustive search on the
implementation's own matrices for sizes within budget, logical weights beyond) plus the basic codes."""
import itertools
import json

import numpy as np

from harness import lat_common


def basic_codes(ctx):
    from qecsim.models.basic import FiveQubitCode, SteaneCode
    from qecsim import paulitools as pt
    from harness.c07 import gf2_rank
    for code in (FiveQubitCode(), SteaneCode()):
        n, k, d = code.n_k_d
        S = code.stabilizers
        rS = gf2_rank(S)
        found = None
        for p in pt.ipauli(n, 1, d):
            b = pt.pauli_to_bsf(p)
            if pt.bsp(b, S.T).any():
                continue
            if gf2_rank(np.vstack([S, b])) > rS:       # not a product of stabilizers
                found = p
                break
        w = None if found is None else sum(1 for c in found if c != 'I')
        ctx.count(('basic-distance', repr(code)), True, 'basic-distance', {'code': repr(code), 'd': d, 'lightest_logical': found})
        if w != d:
            ctx.violation('basic-distance', 'advertised d is not the minimum weight of a non-trivial logical',
                          {'code': repr(code), 'd': d, 'lightest_logical': found})
        for L in code.logicals:
            if pt.bsf_wt(L) < d:
                ctx.violation('basic-logical-lighter', 'a supplied logical is lighter than d', {'code': repr(code)})


def run(ctx):
    ctx.rule = ('per family: exhaustive CSS search (X-type and Z-type supports) over operators of weight < d on the '
                'implementation\'s matrices for every size within the tier budget incl. non-square; a weight-d '
                'non-trivial logical exists; supplied logicals not lighter than d over the full size range. '
                'nontrivial = size with rows != cols or d >= 3')
    lat_common.prepare(ctx)
    fams = lat_common.run_families(ctx, 'check_c08', translator_families=['planar', 'toric', 'rotplanar', 'rottoric', 'color'])
    basic_codes(ctx)
    ctx.extra['families'] = fams + ['basic']


def replay(path):
    print(json.dumps(json.load(open(path)), indent=1, default=str))
    return 0
