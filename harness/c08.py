"""C08 — the advertised d is the true minimum distance.  Every family's check_c08 (exhaustive search on the
implementation's own matrices for sizes within budget, logical weights beyond) plus the basic codes."""
import itertools
import json

import numpy as np

from harness import lat_common
from harness import c08_extra


def basic_codes(ctx):
    from qecsim.models.basic import FiveQubitCode, SteaneCode
    from qecsim import paulitools as pt
    from harness.c07 import gf2_rank

    def check(code, stage):
        n, k, d = code.n_k_d
        S = code.stabilizers
        rS = gf2_rank(S)
        found = None
        for p in pt.ipauli(n, 1, d):
            b = pt.pauli_to_bsf(p)
            if pt.bsp(b, S.T).any():
                continue
            if gf2_rank(np.vstack([S, b])) > rS:       # not a product of stabilizers
                found = p
                break
        w = None if found is None else sum(1 for c in found if c != 'I')
        ctx.count(('basic-distance', repr(code), stage), True, 'basic-distance', {'code': repr(code), 'd': d, 'lightest_logical': found})
        if w != d:
            ctx.violation('basic-distance', 'advertised d is not the minimum weight of a non-trivial logical',
                          {'code': repr(code), 'd': d, 'lightest_logical': found, 'stage': stage})
        for L in code.logicals:
            if pt.bsf_wt(L) < d:
                ctx.violation('basic-logical-lighter', 'a supplied logical is lighter than d', {'code': repr(code), 'stage': stage})

    codes = (FiveQubitCode(), SteaneCode())
    for code in codes:
        check(code, 'fresh')
    # the caller's own scratch work with the public conversion functions on the same operator lists (results are the
    # caller's to overwrite) must not change what these and later code objects publish
    for code in codes:
        for mat in (code.stabilizers, code.logical_xs, code.logical_zs):
            paulis = pt.bsf_to_pauli(mat)
            for arg in (paulis, list(paulis), tuple(paulis), paulis[0]):
                a = pt.pauli_to_bsf(arg)
                a[...] = 0
                a[..., 0] = 1
            b = np.array(mat).copy()
            q = pt.bsf_to_pauli(b)
            b[...] = 1
            del q
    for code in codes + (FiveQubitCode(), SteaneCode()):
        check(code, 'after the caller overwrote its own pauli_to_bsf results for the same operator lists')


def low_weight_logical(n, d, S, gf2_rank=None):
    """A non-trivial normalizer element of weight 1 (any n) or 2 (n <= 120) lighter than d for the stabilizer matrix S,
    as a Pauli string, or None; also the number of commuting low-weight operators looked at."""
    if gf2_rank is None:
        gf2_rank = lat_common.rank_gf2
    S = np.array(S, dtype=np.uint8)
    Sx, Sz = S[:, :n].astype(np.int64), S[:, n:].astype(np.int64)
    singles = [(qb, pl) for qb in range(n) for pl in (1, 2, 3)]
    cand = []
    if d > 1:
        E = np.zeros((len(singles), 2 * n), dtype=np.int64)
        for i, (qb, pl) in enumerate(singles):
            E[i, qb], E[i, n + qb] = pl & 1, pl >> 1
        syn = (E[:, n:] @ Sx.T + E[:, :n] @ Sz.T) % 2
        cand += [E[i] for i in np.flatnonzero(~syn.any(axis=1))]
        if d > 2 and n <= 120:
            # pairs: syndromes add
            ssyn = syn.astype(np.uint8)
            packed = np.packbits(ssyn, axis=1)
            index = {}
            for i in range(len(singles)):
                index.setdefault(packed[i].tobytes(), []).append(i)
            for key_, lst in index.items():
                for a in range(len(lst)):
                    for b in range(a + 1, len(lst)):
                        i, j = lst[a], lst[b]
                        if singles[i][0] != singles[j][0] and ssyn[i].any():
                            cand.append((E[i] + E[j]) % 2)
    rS = None
    for v in cand[:50]:
        if rS is None:
            rS = gf2_rank(S)
        if gf2_rank(np.vstack([S, v.astype(np.uint8)])) > rS:
            return ''.join('IXZY'[int(v[i]) + 2 * int(v[n + i])] for i in range(n)), len(cand)
    return None, len(cand)


def low_weight_sweep(ctx):
    """Every size of every family in the C07 range: no non-trivial normalizer element of weight 1 (all sizes) or
    2 (n <= 120) when d exceeds that weight - a cheap necessary condition that reaches sizes far beyond the
    exhaustive search budget."""
    for cls, args in lat_common.family_sizes(ctx):
        rep = {'family': lat_common.FAMILY_OF[cls.__name__], 'size': list(args)}
        try:
            code = cls(*args)
            n, k, d = code.n_k_d
            S = code.stabilizers
        except Exception as e:  # noqa
            ctx.violation('matrices-raise', 'stabilizers / n_k_d of a code of an accepted size raise %s' % type(e).__name__,
                          dict(rep, attribute='stabilizers / n_k_d', exception=repr(e)[:200]))
            continue
        op, ncand = low_weight_logical(n, d, S)
        ctx.count(('low-weight', cls.__name__, args), args[0] != args[-1] or d >= 3, 'low-weight-sweep',
                  {'code': repr(code), 'd': d, 'commuting_low_weight_operators': ncand} if len(ctx.samples) < 9 else None)
        if op is not None:
            ctx.violation('low-weight-logical', 'a non-trivial logical operator lighter than the advertised d exists',
                          {'code': repr(code), 'n_k_d': [n, k, d], 'operator': op})


WHEN = {'optimised-mode': 'in optimised mode', 'logging-config': 'under that logging configuration'}


def history_sweep(ctx, stage):
    """callback for the history / interpreter-mode / logging-configuration passes of lat_common: the low-weight sweep on the
    stabilizers a code object publishes after that history / under that configuration, where they differ from the usual ones"""
    def on_difference(rep, nkd, S):
        n, k, d = (int(v) for v in nkd)
        op, ncand = low_weight_logical(n, d, S)
        ctx.count(('low-weight', stage, repr(rep)), True, 'low-weight-sweep/' + stage)
        if op is not None:
            ctx.violation(stage + '-low-weight-logical', 'the stabilizers published %s admit a non-trivial logical operator '
                          'lighter than the advertised d' % WHEN.get(stage, stage.replace('-', ' ')), dict(rep, n_k_d=[n, k, d], operator=op))
    return on_difference


def run(ctx):
    ctx.rule = ('per family: exhaustive CSS search (X-type and Z-type supports) over operators of weight < d on the '
                'implementation\'s matrices for every size within the tier budget incl. non-square; a weight-d '
                'non-trivial logical exists; supplied logicals not lighter than d over the full size range; long thin and '
                'large lattices with a side at / beyond 32, 64, 128 (256): n_k_d = model formula, supplied logicals of weight '
                '>= d (lightest == d) in the normalizer, paired, non-trivial, equal to the model rows, no weight-1/2 logical. '
                'nontrivial = size with rows != cols or d >= 3')
    lat_common.prepare(ctx)
    lat_common.stage(ctx, 'interrupted_evaluations', lat_common.interrupted_evaluations,
                     on_difference=history_sweep(ctx, 'after-interrupt'))
    lat_common.stage(ctx, 'cold_queries', lat_common.cold_queries, on_difference=history_sweep(ctx, 'cold-history'))
    fams = lat_common.run_families(ctx, 'check_c08', translator_families=['planar', 'toric', 'rotplanar', 'rottoric', 'color'])
    lat_common.stage(ctx, 'basic_codes', basic_codes)
    lat_common.stage(ctx, 'low_weight_sweep', low_weight_sweep)
    lat_common.stage(ctx, 'large_sizes', c08_extra.large_sizes)
    lat_common.stage(ctx, 'optimised_mode', lat_common.optimised_mode, on_difference=history_sweep(ctx, 'optimised-mode'),
                     include_logging=False)
    lat_common.stage(ctx, 'logging_configurations', lat_common.logging_configurations,
                     on_difference=history_sweep(ctx, 'logging-config'))
    lat_common.stage(ctx, 'final_recheck', lat_common.final_recheck)
    ctx.extra['families'] = fams + ['basic']


def replay(path):
    print(json.dumps(json.load(open(path)), indent=1, default=str))
    return 0
