"""C17, second part: statistics that need a HISTORY of calls or the JOINT behaviour of several outputs.

history_sweeps      several instances of one parameterised error-model class (different bias / axis / limits) used
                    at the same probability in one process, then interleaved in reverse order, and one instance used
                    at several probabilities; every instance's letters are tested against ITS OWN stated
                    distribution (zero-probability letters never, frequencies within 6 sigma); a caller overwriting
                    a returned error must not influence later errors.
joint_statistics    many fault-tolerant runs through a recording DecoderFTP; the property says every syndrome bit of
                    every step is flipped independently, and the qubits of every step error are independent draws:
                    so every pair of DIFFERENT output bits of a run (qubit i of step s hit / its X part / its Z part,
                    syndrome bit j of step t flipped), and every pair taken from consecutive runs of one generator,
                    must be independent.  For every such pair the 2x2 contingency table over the runs is tested
                    exactly (given the margins the joint count is hypergeometric), Bonferroni-corrected over all the
                    pairs of the configuration with family error rate 1e-9 (per-pair |z| of about 8).  Weak but
                    systematic dependence is looked for in pooled form: joint counts summed over all pairs with the
                    same (step lag, index offset), and the correlation of step-error weights with step flip counts.

The expected values are the property itself (independence, the stated distribution); nothing is taken from a reference
implementation.  All generator seeds derive from ctx.seed / ctx.rng, so a run is deterministic."""
import math

import numpy as np

LET = 'IXYZ'
ALPHA = 1e-9          # family-wise error rate of one configuration's joint tests
Z_MIN = 7.0           # no normal-approximation test alarms below this


# ---------------------------------------------------------------------------------------------- history sweeps

def history_sweeps(ctx, classes, StubCode, viol, stats):
    """classes: list of (name, factory(rng) -> instance, fixed list of instances, p-domain function)"""
    rng = ctx.rng
    n = 400
    code = StubCode(n)
    calls = ctx.pick(50, 120)

    def letters(e):
        e = np.asarray(e)
        return np.array([0, 1, 3, 2])[e[:n] + 2 * e[n:]]          # index in IXYZ

    def dist_of(m, p):
        try:
            d = [float(v) for v in m.probability_distribution(p)]
        except Exception:  # noqa (C16's business)
            return None
        if len(d) != 4 or any(not (v >= 0) for v in d) or abs(sum(d) - 1) > 1e-9:
            return None
        return d

    def judge(tag, m, p, cnt, hist):
        d = dist_of(m, p)
        N = int(cnt.sum())
        worst = 0.0
        for k in range(4):
            if d[k] == 0 and cnt[k]:
                viol('history-zero-probability-letter',
                     'after the listed history of calls a Pauli of probability 0 (%s) was generated %d times in %d draws'
                     % (LET[k], int(cnt[k]), N), dict(hist, model=repr(m), p=p, letter=LET[k], counts=cnt.tolist(), dist=d))
                worst = float('inf')
                continue
            sd = math.sqrt(N * d[k] * (1 - d[k]))
            if sd > 0:
                z = abs(cnt[k] - N * d[k]) / sd
                if worst != float('inf'):
                    worst = max(worst, z)
                if z > 6:
                    viol('history-frequency',
                         'after the listed history of calls the frequency of %s is %.1f sigma from the stated distribution of this instance'
                         % (LET[k], z), dict(hist, model=repr(m), p=p, letter=LET[k], counts=cnt.tolist(), dist=d,
                                              expected=N * d[k]))
            elif cnt[k] != N * d[k]:
                viol('history-frequency', 'letter %s of probability 1 was not always generated' % LET[k],
                     dict(hist, model=repr(m), p=p, letter=LET[k], counts=cnt.tolist(), dist=d))
        return worst

    sweep_id = 0
    for name, factory, fixed, p_dom in classes:
        for rep_i in range(ctx.pick(2, 5)):
            sweep_id += 1
            # ---- several instances, one probability
            insts = list(fixed) if rep_i == 0 else []
            while len(insts) < 5:
                insts.append(factory(rng))
            rng.shuffle(insts)
            p = p_dom(rng) if rep_i else rng.choice([0.2, 0.1, 0.5])
            insts = [m for m in insts if dist_of(m, p) is not None]
            if len(insts) < 2:
                continue
            seed = 7000 * (ctx.seed + 1) + sweep_id
            g = np.random.default_rng(seed)
            hist = {'history': 'instances of one class used at the same probability in this order, %d calls each on n=%d, '
                               'then again in reverse order, one generator' % (calls, n),
                    'instances': [repr(m) for m in insts], 'seed': seed, 'kind': 'history'}
            cnts = [np.zeros(4, dtype=np.int64) for _ in insts]
            for order in (range(len(insts)), reversed(range(len(insts)))):
                for i in order:
                    for _ in range(calls):
                        cnts[i] += np.bincount(letters(insts[i].generate(code, p, g)), minlength=4)
            worst = 0.0
            for i, m in enumerate(insts):
                worst = max(worst, judge('instances', m, p, cnts[i], hist))
                ctx.count(('history', repr(m), p), True, 'history:instances-at-one-p')
            stats.append({'history': name + ' instances at p=%r' % p, 'instances': len(insts),
                          'draws_each': int(cnts[0].sum()), 'worst_sigma': round(min(worst, 1e9), 2)})
            # ---- one instance, several probabilities, interleaved call by call
            m = insts[0]
            ps = [q for q in {p_dom(rng), p_dom(rng), p, 0.3} if dist_of(m, q) is not None]
            seed2 = seed + 500
            g = np.random.default_rng(seed2)
            hist = {'history': 'one instance used at several probabilities, interleaved call by call (%d rounds, n=%d)'
                               % (2 * calls, n), 'model': repr(m), 'probabilities': ps, 'seed': seed2, 'kind': 'history'}
            cnts = [np.zeros(4, dtype=np.int64) for _ in ps]
            for _ in range(2 * calls):
                for i, q in enumerate(ps):
                    cnts[i] += np.bincount(letters(m.generate(code, q, g)), minlength=4)
            for i, q in enumerate(ps):
                judge('probabilities', m, q, cnts[i], hist)
                ctx.count(('history-p', repr(m), q), True, 'history:one-instance-many-p')
            # ---- the caller overwrites a returned error: later errors are unaffected
            s3 = rng.randrange(2 ** 32)
            small = StubCode(33)
            e1 = np.array(m.generate(small, p, np.random.default_rng(s3)))
            r = m.generate(small, p, np.random.default_rng(s3))
            try:
                r[...] = 1 - np.asarray(r)
                mutated = True
            except Exception:  # noqa  (a read-only result cannot be disturbed)
                mutated = False
            e2 = np.array(m.generate(small, p, np.random.default_rng(s3)))
            ctx.count(None, False, 'history:caller-mutates-result')
            if mutated and not np.array_equal(e1, e2):
                viol('history-aliasing', 'overwriting a returned error changed the error generated later from the same generator state',
                     {'model': repr(m), 'p': p, 'n': 33, 'seed': s3, 'kind': 'history'})


# ---------------------------------------------------------------------------------------------- joint statistics

def _hyper_z(c11, a, b, R):
    """z-score of the joint count given the margins (hypergeometric mean and variance); nan where a margin is
    degenerate"""
    a = a.astype(float)[:, None]
    b = b.astype(float)[None, :]
    mean = a * b / R
    var = a * b * (R - a) * (R - b) / (R * R * (R - 1.0))
    with np.errstate(divide='ignore', invalid='ignore'):
        z = np.where(var > 0, (c11 - mean) / np.sqrt(var), np.nan)
    return z, mean, var


def _exact_p(c11, a, b, R):
    from scipy.stats import hypergeom
    up = hypergeom.sf(c11 - 1, R, a, b)
    lo = hypergeom.cdf(c11, R, a, b)
    return np.minimum(1.0, 2 * np.minimum(up, lo))


def collect_runs(app, ScriptedDecoder, cfg):
    """run the configuration; returns (hit, xb, zb, fl) as arrays [R, T, n] / [R, T, m] or a string on failure"""
    code, model, p, q, T, api, R, seed = (cfg[k] for k in ('code', 'model', 'p', 'q', 'T', 'api', 'runs', 'seed'))
    n = code.n_k_d[0]
    dec = ScriptedDecoder([np.zeros(2 * n, dtype=int)])
    if api == 'run_ftp':
        app.run_ftp(code, T, model, dec, p, q, max_runs=R, random_seed=seed)
    else:
        g = np.random.default_rng(seed)
        for _ in range(R):
            app.run_once_ftp(code, T, model, dec, p, q, g)
    if len(dec.calls) != R:
        return 'decode_ftp called %d times for %d runs' % (len(dec.calls), R)
    try:
        E = np.array([[np.asarray(e) for e in c['kwargs']['step_errors']] for c in dec.calls])
        Fl = np.array([[np.asarray(f) for f in c['kwargs']['step_measurement_errors']] for c in dec.calls])
    except Exception as ex:  # noqa
        return 'step_errors / step_measurement_errors not rectangular: %s' % ex
    m = code.stabilizers.shape[0]
    if E.shape != (R, T, 2 * n) or Fl.shape != (R, T, m):
        return 'context shapes %s %s' % (E.shape, Fl.shape)
    if not (np.isin(E, (0, 1)).all() and np.isin(Fl, (0, 1)).all()):
        return 'context not binary'
    xb, zb = E[:, :, :n].astype(np.int64), E[:, :, n:].astype(np.int64)
    return xb | zb, xb, zb, Fl.astype(np.int64)


def joint_tests(cfg_rep, hit, xb, zb, fl, viol):
    """all the tests of one configuration; returns a summary dict"""
    from scipy.stats import norm
    R, T, n = hit.shape
    m = fl.shape[2]
    fam_err = {'hit': hit.reshape(R, T * n), 'x': xb.reshape(R, T * n), 'z': zb.reshape(R, T * n)}
    B = fl.reshape(R, T * m)

    def lab_err(ind, k):
        return {'what': {'hit': 'qubit carries an error', 'x': 'X part of qubit set', 'z': 'Z part of qubit set'}[ind],
                'step': int(k // n), 'qubit': int(k % n)}

    def lab_fl(k):
        return {'what': 'syndrome bit flipped', 'step': int(k // m), 'bit': int(k % m)}

    # (key, description, left matrix, left label fn, right matrix, right label fn, lag, mask kind, shapes for pooling)
    fams = []
    for ind in ('hit', 'x', 'z'):
        A = fam_err[ind]
        fams.append(('flip-error-dependence', ind + ' x flip, same run', A, lambda k, i=ind: lab_err(i, k), B, lab_fl, 0, 'all', (n, m)))
        fams.append(('flip-error-dependence', ind + ' x flip of the next run', A, lambda k, i=ind: lab_err(i, k), B, lab_fl, 1, 'all', (n, m)))
        fams.append(('flip-error-dependence', 'flip x ' + ind + ' of the next run', B, lab_fl, A, lambda k, i=ind: lab_err(i, k), 1, 'all', (m, n)))
        fams.append(('error-error-dependence', ind + ' x ' + ind + ', same run', A, lambda k, i=ind: lab_err(i, k), A,
                     lambda k, i=ind: lab_err(i, k), 0, 'upper', (n, n)))
    fams.append(('error-error-dependence', 'x x z of different qubits, same run', fam_err['x'], lambda k: lab_err('x', k),
                 fam_err['z'], lambda k: lab_err('z', k), 0, 'offdiag', (n, n)))
    fams.append(('error-error-dependence', 'hit x hit of the next run', fam_err['hit'], lambda k: lab_err('hit', k),
                 fam_err['hit'], lambda k: lab_err('hit', k), 1, 'offdiag', (n, n)))
    fams.append(('flip-flip-dependence', 'flip x flip, same run', B, lab_fl, B, lab_fl, 0, 'upper', (m, m)))
    fams.append(('flip-flip-dependence', 'flip x flip of the next run', B, lab_fl, B, lab_fl, 1, 'offdiag', (m, m)))

    results = []          # per family: (fam, z, c11, a, b, Rr, valid)
    ntests = 0
    npooled = 0
    pooled = []           # (fam, dt, off, z, obs, exp)
    pool_max = 0.0
    for fam in fams:
        key, desc, L, labL, Rm, labR, lag, mask, (wl, wr) = fam
        Lm, Rr_ = (L[:-lag], Rm[lag:]) if lag else (L, Rm)
        Rr = Lm.shape[0]
        c11 = (Lm.T @ Rr_).astype(float)
        a, b = Lm.sum(axis=0), Rr_.sum(axis=0)
        z, mean, var = _hyper_z(c11, a, b, Rr)
        valid = ~np.isnan(z)
        if mask == 'upper':
            valid &= np.triu(np.ones_like(valid, dtype=bool), 1)
        elif mask == 'offdiag':
            valid &= ~np.eye(valid.shape[0], dtype=bool)
        ntests += int(valid.sum())
        results.append((fam, z, c11, a, b, Rr, valid))
        # pooled over all pairs with the same (step lag, index offset)
        off = (np.arange(wr)[None, :] - np.arange(wl)[:, None] + wl - 1).ravel()
        acc = {}
        for s in range(T):
            for t in range(T):
                sl = (slice(s * wl, (s + 1) * wl), slice(t * wr, (t + 1) * wr))
                v = valid[sl].ravel()
                if not v.any():
                    continue
                o, e_, w_ = acc.setdefault(t - s, [np.zeros(wl + wr - 1) for _ in range(3)])
                o += np.bincount(off[v], weights=c11[sl].ravel()[v], minlength=wl + wr - 1)
                e_ += np.bincount(off[v], weights=mean[sl].ravel()[v], minlength=wl + wr - 1)
                w_ += np.bincount(off[v], weights=var[sl].ravel()[v], minlength=wl + wr - 1)
        for dt, (o, e_, w_) in acc.items():
            ok = w_ >= 25.0           # enough expected joint events for the normal approximation of a sum
            npooled += int(ok.sum())
            with np.errstate(divide='ignore', invalid='ignore'):
                zz = np.where(ok, (o - e_) / np.sqrt(np.where(ok, w_, 1.0)), 0.0)
            pool_max = max(pool_max, float(np.abs(zz).max()))
            for i in np.nonzero(np.abs(zz) > Z_MIN)[0]:
                pooled.append((fam, dt, int(i) - (wl - 1), float(zz[i]), float(o[i]), float(e_[i])))
    # step-error weight against step flip count (and the lagged versions): Pearson r * sqrt(R - 1)
    W = hit.sum(axis=2).astype(float)
    Nf = fl.sum(axis=2).astype(float)
    wts = []
    for lag, (Lm, Rm, nm) in ((0, (W, Nf, 'weight of step error s x number of flips of step t, same run')),
                              (1, (W, Nf, 'weight of step error s x number of flips of step t of the next run')),
                              (1, (Nf, W, 'number of flips of step s x weight of step error t of the next run'))):
        Lx, Rx = (Lm[:-lag], Rm[lag:]) if lag else (Lm, Rm)
        Rr = Lx.shape[0]
        Lc, Rc = Lx - Lx.mean(axis=0), Rx - Rx.mean(axis=0)
        sl_, sr_ = np.sqrt((Lc ** 2).sum(axis=0)), np.sqrt((Rc ** 2).sum(axis=0))
        with np.errstate(divide='ignore', invalid='ignore'):
            r = (Lc.T @ Rc) / (sl_[:, None] * sr_[None, :])
        zz = np.where(np.isfinite(r), r * math.sqrt(Rr - 1), 0.0)
        npooled += int(np.isfinite(r).sum())
        wts.append((nm, zz, r))
    z_thr = max(Z_MIN, float(norm.isf(ALPHA / (2.0 * max(1, npooled)))))

    worst_adj = 1.0
    worst_z = pool_max
    worst_pair_z = 0.0
    # ---- exact per-pair tests
    for fam, z, c11, a, b, Rr, valid in results:
        key, desc, L, labL, Rm, labR, lag, mask, _ = fam
        zv = np.where(valid, np.abs(z), 0.0)
        worst_pair_z = max(worst_pair_z, float(zv.max()) if zv.size else 0.0)
        cand = np.argwhere(zv > 5.0)
        if not len(cand):
            continue
        ks, ls = cand[:, 0], cand[:, 1]
        pv = _exact_p(c11[ks, ls].astype(np.int64), a[ks].astype(np.int64), b[ls].astype(np.int64), Rr)
        adj = np.minimum(1.0, pv * ntests)
        worst_adj = min(worst_adj, float(adj.min()))
        bad = np.nonzero(adj < ALPHA)[0]
        bad = bad[np.argsort(adj[bad])]
        for i in bad[:3]:
            k, l = int(ks[i]), int(ls[i])
            c = int(c11[k, l])
            table = {'both': c, 'left_only': int(a[k]) - c, 'right_only': int(b[l]) - c,
                     'neither': Rr - int(a[k]) - int(b[l]) + c, 'expected_both': float(a[k]) * float(b[l]) / Rr}
            viol(key, 'two outputs that the property makes independent are dependent over %d runs (%s): joint count %d against '
                      '%.1f expected from the margins, z = %+.1f, exact two-sided p = %.3g, Bonferroni over %d pairs %.3g; %d pairs '
                      'of this family are beyond the limit'
                 % (Rr, desc, c, table['expected_both'], float(z[k, l]), float(pv[i]), ntests, float(adj[i]), len(bad)),
                 dict(cfg_rep, family=desc, left=labL(k), right=labR(l), run_lag=lag, table=table, z=float(z[k, l]),
                      p_exact=float(pv[i]), pairs_tested=ntests, p_bonferroni=float(adj[i])))
    # ---- pooled tests
    pooled.sort(key=lambda t: -abs(t[3]))
    nrep = 0
    for fam, dt, off, zz, o, e_ in pooled:
        worst_z = max(worst_z, abs(zz))
        if abs(zz) > z_thr and nrep < 3:
            nrep += 1
            viol(fam[0], 'joint counts pooled over all pairs at step lag %+d and index offset %+d (%s) are %+.1f sigma from '
                         'independence: %d against %.1f (limit %.1f sigma for %d pooled tests)' % (dt, off, fam[1], zz, o, e_, z_thr, npooled),
                 dict(cfg_rep, family=fam[1], pooled={'step_lag': dt, 'index_offset': off}, run_lag=fam[6], observed=o, expected=e_,
                      z=zz, z_limit=z_thr))
    for nm, zz, r in wts:
        worst_z = max(worst_z, float(np.abs(zz).max()))
        for s, t in np.argwhere(np.abs(zz) > z_thr)[:2]:
            viol('flip-error-dependence', '%s: correlation %+.4f at s=%d, t=%d is %+.1f sigma from 0 (limit %.1f)'
                 % (nm, float(r[s, t]), s, t, float(zz[s, t]), z_thr),
                 dict(cfg_rep, family=nm, steps=[int(s), int(t)], correlation=float(r[s, t]), z=float(zz[s, t]), z_limit=z_thr))
    return {'pairs_tested': ntests, 'pooled_tests': npooled, 'min_bonferroni_p': worst_adj, 'worst_pair_z': round(worst_pair_z, 2),
            'worst_pooled_z': round(worst_z, 2),
            'z_limit_pooled': round(z_thr, 2)}


def joint_statistics(ctx, app, ScriptedDecoder, configs, viol, stats):
    for ci, cfg in enumerate(configs):
        cfg = dict(cfg, seed=9000 * (ctx.seed + 1) + ci)
        code, model = cfg['code'], cfg['model']
        rep = {'code': repr(code), 'model': repr(model), 'p': cfg['p'], 'q': cfg['q'], 'T': cfg['T'], 'api': cfg['api'],
               'runs': cfg['runs'], 'seed': cfg['seed'], 'kind': 'joint'}
        try:
            got = collect_runs(app, ScriptedDecoder, cfg)
        except Exception as ex:  # noqa
            viol('ftp-raises', 'fault-tolerant run raised %s: %s' % (type(ex).__name__, ex), rep)
            continue
        if isinstance(got, str):
            viol('ftp-context', got, rep)
            continue
        summary = joint_tests(rep, *got, viol)
        stats.append(dict({'joint': True, 'code': repr(code), 'model': repr(model), 'p': cfg['p'], 'q': cfg['q'], 'T': cfg['T'],
                           'api': cfg['api'], 'runs': cfg['runs']}, **summary))
        ctx.count(('joint', repr(code), repr(model), cfg['p'], cfg['q'], cfg['T'], cfg['api']), True, 'statistical:joint', n=1)
