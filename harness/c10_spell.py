"""C10, documented equivalent spellings of 'unset' parameters.

The property quantifies over decoders "with chi unset" (and no skip-truncate / tolerance).  Every tensor-network decoder
documents MORE THAN ONE way of leaving a parameter unset:

    chi: "default=None, unrestricted=falsy", type "int or None", CLI "[chi] INT >=0"   ->  omitted, None, 0
    stp: "default=None, disabled=falsy",     type "float or None"                      ->  omitted, None, 0, 0.0
    tol: "default=None, unrestricted=falsy", type "float or None"                      ->  omitted, None, 0, 0.0
    mode: default 'c'                                                                  ->  omitted or given

and a parameter can be given positionally, by keyword, or through the command line's constructor strings
(`planar.mps(0,'a')`, parsed by qecsim.cli._ConstructorParamType; there chi=0 is the ONLY way to reach mode r / a with
exact contraction, since arguments are positional).  All of them denote the same decoder of the property: coset
probabilities must be the exact coset sums and decode must return a recovery of a most likely coset.

This module enumerates the spellings (value product x call style), constructs the decoders, and checks each against the
exact oracle of harness/c10.py (GroupOracle, integer arithmetic; tied to Tensor/Coset.coset_prob by the engine).  Nothing
is compared with another run of the implementation.  A `SpellCycle` hands out the spellings round-robin, so that loops which
construct a decoder anyway (c10 decode calls, c10_net contractions compared with the Gallina network) use all of them at
no extra cost and without drawing from ctx.rng."""
import itertools
import warnings
from fractions import Fraction

import numpy as np

from harness.common import bitstr, exc_class

OMIT = '<omitted>'

# class name -> (command-line name in setup.cfg [qecsim.cli.run.decoders], constructor parameters in order)
SCHEMAS = {
    'PlanarMPSDecoder': ('planar.mps', ('chi', 'mode', 'stp', 'tol')),
    'PlanarRMPSDecoder': ('planar.rmps', ('chi', 'mode', 'stp', 'tol')),
    'RotatedPlanarMPSDecoder': ('rotated_planar.mps', ('chi', 'mode', 'tol')),
    'RotatedPlanarRMPSDecoder': ('rotated_planar.rmps', ('chi', 'mode', 'tol')),
    'Color666MPSDecoder': ('color666.mps', ('chi', 'tol')),
}
# documented spellings of "unset" (see the constructors' docstrings quoted above)
UNSET = {'chi': [OMIT, None, 0], 'stp': [OMIT, None, 0, 0.0], 'tol': [OMIT, None, 0, 0.0]}
MODES = [OMIT, 'c', 'r', 'a']
DEFAULT = {'chi': None, 'mode': 'c', 'stp': None, 'tol': None}
STYLES = ('keyword', 'positional', 'cli', 'mixed')


class Spelling:
    def __init__(self, cls_name, values, style):
        self.cls_name, self.values, self.style = cls_name, dict(values), style
        cli_name, params = SCHEMAS[cls_name]
        vals = [self.values[p] for p in params]
        given = [i for i, v in enumerate(vals) if v is not OMIT]
        self.cli = None
        if style == 'keyword':
            self.args, self.kwargs = (), {params[i]: vals[i] for i in given}
        elif style == 'mixed':    # leading given parameters positionally, the rest by keyword
            k = 0
            while k < len(vals) and vals[k] is not OMIT:
                k += 1
            self.args, self.kwargs = tuple(vals[:k]), {params[i]: vals[i] for i in given if i >= k}
        else:                     # positional / cli: a gap before a given parameter is filled with the documented default
            last = max(given, default=-1)
            self.args = tuple(DEFAULT[p] if v is OMIT else v for p, v in zip(params[:last + 1], vals[:last + 1]))
            self.kwargs = {}
            if style == 'cli':
                self.cli = cli_name + ('(%s)' % ','.join(repr(a) for a in self.args) if self.args else '')
        self.mode = 'c' if self.values.get('mode', OMIT) is OMIT else self.values['mode']

    @property
    def text(self):
        if self.cli is not None:
            return 'qecsim run ... "%s"' % self.cli
        return '%s(%s)' % (self.cls_name, ', '.join([repr(a) for a in self.args] + ['%s=%r' % kv for kv in self.kwargs.items()]))

    def record(self):
        return {'cls': self.cls_name, 'style': self.style, 'args': list(self.args), 'kwargs': dict(self.kwargs),
                'cli': self.cli, 'text': self.text}


def spellings(cls_name, styles=STYLES, modes=None):
    """every spelling: product of the documented unset values (and the modes) x call styles"""
    _cli_name, params = SCHEMAS[cls_name]
    doms = [(MODES if modes is None else list(modes)) if p == 'mode' else UNSET[p] for p in params]
    out = []
    for vals in itertools.product(*doms):
        for st in styles:
            out.append(Spelling(cls_name, dict(zip(params, vals)), st))
    return out


def decoder_classes():
    from qecsim.models.planar import PlanarMPSDecoder, PlanarRMPSDecoder
    from qecsim.models.rotatedplanar import RotatedPlanarMPSDecoder, RotatedPlanarRMPSDecoder
    from qecsim.models.color import Color666MPSDecoder
    return {c.__name__: c for c in (PlanarMPSDecoder, PlanarRMPSDecoder, RotatedPlanarMPSDecoder, RotatedPlanarRMPSDecoder,
                                    Color666MPSDecoder)}


def cli_decoder_type(classes):
    """the click parameter type of the DECODER argument of `qecsim run` (the real command-line constructor parser with the
    real entry-point names), or (None, reason)"""
    try:
        with warnings.catch_warnings():
            warnings.simplefilter('ignore')
            from qecsim import cli
        for p in cli.run.params:
            if p.name == 'decoder':
                cons = getattr(p.type, '_constructors', {})
                for cname, (cli_name, _params) in SCHEMAS.items():
                    if cons.get(cli_name) is not classes[cname]:
                        # entry points not installed for this tree: same parser over the documented names
                        return cli._ConstructorParamType({SCHEMAS[c][0]: classes[c] for c in SCHEMAS}), 'own constructor map'
                return p.type, 'qecsim run DECODER argument'
        return cli._ConstructorParamType({SCHEMAS[c][0]: classes[c] for c in SCHEMAS}), 'own constructor map'
    except Exception as e:  # noqa
        return None, 'unavailable: ' + exc_class(e)


class Builder:
    def __init__(self, ctx=None):
        self.classes = decoder_classes()
        self.cli_type, self.cli_source = cli_decoder_type(self.classes)
        self.styles = tuple(s for s in STYLES if s != 'cli' or self.cli_type is not None)
        if ctx is not None:
            ctx.extra['cli_constructor'] = self.cli_source

    def construct(self, rec):
        """decoder from a Spelling.record() (also used by replay)"""
        if rec.get('cli') is not None:
            if self.cli_type is None:
                raise RuntimeError('command-line constructor parser not available')
            return self.cli_type.convert(rec['cli'], None, None)
        return self.classes[rec['cls']](*rec['args'], **rec['kwargs'])


class SpellCycle:
    """round-robin over all spellings of a class with a requested mode (deterministic, no randomness)"""

    def __init__(self, builder):
        self.b = builder
        self.lists, self.pos = {}, {}

    def next(self, cls_name, mode='c'):
        key = (cls_name, mode)
        if key not in self.lists:
            has_mode = 'mode' in SCHEMAS[cls_name][1]
            modes = ([OMIT, 'c'] if mode == 'c' else [mode]) if has_mode else None
            sp = spellings(cls_name, self.b.styles, modes)
            # consecutive calls differ in chi (three groups interleaved); inside a group a stride coprime to its length
            # walks through styles, modes and the other parameters
            groups = []
            for chi in UNSET['chi']:
                g = [s for s in sp if repr(s.values['chi']) == repr(chi)]
                stride = next(s for s in (7, 11, 13, 17, 5, 3, 1) if len(g) % s)
                groups.append([g[(i * stride) % len(g)] for i in range(len(g))])
            self.lists[key] = [s for tup in zip(*groups) for s in tup]
            self.pos[key] = 0
        sp = self.lists[key][self.pos[key] % len(self.lists[key])]
        self.pos[key] += 1
        return sp


# ---------------------------------------------------------------------------------------------------------------
def check_spelling(ctx, c10m, pt, builder, code, oracle, sampler, sp, syn, dist, add=None, tie_engine=False):
    """one spelling on one (syndrome, distribution): constructor accepts it, the four coset probabilities are the exact
    coset sums, decode returns a recovery of a most likely coset.  Returns False when a violation was reported."""
    n = code.n_k_d[0]
    S = code.stabilizers
    LX, LZ = code.logical_xs[0], code.logical_zs[0]
    rec = sp.record()
    rep0 = {'code': repr(code), 'syndrome': bitstr(syn), 'dist': [float(p).hex() for p in dist], 'construct': rec}
    try:
        dec = builder.construct(rec)
    except Exception as e:  # noqa
        ctx.violation('unset-spelling-constructor', 'a documented spelling of unset parameters is rejected: %s raised %s'
                      % (sp.text, exc_class(e)), rep0)
        return False
    if type(dec) is not builder.classes[sp.cls_name]:
        ctx.violation('unset-spelling-constructor', '%s does not construct a %s' % (sp.text, sp.cls_name), rep0)
        return False
    f_pauli = sampler.sample_recovery(code, syn)
    f = f_pauli.to_bsf()
    if not np.array_equal(pt.bsp(f, S.T), syn):
        ctx.violation('sample-recovery', 'sample recovery does not reproduce the syndrome', rep0)
        return False
    cands = [f, f ^ LX, f ^ LX ^ LZ, f ^ LZ]
    a, D = c10m.dist_ints(dist)
    exact_int = [oracle.coset_int(c, a) for c in cands]
    Dn = Fraction(D) ** n
    exact = [Fraction(v) / Dn for v in exact_int]
    rep = dict(rep0, decoder=repr(dec), sample=bitstr(f), exact=[str(float(e)) for e in exact])
    ctx.count(('spelling', repr(code), sp.text, bitstr(syn), tuple(dist)), bool(syn.any()),
              'unset-spelling %s %s' % (sp.cls_name, sp.style),
              {'code': repr(code), 'constructed_as': sp.text, 'decoder': repr(dec), 'syndrome': bitstr(syn)}
              if sp.style == 'cli' and sp.values.get('chi') == 0 and sp.mode == 'a' else None)
    ok = True
    try:
        ps, paulis = dec._coset_probabilities(tuple(dist), f_pauli.copy())
    except Exception as e:  # noqa
        ctx.violation('exception', '_coset_probabilities raised %s for %s' % (exc_class(e), sp.text), rep)
        return False
    if any(not np.array_equal(p.to_bsf(), c) for p, c in zip(paulis, cands)):
        ctx.violation('candidates', 'the four sample Paulis are not f, f.X, f.X.Z, f.Z in this order', rep)
        return False
    for ci in range(4):
        v, e = c10m.to_frac(ps[ci]), exact[ci]
        if v is None or abs(v - e) > c10m.REL * e:
            ctx.violation('unset-spelling-coset-probability',
                          'decoder constructed as %s (all truncation parameters unset by a documented spelling): coset %s '
                          'probability %s differs from the exact sum %s by more than 1e-9 relative'
                          % (sp.text, 'IXYZ'[ci], None if v is None else float(v), float(e)),
                          dict(rep, coset='IXYZ'[ci], got=str(ps[ci])))
            ok = False
            break
    if add is not None and tie_engine:
        gens_str = c10m.rowsstr(S)
        for ci, c in enumerate(cands):
            add('exact oracle vs Coset.coset_prob', 'coset %d %s %s %s' % (n, gens_str, bitstr(c), ' '.join(hex(v) for v in a)),
                hex(exact_int[ci]), rep0)
    # decode through a freshly constructed decoder of the same spelling
    try:
        dec2 = builder.construct(rec)
        r = dec2.decode(code, syn, error_model=c10m.DistModel(dist), error_probability=0.1)
    except Exception as e:  # noqa
        ctx.violation('exception', 'decode raised %s for %s' % (exc_class(e), sp.text), rep)
        return False
    cls = c10m.logical_class(pt, code, np.asarray(r) ^ f)
    rep = dict(rep, recovery=bitstr(r), recovery_class=cls)
    if cls is None:
        ctx.violation('decode-syndrome', 'decoded recovery does not reproduce the syndrome', rep)
        return False
    srt = sorted(exact, reverse=True)
    tie = srt[0] == 0 or (srt[0] - srt[1]) <= c10m.REL * srt[0]
    if not tie:
        if exact[cls] != srt[0]:
            ctx.violation('unset-spelling-decode-argmax', 'decoder constructed as %s: decode returns a recovery from coset %s, '
                          'which is not a coset of maximal probability' % (sp.text, 'IXYZ'[cls]), rep)
            ok = False
        if add is not None:
            add('arg-max choice', 'mlchoice ' + ','.join(hex(v) for v in exact_int), str(cls), rep)
    return ok


def run_spellings(ctx, c10m, families, add, builder):
    """families: the (family, code, [(decoder name, maker, has_stp)]) list of c10.run.  On the smallest code of each family
    the full product of unset values and modes (every call style in the thorough tier; in the quick tier the product of
    chi x mode x tol with the stp spelling and the call style in rotation); on the other codes with n <= 13 a stratified
    sample: every (chi spelling, mode), the rest in rotation."""
    from qecsim import paulitools as pt
    rng = ctx.rng
    smallest = {}
    for fam, code, _decs in families:
        n = code.n_k_d[0]
        if fam not in smallest or n < smallest[fam]:
            smallest[fam] = n
    done = {}
    n_sp = 0
    for fam, code, decs in families:
        n, m = code.n_k_d[0], code.stabilizers.shape[0]
        if n > 13:
            continue
        oracle = c10m.GroupOracle(code)
        sampler = builder.classes[decs[0][0]]
        full = n == smallest[fam] and not done.get(fam)
        done[fam] = done.get(fam) or full
        for dname, _mk, _has_stp in decs:
            if full:
                if ctx.quick:
                    vals = spellings(dname, styles=('keyword',))
                    if 'stp' in SCHEMAS[dname][1]:    # quick tier: full product of chi x mode x tol, the stp spelling in rotation
                        groups = {}
                        for sp in vals:
                            groups.setdefault(tuple(repr(v) for p_, v in sp.values.items() if p_ != 'stp'), []).append(sp)
                        vals = [g[i % len(g)] for i, g in enumerate(groups.values())]
                    todo = [Spelling(dname, sp.values, builder.styles[i % len(builder.styles)]) for i, sp in enumerate(vals)]
                else:
                    todo = spellings(dname, styles=builder.styles)
            else:
                vals = spellings(dname, styles=('keyword',))
                rng.shuffle(vals)
                seen, todo = set(), []
                for sp in vals:       # one spelling for every (chi spelling, mode) pair
                    k = (repr(sp.values['chi']), sp.values.get('mode'))
                    if k not in seen:
                        seen.add(k)
                        todo.append(sp)
                todo += vals[len(vals) - ctx.pick(2, 12):]
                off = rng.randrange(len(builder.styles))
                todo = [Spelling(dname, sp.values, builder.styles[(i + off) % len(builder.styles)]) for i, sp in enumerate(todo)]
            bad = 0
            for i, sp in enumerate(todo):
                syn = np.array([rng.random() < 0.4 for _ in range(m)], dtype=int)
                if not syn.any():
                    syn[rng.randrange(m)] = 1
                dist = c10m.rand_dist(rng)
                n_sp += 1
                if not check_spelling(ctx, c10m, pt, builder, code, oracle, sampler, sp, syn, dist, add=add,
                                      tie_engine=(n <= 5 and i % 16 == 0)):
                    bad += 1
                    if bad >= 3:      # enough concrete inputs for this decoder on this code
                        break
    ctx.extra['unset_spellings_checked'] = n_sp
