"""scratch driver (to be deleted): python -m harness.c07_pt_tmp <planar|toric> <c07|c15|c08> [quick|thorough]"""
import json, os, sys, time, importlib
from harness.common import Ctx

def main():
    fam, which = sys.argv[1], sys.argv[2]
    tier = sys.argv[3] if len(sys.argv) > 3 else 'quick'
    seed = int(os.environ.get('VERIF_SEED', '0') or 0)
    ctx = Ctx(which.upper(), tier, seed)
    mod = importlib.import_module('harness.lat_' + fam)
    t = time.time()
    getattr(mod, 'check_' + which)(ctx)
    print('%s %s %s seed=%d: evals=%d nontrivial=%d mismatches=%d violations=%d obligations=%s wall=%.1fs' % (
        fam, which, tier, seed, ctx.evals, len(ctx.nontrivial), len(ctx.mismatches), len(ctx.violations),
        [(o['name'], o['ok']) for o in ctx.obligations], time.time() - t))
    print('hist', dict(ctx.hist))
    for m in ctx.mismatches[:4]:
        print('MISMATCH', json.dumps(m, default=str)[:600])
    keys = {}
    for v in ctx.violations:
        keys.setdefault(v['key'], []).append(v)
    for k, vs in keys.items():
        print('VIOLATION x%d' % len(vs), k, vs[0]['what'], json.dumps(vs[0]['replay'], default=str)[:400])
    for o in ctx.obligations:
        if not o['ok']:
            print('OBLIGATION FAILED', o['name'], o['detail'][-800:])
main()
