"""C09 — degenerate operands and result SHAPES, and robust evaluation of single cases.

The property quantifies over "all pairs and all stackings into matrices": that includes stackings in which every
operator is the identity (an all-zero vector or matrix), stackings of one operator (a 1 x 2n matrix is not a vector),
of no operator at all (0 x 2n), and operators on zero qubits — on either side of the product.  For such operands the
VALUES carry no information (they are all 0), the property is entirely in the SHAPE and type of the answer: one entry
per (operator of A, operator of B).  The comma separated line protocol of the model engine cannot tell these shapes
apart, so this module talks to the engine with shape-carrying operands and results (`xbsp`, `xbsf_wt`, `xof_bsf`,
`xto_bsf`, `xpauli_wt`, `xipauli`, `xibsf` of drv_c09.ml; the shapes are theorems c09_bsp_result_shape_* and
c09_bsp_identity_* of Props/C09.v) and compares shape, integer-ness and values.

Every case is evaluated under `guard`: an exception or an unexpected shape coming out of the implementation becomes a
violation with the operands in its replay, and the remaining cases still run.

Expected values come from the extracted model and from the property evaluated by independent Python code
(`anti`: parity of positions holding two distinct non-identity letters); never from another implementation."""
import itertools
import math

import numpy as np

from harness.common import exc_class

LETTER = {(0, 0): 'I', (1, 0): 'X', (0, 1): 'Z', (1, 1): 'Y'}
FILLS = ('zero', 'ones', 'one-hot', 'random', 'some-zero-rows', 'equal-rows')
DTYPES = ('int64', 'int32', 'uint8', 'int8')


# ------------------------------------------------------------------------------------------------------------------
# robust rendering
# ------------------------------------------------------------------------------------------------------------------
def describe(r):
    """what came back, for a replay (never raises)"""
    try:
        if isinstance(r, np.ndarray):
            return 'ndarray shape=%s dtype=%s %s' % (r.shape, r.dtype, np.array2string(r, threshold=40)[:200])
        if isinstance(r, np.generic):
            return 'scalar %s %r' % (type(r).__name__, r.item())
        return '%s %s' % (type(r).__name__, repr(r)[:200])
    except Exception as e:  # noqa
        return 'undescribable %s (%s)' % (type(r).__name__, exc_class(e))


def _flat01(arr):
    vals = [x for x in arr.reshape(-1).tolist()]
    if not all(isinstance(x, int) and not isinstance(x, bool) and x in (0, 1) for x in vals):
        return None
    return ''.join('1' if x else '0' for x in vals) or '-'


def spec(a):
    """operand in the model's shape-carrying form"""
    a = np.asarray(a)
    bits = ''.join('1' if int(x) else '0' for x in a.reshape(-1)) or '-'
    if a.ndim == 1:
        return 'v:' + bits
    return 'm:%dx%d:%s' % (a.shape[0], a.shape[1], bits)


def xres(r):
    """implementation result in the model's result form; a result that is not an integer 0/1 scalar, vector or
    matrix is rendered as UNCANON(...) so that it can never equal a model answer"""
    try:
        if isinstance(r, (list, tuple, str, bytes)) or r is None or isinstance(r, (bool, np.bool_)):
            return 'UNCANON(%s)' % describe(r)
        a = np.asarray(r)
        if a.dtype.kind not in 'iu' or a.ndim > 2:
            return 'UNCANON(%s)' % describe(r)
        flat = _flat01(a)
        if flat is None:
            return 'UNCANON(%s)' % describe(r)
        if a.ndim == 0:
            return 's:' + flat
        if a.ndim == 1:
            return 'v:%d:%s' % (a.shape[0], flat)
        return 'm:%dx%s:%s' % (a.shape[0], a.shape[1] if a.shape[0] else '*', flat)
    except Exception:  # noqa
        return 'UNCANON(%s)' % describe(r)


def xstrs(r):
    """str or list of str in the model's form"""
    if isinstance(r, str):
        return 's:' + (r or '-')
    if isinstance(r, (list, tuple)) and all(isinstance(x, str) for x in r):
        return 'l:%d:%s' % (len(r), ','.join(x or '-' for x in r) or '-')
    return 'UNCANON(%s)' % describe(r)


def array_problem(r, shape):
    """None if r is an integer array of 0/1 of exactly this shape (an integer scalar for shape ()), else what is wrong"""
    if shape == ():
        if isinstance(r, (bool, np.bool_)) or not isinstance(r, (int, np.integer, np.ndarray)):
            return 'expected an integer, got ' + describe(r)
        if isinstance(r, np.ndarray) and r.ndim != 0:
            return 'expected an integer (both operands are vectors), got ' + describe(r)
    else:
        if not isinstance(r, np.ndarray):
            return 'expected an array of shape %s, got %s' % (shape, describe(r))
        if r.shape != tuple(shape):
            return 'expected shape %s (one entry per stacked operator of each operand), got %s' % (shape, describe(r))
    a = np.asarray(r)
    if a.dtype.kind not in 'iu':
        return 'expected integer entries, got ' + describe(r)
    if a.size and not np.isin(a, (0, 1)).all():
        return 'entries other than 0 and 1: ' + describe(r)
    return None


def int_problem(r):
    if isinstance(r, (bool, np.bool_)) or not isinstance(r, (int, np.integer)):
        return 'expected an integer, got ' + describe(r)
    return None


def guard(ctx, replay, thunk):
    """evaluate one case; an exception is a finding about this case, not the end of the run"""
    try:
        thunk()
        return True
    except Exception as e:  # noqa
        import traceback
        tb = traceback.extract_tb(e.__traceback__)
        where = '%s:%d' % (tb[-1].filename.rsplit('/', 1)[-1], tb[-1].lineno) if tb else '?'
        ctx.violation('exception', 'evaluating this case raised %s (%s) at %s' % (type(e).__name__, str(e)[:200], where),
                      dict(replay, exception=exc_class(e), message=str(e)[:300], raised_at=where))
        ctx.count(None, False, 'case-exception')
        return False


# ------------------------------------------------------------------------------------------------------------------
# structured operands
# ------------------------------------------------------------------------------------------------------------------
def fill(rng, rows, cols, how):
    """rows x cols binary matrix (list of lists)"""
    if how == 'zero':
        m = [[0] * cols for _ in range(rows)]
    elif how == 'ones':
        m = [[1] * cols for _ in range(rows)]
    elif how == 'one-hot':
        m = [[0] * cols for _ in range(rows)]
        if rows and cols:
            m[rng.randrange(rows)][rng.randrange(cols)] = 1
    elif how == 'some-zero-rows':
        m = [[rng.randint(0, 1) for _ in range(cols)] if rng.random() < 0.5 else [0] * cols for _ in range(rows)]
    elif how == 'equal-rows':
        row = [rng.randint(0, 1) for _ in range(cols)]
        m = [list(row) for _ in range(rows)]
    else:
        m = [[rng.randint(0, 1) for _ in range(cols)] for _ in range(rows)]
    return m


def operand(rng, n, rows, how, dtype='int64'):
    """rows=None: a vector of 2n entries; else a rows x 2n matrix of stacked operators"""
    if rows is None:
        return np.array(fill(rng, 1, 2 * n, how)[0], dtype=dtype).reshape(2 * n)
    return np.array(fill(rng, rows, 2 * n, how), dtype=dtype).reshape(rows, 2 * n)


def any_fill(rng):
    """degenerate fills with moderate probability, for the random streams of the other sections"""
    x = rng.random()
    return 'zero' if x < 0.12 else 'ones' if x < 0.16 else 'one-hot' if x < 0.20 else 'some-zero-rows' if x < 0.26 \
        else 'random'


def letters(v):
    """independent bits -> letters"""
    v = [int(x) for x in v]
    n = len(v) // 2
    return ''.join(LETTER[(v[i], v[n + i])] for i in range(n))


def anti(s, t):
    return sum(1 for a, b in zip(s, t) if a != 'I' and b != 'I' and a != b) % 2


def rhs_layout(K, layout):
    """the right operand of bsp for stacked operators K (k x 2n): a 2n x k array, as a transposed view (the
    ubiquitous call shape bsp(a, M.T)), or as a freshly laid out array"""
    if K.ndim == 1:
        return K
    if layout == 'view':
        return K.T
    if layout == 'fortran':
        return np.asfortranarray(K.T.copy())
    return np.ascontiguousarray(K.T)


# ------------------------------------------------------------------------------------------------------------------
# the sweep
# ------------------------------------------------------------------------------------------------------------------
class Sweep:
    def __init__(self, ctx, pt):
        self.ctx, self.pt = ctx, pt
        self.lines, self.pending = [], []  # model requests; (fn, line, got canonical, replay)

    def ask(self, fn, line, got, replay):
        self.lines.append(line)
        self.pending.append((fn, line, got, replay))

    # ---- one product ----------------------------------------------------------------------------------------------
    def bsp_case(self, A, K, layout, tag, nontrivial_key=None):
        """A: vector or m x 2n; K: vector or k x 2n (stacked operators; passed to bsp as 2n x k)"""
        ctx, pt = self.ctx, self.pt
        B = rhs_layout(K, layout)
        rep = {'fn': 'bsp', 'A': spec(A), 'B': spec(B), 'A_shape': list(A.shape), 'B_shape': list(B.shape),
               'B_layout': layout if K.ndim == 2 else 'vector', 'dtype': [str(A.dtype), str(K.dtype)], 'family': tag}
        ctx.count(nontrivial_key, nontrivial_key is not None, 'degenerate-bsp',
                  dict(rep) if tag == 'sample' else None)

        def body():
            a0, b0 = spec(A), spec(B)
            r = pt.bsp(A, B)
            if spec(A) != a0 or spec(B) != b0:
                ctx.violation('input-mutated', 'bsp changed an operand', rep)
            shape = tuple(A.shape[:-1]) + tuple(B.shape[1:])
            self.ask('bsp', 'xbsp %s %s' % (a0, b0), xres(r), rep)
            prob = array_problem(r, shape)
            if prob:
                ctx.violation('bsp-shapes', 'bsp of %s stacked operator(s) with %s: %s'
                              % (A.shape[0] if A.ndim == 2 else 'a vector', K.shape[0] if K.ndim == 2 else 'a vector',
                                 prob), dict(rep, expected_shape=list(shape), got=describe(r)))
                return
            # element by element: the independent letter-level truth
            rows = [A] if A.ndim == 1 else list(A)
            cols = [K] if K.ndim == 1 else list(K)
            truth = np.array([[anti(letters(x), letters(y)) for y in cols] for x in rows], dtype=int)
            truth = truth.reshape(len(rows), len(cols)).reshape(shape)
            if not np.array_equal(np.asarray(r), truth):
                ctx.violation('bsp-shapes', 'an entry of the stacked product is not the anticommutation parity of its '
                              'pair of operators', dict(rep, got=describe(r), truth=truth.tolist()))
                return
            # the mirrored call: bsp is symmetric, so the stackings may be swapped (transposing the answer)
            A2 = rhs_layout(A, layout)
            r2 = pt.bsp(K, A2)
            shape2 = tuple(K.shape[:-1]) + tuple(A2.shape[1:])
            prob = array_problem(r2, shape2)
            rep2 = dict(rep, A=spec(K), B=spec(A2), A_shape=list(K.shape), B_shape=list(A2.shape), mirrored=True)
            self.ask('bsp', 'xbsp %s %s' % (spec(K), spec(A2)), xres(r2), rep2)
            if prob:
                ctx.violation('bsp-shapes', 'bsp (operands swapped): ' + prob,
                              dict(rep2, expected_shape=list(shape2), got=describe(r2)))
            elif not np.array_equal(np.asarray(r2), np.asarray(truth).T):
                ctx.violation('bsp-symmetry', 'bsp(B, A) is not the transpose of bsp(A, B)',
                              dict(rep2, got=describe(r2), truth=np.asarray(truth).T.tolist()))
        guard(ctx, rep, body)

    def bilinear_case(self, A, K, C, layout):
        """bsp(A, K ^ C) = bsp(A, K) ^ bsp(A, C) and the same on the left, as arrays (C = K gives the zero operand)"""
        ctx, pt = self.ctx, self.pt
        rep = {'fn': 'bsp', 'A': spec(A), 'B': spec(rhs_layout(K, layout)), 'C': spec(rhs_layout(C, layout)),
               'B_layout': layout if K.ndim == 2 else 'vector'}
        ctx.count(None, False, 'degenerate-bilinear')

        def body():
            B, Cc, S = rhs_layout(K, layout), rhs_layout(C, layout), rhs_layout(K ^ C, layout)
            shape = tuple(A.shape[:-1]) + tuple(B.shape[1:])
            parts = [pt.bsp(A, S), pt.bsp(A, B), pt.bsp(A, Cc)]
            for which, r in zip(('bsp(A, B^C)', 'bsp(A, B)', 'bsp(A, C)'), parts):
                prob = array_problem(r, shape)
                if prob:
                    ctx.violation('bsp-shapes', which + ': ' + prob, dict(rep, expected_shape=list(shape),
                                                                          got=describe(r)))
                    return
            if not np.array_equal(np.asarray(parts[0]), np.asarray(parts[1]) ^ np.asarray(parts[2])):
                ctx.violation('bsp-bilinear', 'bsp(A, B^C) != bsp(A, B) ^ bsp(A, C) in stacked form', rep)
            if A.shape[-1:] == K.shape[-1:] and A.ndim == K.ndim and A.shape == K.shape:
                # left argument: (A ^ K) against C
                lhs = [pt.bsp(A ^ K, Cc), pt.bsp(A, Cc), pt.bsp(K, Cc)]
                shape_l = tuple(A.shape[:-1]) + tuple(Cc.shape[1:])
                for which, r in zip(('bsp(A^B, C)', 'bsp(A, C)', 'bsp(B, C)'), lhs):
                    prob = array_problem(r, shape_l)
                    if prob:
                        ctx.violation('bsp-shapes', which + ': ' + prob, dict(rep, expected_shape=list(shape_l),
                                                                              got=describe(r)))
                        return
                if not np.array_equal(np.asarray(lhs[0]), np.asarray(lhs[1]) ^ np.asarray(lhs[2])):
                    ctx.violation('bsp-bilinear', 'bsp(A^B, C) != bsp(A, C) ^ bsp(B, C) in stacked form', rep)
        guard(ctx, rep, body)

    # ---- weights and conversions of one operand -------------------------------------------------------------------
    def unary_case(self, A, tag):
        ctx, pt = self.ctx, self.pt
        rep = {'fn': 'bsf_wt/bsf_to_pauli/pauli_to_bsf/pauli_wt', 'bsf': spec(A), 'shape': list(A.shape),
               'dtype': str(A.dtype), 'family': tag}
        ctx.count(None, False, 'degenerate-unary')

        def body():
            a0 = spec(A)
            n = A.shape[-1] // 2
            rows = [A] if A.ndim == 1 else list(A)
            true_strs = [letters(x) for x in rows]
            true_wt = sum(sum(1 for ch in s if ch != 'I') for s in true_strs)
            w = pt.bsf_wt(A)
            self.ask('bsf_wt', 'xbsf_wt ' + a0, str(w) if int_problem(w) is None else 'UNCANON(%s)' % describe(w), rep)
            if int_problem(w) or int(w) != true_wt:
                ctx.violation('weight', 'bsf_wt is not the number of non-identity factors (as an integer): %s, truth %d'
                              % (describe(w), true_wt), rep)
            s = pt.bsf_to_pauli(A)
            self.ask('bsf_to_pauli', 'xof_bsf ' + a0, xstrs(s), rep)
            want = true_strs[0] if A.ndim == 1 else true_strs
            if (A.ndim == 1 and not isinstance(s, str)) or (A.ndim == 2 and not isinstance(s, list)) or s != want:
                ctx.violation('roundtrip-bsf', 'bsf_to_pauli of a %s is not %s'
                              % ('vector' if A.ndim == 1 else '%d x %d stacking' % A.shape,
                                 'its Pauli string' if A.ndim == 1 else 'the list of its %d Pauli strings' % len(rows)),
                              dict(rep, got=describe(s), truth=want))
                return
            if spec(A) != a0:
                ctx.violation('input-mutated', 'bsf_wt / bsf_to_pauli changed its argument', rep)
            if A.ndim == 2 and len(rows) == 0:
                pw = pt.pauli_wt(s)
                if int_problem(pw) or int(pw) != 0:
                    ctx.violation('weight', 'pauli_wt([]) is not 0', dict(rep, got=describe(pw)))
                return  # pauli_to_bsf([]) cannot know the number of qubits: outside the domain
            back = pt.pauli_to_bsf(s)
            self.ask('pauli_to_bsf', 'xto_bsf ' + xstrs(s), xres(back), rep)
            prob = array_problem(back, tuple(A.shape))
            if prob or not np.array_equal(back, A):
                ctx.violation('roundtrip-bsf', 'pauli_to_bsf(bsf_to_pauli(b)) is not b with the shape of b: %s'
                              % (prob or describe(back)), dict(rep, pauli=s))
            pw = pt.pauli_wt(s)
            self.ask('pauli_wt', 'xpauli_wt ' + xstrs(s), str(pw) if int_problem(pw) is None
                     else 'UNCANON(%s)' % describe(pw), rep)
            if int_problem(pw) or int(pw) != true_wt:
                ctx.violation('weight', 'pauli_wt is not the number of non-identity factors: %s, truth %d'
                              % (describe(pw), true_wt), dict(rep, pauli=s))
            if A.ndim == 1:
                # a list of one string is a 1 x 2n stacking, not a vector
                one = pt.pauli_to_bsf([s])
                prob = array_problem(one, (1, 2 * n))
                self.ask('pauli_to_bsf', 'xto_bsf ' + xstrs([s]), xres(one), rep)
                if prob or not np.array_equal(one[0], A):
                    ctx.violation('bsf-shape', 'pauli_to_bsf of a list of one string is not a 1 x 2n array: %s'
                                  % (prob or describe(one)), dict(rep, pauli=[s]))
        guard(ctx, rep, body)

    def iter_case(self, n, lo, hi):
        ctx, pt = self.ctx, self.pt
        rep = {'fn': 'ipauli/ibsf', 'n': n, 'min_weight': lo, 'max_weight': hi}
        ctx.count(None, False, 'degenerate-iter')

        def body():
            # the property fixes the number of items; never draw more than one beyond it from the implementation
            bound = sum(math.comb(n, w) * 3 ** w for w in range(lo, hi + 1)) + 1
            seq = list(itertools.islice(pt.ipauli(n, lo, hi), bound))
            self.ask('ipauli', 'xipauli %d %d %d' % (n, lo, hi), xstrs(seq), rep)
            truth = ['I' * n] if hi == 0 else sorted(''.join(p) for p in itertools.product('IXYZ', repeat=n)
                                                    if lo <= sum(1 for ch in p if ch != 'I') <= hi)
            if not all(isinstance(x, str) for x in seq) or sorted(seq) != truth:
                ctx.violation('ipauli-complete', 'ipauli does not yield exactly the Paulis in the weight range, once each',
                              dict(rep, got=[repr(x)[:20] for x in seq[:8]], expected_count=len(truth)))
                return
            ws = [sum(1 for ch in s if ch != 'I') for s in seq]
            if ws != sorted(ws):
                ctx.violation('ipauli-order', 'ipauli weights decrease', rep)
            bs = list(itertools.islice(pt.ibsf(n, lo, hi), bound))
            probs = [array_problem(b, (2 * n,)) for b in bs]
            got = xres(np.array([b.tolist() for b in bs], dtype=int).reshape(len(bs), 2 * n)) \
                if not any(probs) else 'UNCANON(%s)' % describe(bs[[bool(p) for p in probs].index(True)])
            self.ask('ibsf', 'xibsf %d %d %d' % (n, lo, hi), got, rep)
            if any(probs) or [letters(b) for b in bs] != seq:
                ctx.violation('ibsf', 'ibsf is not the sequence of ipauli as vectors of length 2n',
                              dict(rep, problem=[p for p in probs if p][:1]))
        guard(ctx, rep, body)

    # ---- the model's verdict --------------------------------------------------------------------------------------
    def settle(self):
        ctx = self.ctx
        out = ctx.model('c09', self.lines)
        for (fn, line, got, rep), m in zip(self.pending, out):
            if not ctx.cmp(fn + '[shape-carrying]', line[:400], got, m):
                ctx.violation('model-' + fn.split('(')[0], 'shape, type or value of the answer is not the model\'s',
                              dict(rep, request=line[:600], got=got[:400], expected_by_model=m[:400]))
        self.lines, self.pending = [], []


def run(ctx, pt):
    rng = ctx.rng
    sw = Sweep(ctx, pt)
    stack = (None, 0, 1, 2, 3)
    layouts = ('view', 'copy', 'fortran')

    # 1. every shape x shape x fill x fill for small n (zero qubits included), default dtype
    for n in range(0, ctx.pick(4, 6)):
        for ra in stack:
            for rb in stack:
                for fa in FILLS:
                    for fb in FILLS:
                        if ra in (None, 0, 1) and fa in ('some-zero-rows', 'equal-rows') or \
                                rb in (None, 0, 1) and fb in ('some-zero-rows', 'equal-rows'):
                            continue  # these fills are 'random' / 'zero' on fewer than two rows
                        A = operand(rng, n, ra, fa)
                        K = operand(rng, n, rb, fb)
                        sw.bsp_case(A, K, layouts[rng.randrange(3)],
                                    'sample' if (n, ra, rb, fa, fb) == (2, 2, 3, 'random', 'zero') else 'grid',
                                    ('deg', n, ra, rb, fa, fb) if n >= 1 and (ra or 0) >= 1 and (rb or 0) >= 1 else None)
    # 2. larger and word-boundary sizes, every shape pair, a degenerate fill on at least one side; other dtypes
    for n in (7, 8, 9, 31, 32, 33, 64) + ((127, 128, 129, 300) if not ctx.quick else (130,)):
        for ra in stack:
            for rb in stack:
                for _ in range(ctx.pick(3, 8)):
                    fa, fb = rng.choice(FILLS), rng.choice(FILLS)
                    if rng.random() < 0.7:
                        if rng.random() < 0.5:
                            fa = rng.choice(('zero', 'one-hot', 'ones'))
                        else:
                            fb = rng.choice(('zero', 'one-hot', 'ones'))
                    dt = rng.choice(DTYPES)
                    sw.bsp_case(operand(rng, n, ra, fa, dt), operand(rng, n, rb, fb, dt if rng.random() < 0.7
                                                                     else rng.choice(DTYPES)),
                                layouts[rng.randrange(3)], 'large', ('deg', n, ra, rb, fa, fb))
    # 3. exhaustive stackings for n = 1 (1..2 operators against 1..2 operators, and vectors) and n = 2 (not 2 x 2)
    for n in (1, 2):
        ops = [np.array(v, dtype=int) for v in itertools.product((0, 1), repeat=2 * n)]
        stacks = {None: ops, 1: [np.array([v]) for v in ops],
                  2: [np.array([v, w]) for v in ops for w in ops]}
        for ra in (None, 1, 2):
            for rb in (None, 1, 2):
                if n == 2 and ra == 2 and rb == 2:
                    pool = [(rng.choice(stacks[2]), rng.choice(stacks[2])) for _ in range(ctx.pick(300, 20000))]
                else:
                    pool = itertools.product(stacks[ra], stacks[rb])
                for A, K in pool:
                    if n == 2 and (ra == 2 or rb == 2) and ctx.quick and rng.random() < 0.75 and A.any() and K.any():
                        continue  # quick: every pair with an identity-only operand, a quarter of the others
                    sw.bsp_case(A, K, 'view', 'exhaustive')
    sw.settle()
    # 4. bilinearity in stacked form; B ^ B is the all-identity operand
    for _ in range(ctx.pick(600, 6000)):
        n = rng.choice((0, 1, 1, 2, 3, 5, 8, 33))
        ra, rb = rng.choice(stack), rng.choice(stack)
        A = operand(rng, n, ra, any_fill(rng))
        K = operand(rng, n, rb, any_fill(rng))
        C = K.copy() if rng.random() < 0.3 else operand(rng, n, rb, any_fill(rng))
        if rng.random() < 0.5:
            A = operand(rng, n, rb, any_fill(rng))  # same stacking on both sides: the left argument is exercised too
        sw.bilinear_case(A, K, C, layouts[rng.randrange(3)])
    # 5. weights and conversions of the same operand family
    for n in range(0, ctx.pick(5, 7)):
        for ra in stack:
            for fa in FILLS:
                for dt in DTYPES if n <= 2 else ('int64',):
                    sw.unary_case(operand(rng, n, ra, fa, dt), 'grid')
    for n in (8, 9, 33, 64, 130):
        for ra in stack:
            for fa in ('zero', 'ones', 'one-hot', 'some-zero-rows'):
                sw.unary_case(operand(rng, n, ra, fa, rng.choice(DTYPES)), 'large')
    # 6. iterators at the boundary: zero qubits, identity only (max weight 0), full weight only
    for n in range(0, 4):
        for lo in range(0, n + 1):
            for hi in range(lo, n + 1):
                sw.iter_case(n, lo, hi)
    for n in (5, 9, 17):
        sw.iter_case(n, 0, 0)
    sw.settle()
