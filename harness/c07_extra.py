"""C07, two further passes on the lattice-index <-> qubit correspondence (site access, plaquette operators and binary
symplectic forms of lattice Paulis agree), for all five lattice families:

multi_index_calls   ONE site(op, *indices) call carrying several indices: literal repeats, different spellings of the same
                    qubit (modulo the torus), out-of-lattice indices that are documented no-ops, strings that wind round
                    the lattice and close on their start, every site at once; from a fresh Pauli or from a random one, mixed
                    with plaquette calls at in- and out-of-range spellings.  The result must be the XOR of the single-index
                    effects: expected value = the extracted model (engines latpt / latrc: single effects XORed for planar /
                    toric, the model's own fold of the script for the rotated / colour families), and, directly on the
                    implementation, the same indices applied one call at a time.

wide_index_sizes    matrix-free pass at sizes whose QUBIT COUNT / flat storage index crosses an integer width (2^8, 2^15,
                    2^16): n against the documented formula; X on every site once flips every qubit exactly once (bijection,
                    evaluated directly); site / operator at boundary and random sites and plaquette operators near the far
                    corner and elsewhere compared with the model's bsf; an in-kernel shard evaluates the translated flatten
                    kernels (Generated/LatticeArith.v) on the sampled sites.  No stabilizer matrix is built."""
import itertools

import numpy as np

from harness import lat_common
from harness.latarith_check import z, term

LET = {(0, 0): 'I', (1, 0): 'X', (0, 1): 'Z', (1, 1): 'Y'}


# ------------------------------------------------------------------------------------------------------------
# families: own enumeration of the sites, documented n, request tokens of the two engines
# ------------------------------------------------------------------------------------------------------------
class Fam:
    engine = 'latrc'
    prefix = None          # latrc script command
    flatten_kernel = None  # name of the translated flatten kernel, if the family has one

    def __init__(self, cls):
        self.cls = cls
        self.name = lat_common.FAMILY_OF[cls.__name__]

    # -- model ------------------------------------------------------------------------------------------
    def tok(self, call):
        kind, op, idx = call
        if kind == 'S':
            return 'S%s:%s' % (op, ':'.join(str(int(v)) for v in idx))
        return 'P%s:%s' % (op or '', ':'.join(str(int(v)) for v in idx))

    def size_s(self, args):
        return ' '.join(str(int(a)) for a in args)

    def model_scripts(self, ctx, args, scripts):
        """scripts: list of lists of calls (kind, op, idx), every call a SINGLE index; returns for each script the bsf the
        model gives to the script applied to the identity (np.uint8 array of 2n bits), or 'IndexError'"""
        n = self.n_own(args)
        req = ['%s %s %s' % (self.prefix, self.size_s(args), ','.join(self.tok(c) for c in s) or '-') for s in scripts]
        out = []
        for line, rep in zip(req, ctx.model(self.engine, req)):
            if rep == 'ERR IndexError':
                out.append('IndexError')
                continue
            if rep == '-':
                rep = ''
            a = np.frombuffer(rep.encode(), dtype=np.uint8) - 48
            if len(a) != 2 * n or (len(a) and a.max() > 1):
                raise RuntimeError('model reply to %r is not a bit string of 2n = %d bits: %r' % (line[:80], 2 * n, rep[:60]))
            out.append(a.astype(np.uint8))
        return out


class PtFam(Fam):
    """planar / toric: engine latpt answers single site / plaquette effects (hex); scripts are XORs of those"""
    engine = 'latpt'
    letter = None

    def idx_s(self, idx):
        return ':'.join(str(int(v)) for v in idx)

    def model_scripts(self, ctx, args, scripts):
        n = self.n_own(args)
        singles = {}
        for s in scripts:
            for c in s:
                singles.setdefault(c, None)
        groups = {}
        for (kind, op, idx) in singles:
            groups.setdefault((kind, op), []).append(idx)
        req, keys = [], []
        for (kind, op), idxs in groups.items():
            for k in range(0, len(idxs), 64):
                chunk = idxs[k:k + 64]
                l = ','.join(self.idx_s(i) for i in chunk)
                req.append('%ssite %s %s %s' % (self.letter, self.size_s(args), op, l) if kind == 'S'
                           else '%splaq %s %s' % (self.letter, self.size_s(args), l))
                keys.append([(kind, op, i) for i in chunk])
        for ks, rep in zip(keys, ctx.model(self.engine, req)):
            parts = rep.split(',')
            if len(parts) != len(ks):
                raise RuntimeError('model reply has %d fields for %d indices: %r' % (len(parts), len(ks), rep[:60]))
            for c, h in zip(ks, parts):
                if h == 'E':
                    singles[c] = 'IndexError'
                    continue
                if len(h) % 2:
                    h = '0' + h
                a = np.unpackbits(np.frombuffer(bytes.fromhex(h), dtype=np.uint8))
                if len(a) < 2 * n or a[:len(a) - 2 * n].any() or len(a) - 2 * n >= 8:
                    raise RuntimeError('model reply for %r is not a bsf of 2n = %d bits' % (c, 2 * n))
                singles[c] = a[len(a) - 2 * n:]
        out = []
        for s in scripts:
            acc = np.zeros(2 * n, dtype=np.uint8)
            for c in s:
                if isinstance(singles[c], str):
                    acc = 'IndexError'
                    break
                acc = acc ^ singles[c]
            out.append(acc)
        return out


class Planar(PtFam):
    letter = 'p'
    flatten_kernel = 'planar_flatten'

    def n_own(self, a):
        return a[0] * a[1] + (a[0] - 1) * (a[1] - 1)

    def sites(self, a):
        return ((r, c) for r in range(2 * a[0] - 1) for c in range(2 * a[1] - 1) if (r + c) % 2 == 0)

    def box(self, a):
        return (0, 0), (2 * a[0] - 2, 2 * a[1] - 2)

    def is_site_shape(self, i):
        return (i[0] + i[1]) % 2 == 0

    def is_plaq_shape(self, i):
        return (i[0] + i[1]) % 2 == 1

    plaq_op = (None,)


class Toric(PtFam):
    letter = 't'

    def n_own(self, a):
        return 2 * a[0] * a[1]

    def sites(self, a):
        return itertools.product((0, 1), range(a[0]), range(a[1]))

    def box(self, a):
        return (0, 0, 0), (1, a[0] - 1, a[1] - 1)

    def is_site_shape(self, i):
        return True
    is_plaq_shape = is_site_shape
    plaq_op = (None,)

    def periods_of(self, a):
        return (2, a[0], a[1])


class RotPlanar(Fam):
    prefix = 'rp_ops'
    flatten_kernel = 'rotplanar_flatten'

    def n_own(self, a):
        return a[0] * a[1]

    def sites(self, a):
        return ((x, y) for y in range(a[0]) for x in range(a[1]))

    def box(self, a):
        return (-1, -1), (a[1] - 1, a[0] - 1)          # (x, y); plaquettes start at -1

    def is_site_shape(self, i):
        return True
    is_plaq_shape = is_site_shape
    plaq_op = (None,)


class RotToric(RotPlanar):
    prefix = 'rt_ops'
    flatten_kernel = 'rottoric_flatten'

    def box(self, a):
        return (0, 0), (a[1] - 1, a[0] - 1)

    def periods_of(self, a):
        return (a[1], a[0])


class Color(Fam):
    prefix = 'c6_ops'
    plaq_op = ('X', 'Z', 'Y')

    def n_own(self, a):
        return (3 * a[0] * a[0] + 1) // 4

    def bound(self, a):
        return 3 * (a[0] - 1) // 2

    def sites(self, a):
        b = self.bound(a)
        return ((r, c) for r in range(b + 1) for c in range(r + 1) if c % 3 != 2 - r % 3)

    def box(self, a):
        return (0, 0), (self.bound(a), self.bound(a))

    def is_site_shape(self, i):
        return i[1] % 3 != 2 - i[0] % 3

    def is_plaq_shape(self, i):
        return i[1] % 3 == 2 - i[0] % 3


def families():
    PlanarCode, ToricCode, RotatedPlanarCode, RotatedToricCode, Color666Code = lat_common._families()
    return [Planar(PlanarCode), Toric(ToricCode), RotPlanar(RotatedPlanarCode), RotToric(RotatedToricCode), Color(Color666Code)]


def _apply(p, call):
    kind, op, idxs = call
    if kind == 'S':
        return p.site(op, *idxs)
    if op is None:
        return p.plaquette(idxs[0])
    return p.plaquette(op, idxs[0])


def _call_s(call):
    kind, op, idxs = call
    if kind == 'S':
        return 'site(%r, %s)' % (op, ', '.join(str(tuple(int(v) for v in i)) for i in idxs))
    i = tuple(int(v) for v in idxs[0])
    return 'plaquette(%s)' % (i,) if op is None else 'plaquette(%r, %s)' % (op, i)


def _singles(calls):
    """the same history with one index per call"""
    return [(kind, op, i) for kind, op, idxs in calls for i in idxs]


def _nz(a, cap=12):
    return [int(v) for v in np.flatnonzero(a)[:cap]]


def _bsf_of_int(v, nbits):
    return np.unpackbits(np.frombuffer(v.to_bytes((nbits + 7) // 8, 'big'), dtype=np.uint8))[-nbits:].astype(int) \
        if nbits else np.zeros(0, dtype=int)


# ------------------------------------------------------------------------------------------------------------
# multi-index calls
# ------------------------------------------------------------------------------------------------------------
MULTI_SIZES = {'planar': [(2, 2), (3, 4), (4, 3), (5, 5)], 'toric': [(2, 2), (3, 4), (4, 3), (5, 2)],
               'rotplanar': [(3, 3), (3, 4), (5, 4), (4, 6)], 'rottoric': [(2, 2), (2, 4), (4, 6), (6, 4)],
               'color': [(3,), (5,), (7,)]}


def _index_pools(fam, args, rng):
    """in-lattice sites; a function giving another spelling of the same qubit (tori) or None; out-of-lattice indices
    that site() documents as no-ops; plaquette-shaped indices in and around the lattice"""
    inl = [tuple(s) for s in fam.sites(args)]
    lo, hi = fam.box(args)
    m = 3
    around = list(itertools.product(*[range(l - m, h + m + 1) for l, h in zip(lo, hi)]))
    per = fam.periods_of(args) if hasattr(fam, 'periods_of') else None
    inset = set(inl)
    if per:
        def respell(i):
            while True:
                j = tuple(v + p * rng.randint(-2, 2) for v, p in zip(i, per))
                if j != tuple(i) or rng.random() < 0.1:
                    return j
        outside = []
    else:
        respell = None
        outside = [i for i in around if fam.is_site_shape(i) and i not in inset]
    plaqs = [i for i in around if fam.is_plaq_shape(i)]
    return inl, respell, outside, plaqs, per


def _multi_site_call(fam, args, rng, pools):
    inl, respell, outside, plaqs, per = pools
    op = rng.choice('XYZXYZXYZI')
    r = rng.random()
    idxs = []
    if r < 0.12:
        # a string winding once round the lattice along one axis and closing on its start (and a bit further)
        base = list(rng.choice(inl))
        ax = rng.randrange(len(base))
        if fam.name == 'toric' and ax == 0:
            ax = rng.choice((1, 2))
        lo, hi = fam.box(args)
        length = (per[ax] if per else hi[ax] - lo[ax] + 1) + rng.randint(1, 3)
        step = rng.choice((1, -1))
        for k in range(length):
            j = list(base)
            j[ax] = base[ax] + step * k
            if not per and fam.name in ('planar', 'color'):
                # keep the site shape: planar strings move by 2 along an axis; colour strings keep only site-shaped indices
                j[ax] = base[ax] + step * k * (2 if fam.name == 'planar' else 1)
            if fam.is_site_shape(tuple(j)):
                idxs.append(tuple(j))
    elif r < 0.2:
        idxs = list(inl)                       # every site in one call
        rng.shuffle(idxs)
        if rng.random() < 0.5:
            idxs += rng.sample(inl, min(len(inl), rng.randint(1, 3)))
    else:
        for _ in range(rng.randint(0, 7)):
            q = rng.random()
            i = rng.choice(inl)
            if q < 0.25 and respell:
                i = respell(i)
            elif q < 0.25 and outside:
                i = rng.choice(outside)
            idxs.append(i)
            q = rng.random()
            if q < 0.3:                        # the same qubit again: literally, or under another spelling
                idxs.insert(rng.randint(0, len(idxs)), respell(i) if respell and rng.random() < 0.7 else i)
            if q < 0.06:
                idxs.insert(rng.randint(0, len(idxs)), respell(i) if respell and rng.random() < 0.5 else i)
    return ('S', op, tuple(idxs))


def multi_index_calls(ctx):
    rng = ctx.rng
    total = multi = 0
    for fam in families():
        for args in MULTI_SIZES[fam.name]:
            rep0 = lat_common._rep(fam.cls, args, check='multi-index-calls')
            try:
                total_, multi_ = _multi_case(ctx, rng, fam, args, rep0)
                total += total_
                multi += multi_
            except Exception as e:  # noqa
                import traceback
                lat_common._viol(ctx, 'pauli-multi-index-raises', 'a documented lattice-Pauli call with several indices raises %s '
                                 'on an accepted size' % type(e).__name__,
                                 dict(rep0, exception=repr(e)[:200], trace=traceback.format_exc()[-700:]))
    ctx.notes.append('multi-index calls: %d histories (%d site() calls with two or more indices: repeats, modulo-equivalent '
                     'spellings, out-of-lattice no-ops, winding strings, all sites) against the model and against the same '
                     'indices applied one call at a time' % (total, multi))
    ctx.extra['multi_index_calls'] = {'histories': total, 'calls_with_several_indices': multi}


def _multi_case(ctx, rng, fam, args, rep0):
    code = fam.cls(*args)
    n = fam.n_own(args)
    pools = _index_pools(fam, args, rng)
    plaqs = pools[3]
    hists = []
    for _ in range(ctx.pick(14, 60)):
        calls = []
        for _ in range(1 if rng.random() < 0.5 else rng.randint(2, 4)):
            if rng.random() < 0.8:
                calls.append(_multi_site_call(fam, args, rng, pools))
            else:
                calls.append(('P', rng.choice(fam.plaq_op), (rng.choice(plaqs),)))
        start = rng.getrandbits(2 * n) if rng.random() < 0.5 else 0
        hists.append((calls, start))
    expected = fam.model_scripts(ctx, args, [_singles(calls) for calls, _ in hists])
    nmulti = 0
    failures = []
    for (calls, start), exp in zip(hists, expected):
        several = sum(1 for c in calls if c[0] == 'S' and len(c[2]) >= 2)
        nmulti += several
        b0 = _bsf_of_int(start, 2 * n)
        hist_s = (['new_pauli(bsf %s)' % ''.join(str(int(v)) for v in b0)] if start else ['new_pauli()']) + [_call_s(c) for c in calls]
        ctx.count(('multi-index', fam.name, args, tuple(hist_s)), several > 0, 'multi-index-call/' + fam.name,
                  dict(rep0, history=hist_s) if several and fam.name == 'rottoric' and args == (2, 4) else None)
        if isinstance(exp, str):
            continue                            # the model refuses an index of this history (not generated here)
        p = code.new_pauli(b0.copy()) if start else code.new_pauli()
        q = code.new_pauli(b0.copy()) if start else code.new_pauli()
        for c in calls:
            _apply(p, c)
        for c in _singles(calls):
            _apply(q, (c[0], c[1], (c[2],)))
        got, seq = np.asarray(p.to_bsf()), np.asarray(q.to_bsf())
        want = b0 ^ exp.astype(int)
        wrong = [nm for nm, ref in (('the model', want), ('the same indices applied one call at a time', seq))
                 if got.shape != ref.shape or not np.array_equal(got, ref)]
        if wrong:
            failures.append((len(_singles(calls)) + (8 if start else 0), len(failures), wrong,
                             dict(rep0, history=hist_s, to_bsf_nonzero=_nz(got, 40), model_nonzero=_nz(want, 40),
                                  one_by_one_nonzero=_nz(seq, 40))))
    for _, _, wrong, rep in sorted(failures)[:2]:       # the shortest failing histories of this size
        lat_common._viol(ctx, 'pauli-multi-index', 'site(op, *indices) with several indices in one call (repeats / equivalent '
                         'spellings / out-of-lattice indices) is not the XOR of the single-site effects: differs from '
                         + ' and from '.join(wrong), rep)
    return len(hists), nmulti


# ------------------------------------------------------------------------------------------------------------
# sizes whose flat indices cross integer widths
# ------------------------------------------------------------------------------------------------------------
def wide_cases(ctx):
    """(family name, args, width crossed).  Quick: every family across 2^8, 2^15 and 2^16 (one shape each beyond 2^8, planar
    square and thin); thorough: further square / thin / transposed shapes."""
    w8 = [('planar', (12, 12)), ('planar', (2, 90)), ('toric', (12, 11)), ('toric', (2, 65)), ('rotplanar', (13, 20)),
          ('rotplanar', (3, 87)), ('rottoric', (16, 18)), ('rottoric', (2, 130)), ('color', (19,))]
    w15 = [('planar', (129, 129)), ('planar', (3, 8200)), ('toric', (2, 8200)), ('rotplanar', (3, 10930)),
           ('rottoric', (2, 16390)), ('color', (211,))]
    w15t = [('planar', (150, 140)), ('planar', (8200, 3)), ('toric', (129, 128)), ('toric', (8200, 2)), ('rotplanar', (182, 181)),
            ('rotplanar', (10930, 3)), ('rottoric', (182, 182)), ('rottoric', (16390, 2))]
    w16 = [('planar', (182, 182)), ('toric', (2, 16400)), ('rotplanar', (257, 256)), ('rottoric', (256, 258)), ('color', (297,)),
           ('planar', (3, 13200)), ('toric', (182, 181)), ('rotplanar', (3, 21850)), ('rottoric', (2, 32770))]
    out = [(f, a, 8) for f, a in w8] + [(f, a, 15) for f, a in w15]
    if ctx.quick:
        out += [(f, a, 16) for f, a in w16[:5]]
    else:
        out += [(f, a, 15) for f, a in w15t] + [(f, a, 16) for f, a in w16]
    return out


def _sample_sites(fam, args, rng, k):
    """corners, last / first lines and random in-lattice sites (own enumeration, no full list)"""
    lo, hi = fam.box(args)
    lo = tuple(max(0, l) for l in lo)
    out = []

    def add(i):
        i = tuple(i)
        if i not in out and fam.is_site_shape(i) and all(l <= v <= h for v, l, h in zip(i, lo, hi)) \
                and (fam.name != 'color' or i[1] <= i[0]):
            out.append(i)
    for corner in itertools.product(*[(l, l + 1, h - 1, h) for l, h in zip(lo, hi)]):
        add(corner)
    out = rng.sample(out, min(len(out), k // 2))
    tries = 0
    while len(out) < k and tries < 50 * k:
        tries += 1
        i = [rng.randint(l, h) for l, h in zip(lo, hi)]
        if rng.random() < 0.5:                 # near the far edges
            ax = rng.randrange(len(i))
            i[ax] = hi[ax] - rng.randint(0, 3)
            if rng.random() < 0.5:
                ax2 = rng.randrange(len(i))
                i[ax2] = hi[ax2] - rng.randint(0, 3)
        add(i)
    return out


def _sample_plaquettes(fam, args, rng, k):
    lo, hi = fam.box(args)
    out = []

    def add(i):
        i = tuple(i)
        if i not in out and fam.is_plaq_shape(i):
            out.append(i)
    far = list(itertools.product(*[range(h - 2, h + 2) for h in hi]))
    rng.shuffle(far)
    for i in far:
        if len(out) < k // 2:
            add(i)
    tries = 0
    while len(out) < k and tries < 50 * k:
        tries += 1
        i = [rng.randint(l - 1, h + 1) for l, h in zip(lo, hi)]
        if rng.random() < 0.5:
            ax = rng.randrange(len(i))
            i[ax] = hi[ax] - rng.randint(0, 4)
        add(i)
    return out


def wide_index_sizes(ctx):
    rng = ctx.rng
    fams = {f.name: f for f in families()}
    kern = []
    done = []
    for fname, args, width in wide_cases(ctx):
        fam = fams[fname]
        rep0 = lat_common._rep(fam.cls, args, check='wide-index-size', crosses='2^%d' % width)
        try:
            _wide_case(ctx, rng, fam, args, rep0, kern)
            done.append('%s%s' % (fname, list(args)))
        except Exception as e:  # noqa
            import traceback
            lat_common._viol(ctx, 'wide-size-raises', 'a documented lattice-Pauli / code call raises %s on an accepted size'
                             % type(e).__name__, dict(rep0, exception=repr(e)[:200], trace=traceback.format_exc()[-700:]))
    if kern:
        if len(kern) > 400:
            kern = rng.sample(kern, 400)
        text = ('From Coq Require Import ZArith List Bool.\nFrom QV Require Import Generated.LatticeArith.\nOpen Scope Z_scope.\n'
                'Import ListNotations.\nDefinition checks : list bool :=\n [' + ';\n  '.join(kern) + '].\n'
                'Example wide_flatten_corr : forallb (fun b => b) checks = true.\nProof. vm_compute. reflexivity. Qed.\n')
        ctx.kernel_cases('wide_flatten', text)
        ctx.extra['kernel_cases_wide_flatten'] = len(kern)
    ctx.notes.append('sizes whose flat indices cross integer widths (matrix-free: n, every-site bijection, sampled sites / '
                     'operator / plaquettes against the model): ' + ', '.join(done))


def _wide_case(ctx, rng, fam, args, rep0, kern):
    code = fam.cls(*args)
    n = fam.n_own(args)
    nkd = code.n_k_d
    if int(nkd[0]) != n:
        lat_common._viol(ctx, 'wide-size-n', 'n_k_d[0] is not the documented number of physical qubits (%d)' % n,
                         dict(rep0, n_k_d=[int(v) for v in nkd]))
        return
    # ---- bijection, directly: X on every site once flips every qubit exactly once ------------------------------
    sites = [tuple(s) for s in fam.sites(args)]
    p = code.new_pauli()
    order = list(sites)
    if rng.random() < 0.5:
        order.reverse()
    half = len(order) // 2 if rng.random() < 0.7 else 0
    for s in order[:half]:
        p.site('X', s)
    for k in range(half, len(order), 4096):    # the rest through calls carrying many indices
        p.site('X', *order[k:k + 4096])
    b = np.asarray(p.to_bsf())
    ctx.count(('wide-bijection', fam.name, args), True, 'wide-size-bijection/' + fam.name,
              dict(rep0, n=n, sites=len(sites)) if fam.name == 'planar' and n > 30000 else None, n=len(sites))
    ok = len(sites) == n and b.shape == (2 * n,) and bool(b[:n].all()) and not b[n:].any()
    if not ok:
        rep = dict(rep0, n=n, sites=len(sites), bsf_length=int(b.size),
                   qubits_left_untouched=int(n - b[:n].sum()) if b.size == 2 * n else None,
                   first_untouched_qubits=_nz(1 - b[:n], 6) if b.size == 2 * n else None)
        # localise once per family: the first site (own enumeration order) whose qubit is out of range / already taken,
        # by bisection on prefixes of the site list, then the earlier site it clashes with
        located = ctx.__dict__.setdefault('_wide_located', set())
        if fam.name not in located and len(sites) == n and b.size == 2 * n:
            located.add(fam.name)

            def prefix(k):
                q_ = code.new_pauli()
                for j in range(0, k, 4096):
                    q_.site('X', *sites[j:min(k, j + 4096)])
                return np.asarray(q_.to_bsf())
            lo_, hi_ = 0, len(sites)            # prefix lo_ is one-to-one into range(n), prefix hi_ is not
            while hi_ - lo_ > 1:
                mid = (lo_ + hi_) // 2
                pm = prefix(mid)
                if int(pm[:n].sum()) == mid and not pm[n:].any():
                    lo_ = mid
                else:
                    hi_ = mid
            s_bad = sites[hi_ - 1]
            nzs = np.flatnonzero(np.asarray(code.new_pauli().site('X', s_bad).to_bsf()))
            rep.update(site=list(s_bad), site_bsf_nonzero=[int(v) for v in nzs[:6]])
            if len(nzs) == 1 and nzs[0] < n:
                a_, b_ = 0, hi_ - 1             # bit nzs[0] is clear in prefix a_, set in prefix b_
                while b_ - a_ > 1:
                    mid = (a_ + b_) // 2
                    if prefix(mid)[nzs[0]]:
                        b_ = mid
                    else:
                        a_ = mid
                rep.update(clashes_with=list(sites[b_ - 1]))
        lat_common._viol(ctx, 'wide-size-bijection', 'site index -> qubit is not a bijection onto range(n): X applied to every '
                         'site once does not flip every qubit exactly once', rep)
    # ---- sampled sites, operator(), plaquettes against the model ------------------------------------------------
    ks, kp = ctx.pick((14, 10), (40, 30)) if n > 1000 else (24, 20)
    ss = _sample_sites(fam, args, rng, ks)
    pl = _sample_plaquettes(fam, args, rng, kp)
    calls = [('S', rng.choice('XYZ'), s) for s in ss] + [('S', 'X', s) for s in ss[:4]]
    calls += [('P', rng.choice(fam.plaq_op), i) for i in pl]
    exp = fam.model_scripts(ctx, args, [[c] for c in calls])
    bv = _bsf_of_int(rng.getrandbits(2 * n), 2 * n)
    pb = code.new_pauli(bv.copy())
    for (kind, op, idx), want in zip(calls, exp):
        rep = dict(rep0, call='new_pauli().' + _call_s((kind, op, (idx,))))
        ctx.count(('wide', fam.name, args, kind, op, idx), True, 'wide-size-%s/%s' % ('site' if kind == 'S' else 'plaquette', fam.name))
        try:
            got = np.asarray(_apply(code.new_pauli(), (kind, op, (idx,))).to_bsf())
        except IndexError:
            got = 'IndexError'
        if isinstance(want, str) or isinstance(got, str):
            if not (isinstance(want, str) and isinstance(got, str)):
                lat_common._viol(ctx, 'wide-size-' + ('site' if kind == 'S' else 'plaquette'), 'IndexError raised / not raised '
                                 'against the model', dict(rep, got=got if isinstance(got, str) else 'a Pauli',
                                                           model=want if isinstance(want, str) else 'a Pauli'))
            continue
        if got.shape != want.shape or not np.array_equal(got, want):
            lat_common._viol(ctx, 'wide-size-' + ('site' if kind == 'S' else 'plaquette'),
                             ('site(op, index) does not address the qubit the index map gives (model)' if kind == 'S' else
                              'plaquette operator does not have the documented support (model)'),
                             dict(rep, n=n, to_bsf_nonzero=_nz(got), model_nonzero=_nz(want)))
            continue
        if kind != 'S':
            continue
        # operator(index) of a random Pauli reads the qubit the model's index map names
        q = int(np.flatnonzero(want)[0]) % n
        o = pb.operator(idx)
        if o != LET[(int(bv[q]), int(bv[n + q]))]:
            lat_common._viol(ctx, 'wide-size-operator', 'operator(index) of new_pauli(bsf) is not the letter the bsf holds at the '
                             'qubit the index map gives (model)',
                             dict(rep0, index=list(idx), qubit=q, got=o, bsf_bits=[int(bv[q]), int(bv[n + q])],
                                  bsf_seed='random 2n bits'))
        if fam.flatten_kernel and op == 'X' and len(np.flatnonzero(got)) == 1:
            kern.append('(%s %s %s =? %s)' % (fam.flatten_kernel, ' '.join(z(a) for a in args), term(tuple(int(v) for v in idx)),
                                             z(int(np.flatnonzero(got)[0]))))
