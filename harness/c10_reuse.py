"""C10, one decoder object serving several codes in sequence.

The property quantifies over "all lattice sizes including non-square" for every decoder and mode; a decoder of qecsim is
a stateless-by-contract object that a script constructs once and then hands to runs on many codes (`qecsim run` does so
for every code of its product).  The value a decoder returns for a code must therefore not depend on which codes the same
object has served before.  The main loop of harness/c10.py constructs a fresh decoder for every call, and the
live-instance histories there stay on one code; this module closes that blind spot:

    for every decoder class, every mode, one instance walks through a sequence of codes, forwards and backwards, and at
    every step (new random syndrome, new random distribution) its four coset probabilities are compared with the exact
    coset sums of THAT code (GroupOracle of harness/c10.py, integer arithmetic, tied to Tensor/Coset.coset_prob by the
    engine) and its decode with the exact arg-max.

The sequences are chosen so that consecutive codes collide in every derived quantity an implementation might key per-code
state on:  equal rows+cols (rotated networks are (R+C-1) x (R+C-1)), transposed sizes (equal n, equal number of
stabilizers, equal distance), equal rows or equal cols, equal network shape with different layouts, growing then
shrinking sizes, and the same code again after others.  Nothing is compared with another run of the implementation.

A syndrome whose four exact coset sums are not all zero but for which the decoder reports 0 for all four cosets is
reported under its own key (the decoders swallow contraction errors and return zeros with only a log line)."""
from fractions import Fraction

import numpy as np

from harness.common import bitstr, exc_class

SCHEMA_HAS = {'PlanarMPSDecoder': ('mode', 'stp'), 'PlanarRMPSDecoder': ('mode', 'stp'),
              'RotatedPlanarMPSDecoder': ('mode',), 'RotatedPlanarRMPSDecoder': ('mode',), 'Color666MPSDecoder': ()}


def sequences(ctx):
    """(family, name, [size, ...], decoder class names); sizes are constructor argument tuples"""
    rot = ('RotatedPlanarMPSDecoder', 'RotatedPlanarRMPSDecoder')
    pla = ('PlanarMPSDecoder', 'PlanarRMPSDecoder')
    out = [
        # rotated planar: network shape (R+C-1) x (R+C-1)
        ('rotated', 'equal rows+cols 8', [(3, 5), (4, 4), (5, 3)], rot),
        ('rotated', 'transposed 3x4', [(3, 4), (4, 3)], rot),
        ('rotated', 'grow and shrink', [(3, 3), (4, 4), (3, 4), (3, 3), (5, 3), (4, 3)], rot),
        # planar: network shape (2R-1) x (2C-1); n = RC + (R-1)(C-1)
        ('planar', 'transposed 2x3', [(2, 3), (3, 2)], pla),
        ('planar', 'equal rows+cols 6', [(2, 4), (3, 3), (4, 2)], pla),
        ('planar', 'transposed 3x4', [(3, 4), (4, 3)], pla),
        ('planar', 'grow and shrink', [(2, 2), (3, 3), (2, 3), (2, 2), (4, 2), (3, 2)], pla),
        ('color', 'sizes 3 5', [(3,), (5,)], ('Color666MPSDecoder',)),
    ]
    if not ctx.quick:
        out += [
            ('rotated', 'equal rows+cols 9', [(3, 6), (4, 5), (5, 4), (6, 3)], rot),
            ('rotated', 'equal rows', [(3, 3), (3, 4), (3, 5), (3, 6)], rot),
            ('rotated', 'equal cols', [(3, 4), (4, 4), (5, 4)], rot),
            ('planar', 'equal rows+cols 7', [(2, 5), (3, 4), (4, 3), (5, 2)], pla),
            ('planar', 'equal rows', [(2, 2), (2, 3), (2, 4), (2, 5)], pla),
            ('planar', 'equal cols', [(2, 3), (3, 3), (4, 3)], pla),
            ('color', 'sizes 5 3 5', [(5,), (3,), (5,)], ('Color666MPSDecoder',)),
        ]
    return out


def make_code(fam, size):
    from qecsim.models.planar import PlanarCode
    from qecsim.models.rotatedplanar import RotatedPlanarCode
    from qecsim.models.color import Color666Code
    return {'planar': PlanarCode, 'rotated': RotatedPlanarCode, 'color': Color666Code}[fam](*size)


class CodeInfo:
    """a code with its exact oracle (built once per size)"""
    cache = {}

    def __init__(self, c10m, fam, size):
        self.code = make_code(fam, size)
        self.oracle = c10m.GroupOracle(self.code)
        self.n, self.m = self.code.n_k_d[0], self.code.stabilizers.shape[0]

    @classmethod
    def get(cls, c10m, fam, size):
        k = (fam, tuple(size))
        if k not in cls.cache:
            cls.cache[k] = cls(c10m, fam, size)
        return cls.cache[k]


def step_check(c10m, pt, dec, info, syn, dist, ops):
    """One step of a history on the live decoder `dec`: returns (violation key or None, text, details, exact_int, cls).
    Every expected value is the exact coset sum of info.code; nothing comes from another run of the implementation."""
    code, n = info.code, info.n
    S = code.stabilizers
    LX, LZ = code.logical_xs[0], code.logical_zs[0]
    f_pauli = dec.sample_recovery(code, syn)
    f = f_pauli.to_bsf()
    if not np.array_equal(pt.bsp(f, S.T), syn):
        return 'sample-recovery', 'sample recovery does not reproduce the syndrome', {}, None, None
    cands = [f, f ^ LX, f ^ LX ^ LZ, f ^ LZ]
    a, D = c10m.dist_ints(dist)
    exact_int = [info.oracle.coset_int(c, a) for c in cands]
    Dn = Fraction(D) ** n
    exact = [Fraction(v) / Dn for v in exact_int]
    det = {'sample': bitstr(f), 'exact': [str(float(e)) for e in exact]}
    cls = None
    for op in ops:
        if op == 'coset_probabilities':
            try:
                ps, paulis = dec._coset_probabilities(tuple(dist), f_pauli.copy())
            except Exception as e:  # noqa
                return 'exception', '_coset_probabilities raised ' + exc_class(e), det, exact_int, None
            if any(not np.array_equal(p.to_bsf(), c) for p, c in zip(paulis, cands)):
                return 'candidates', 'the four sample Paulis are not f, f.X, f.X.Z, f.Z in this order', det, exact_int, None
            vals = [c10m.to_frac(p) for p in ps]
            det = dict(det, got=[str(p) for p in ps])
            if any(e > 0 for e in exact) and all(v is not None and v == 0 for v in vals):
                return ('coset-all-zero-reused', 'all four coset probabilities are 0 for a syndrome of non-zero probability '
                        '(exact coset sums %s)' % [float(e) for e in exact], det, exact_int, None)
            for ci in range(4):
                v, e = vals[ci], exact[ci]
                if v is None or abs(v - e) > c10m.REL * e:
                    return ('coset-probability-reused-across-codes',
                            'coset %s probability %s differs from the exact sum %s by more than 1e-9 relative'
                            % ('IXYZ'[ci], None if v is None else float(v), float(e)), dict(det, coset='IXYZ'[ci]), exact_int, None)
        else:
            try:
                r = dec.decode(code, syn, error_model=c10m.DistModel(dist), error_probability=0.1)
            except Exception as e:  # noqa
                return 'exception', 'decode raised ' + exc_class(e), det, exact_int, None
            cls = c10m.logical_class(pt, code, np.asarray(r) ^ f)
            det = dict(det, recovery=bitstr(r), recovery_class=cls)
            if cls is None:
                return 'decode-syndrome', 'decoded recovery does not reproduce the syndrome', det, exact_int, None
            srt = sorted(exact, reverse=True)
            tie = srt[0] == 0 or (srt[0] - srt[1]) <= c10m.REL * srt[0]
            if tie:
                cls = None
            elif exact[cls] != srt[0]:
                return ('decode-argmax-reused-across-codes', 'decode returns a recovery from coset %s, which is not a coset of '
                        'maximal probability (exact coset sums %s)' % ('IXYZ'[cls], [float(e) for e in exact]), det, exact_int, cls)
    return None, '', det, exact_int, cls


def construct(classes, rec):
    return classes[rec['cls']](**rec['kwargs'])


def run_reuse(ctx, c10m, builder, add=None):
    from qecsim import paulitools as pt
    rng = ctx.rng
    n_tie = 0
    for fam, name, sizes, dnames in sequences(ctx):
        infos = [CodeInfo.get(c10m, fam, sz) for sz in sizes]
        walk = list(range(len(sizes))) + list(range(len(sizes)))[::-1]      # forwards, then backwards: the last code twice
        for dname in dnames:                                                  # in a row, then every code after its successor
            has = SCHEMA_HAS[dname]
            for mode in (('c', 'r', 'a') if 'mode' in has else (None,)):
                kwargs = {}
                if mode is not None:
                    kwargs['mode'] = mode
                if 'stp' in has and rng.random() < 0.3:
                    kwargs['stp'] = rng.choice([0.5, 1.0])
                rec = {'cls': dname, 'kwargs': kwargs}
                dec = construct(builder.classes, rec)
                steps = []
                for step, wi in enumerate(walk):
                    info = infos[wi]
                    syn = np.array([rng.random() < rng.choice([0.15, 0.4]) for _ in range(info.m)], dtype=int)
                    if not syn.any() and rng.random() < 0.8:
                        syn[rng.randrange(info.m)] = 1
                    dist = c10m.rand_dist(rng)
                    if info.n > 16 and fam == 'color':
                        ops = [rng.choice(['coset_probabilities', 'decode'])]     # colour 5: 0.3 s per contraction
                    else:
                        ops = rng.choice([['coset_probabilities', 'decode'], ['decode', 'coset_probabilities']])
                    steps.append({'code': repr(info.code), 'syndrome': bitstr(syn), 'dist': [float(p).hex() for p in dist],
                                  'ops': list(ops)})
                    key, text, det, exact_int, cls = step_check(c10m, pt, dec, info, syn, dist, ops)
                    ctx.count(('reuse', name, dname, mode, step), step > 0, 'one-decoder-many-codes %s' % fam,
                              {'decoder': repr(dec), 'codes_served_in_order': [s['code'] for s in steps]}
                              if step == len(walk) - 1 and mode in ('a', None) and 'equal' in name else None)
                    if key is not None:
                        ctx.violation(key, 'one %s object used for %s in this order: at the last one, %s'
                                      % (dname, ', '.join(s['code'] for s in steps), text),
                                      dict(det, check='c10_reuse', construct=rec, decoder=repr(dec), steps=steps,
                                           code=steps[-1]['code'], syndrome=steps[-1]['syndrome'], dist=steps[-1]['dist']))
                        break       # the object's state is suspect from here on; one concrete history is enough
                    if add is not None and cls is not None and step > 0 and n_tie < 200:
                        n_tie += 1
                        add('arg-max choice', 'mlchoice ' + ','.join(hex(v) for v in exact_int), str(cls),
                            {'check': 'c10_reuse', 'construct': rec, 'steps': steps})


def replay_dict(rep):
    """re-run the recorded history on one freshly constructed decoder object and re-check its last step"""
    import logging
    import sys
    logging.getLogger('qecsim').setLevel(logging.CRITICAL)
    from qecsim import paulitools as pt
    from qecsim.models.planar import PlanarCode  # noqa
    from qecsim.models.rotatedplanar import RotatedPlanarCode  # noqa
    from qecsim.models.color import Color666Code  # noqa
    from harness import c10_spell
    import harness.c10 as c10m
    c10m = sys.modules.get('harness.c10', c10m)
    dec = construct(c10_spell.decoder_classes(), rep['construct'])
    print('one decoder object', repr(dec), 'serving', len(rep['steps']), 'calls')

    class Info:
        pass
    bad = False
    for i, st in enumerate(rep['steps']):
        info = Info()
        info.code = eval(st['code'])
        info.oracle = c10m.GroupOracle(info.code)
        info.n, info.m = info.code.n_k_d[0], info.code.stabilizers.shape[0]
        syn = np.array([int(ch) for ch in st['syndrome']], dtype=int)
        dist = tuple(float.fromhex(h) for h in st['dist'])
        key, text, det, _e, _c = step_check(c10m, pt, dec, info, syn, dist, st['ops'])
        print('step', i, st['code'], st['syndrome'], st['ops'], 'OK' if key is None else 'VIOLATION %s: %s' % (key, text))
        if key is not None:
            print(' ', det)
            bad = True
            break
    print('REPRODUCED' if bad else 'not reproduced')
    return 1 if bad else 0
