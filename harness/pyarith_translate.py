"""Fail-closed translator: small integer-arithmetic methods of the lattice code/pauli classes
-> Gallina definitions over Z (coq/theories/Generated/LatticeArith.v), regenerated from the
current /repo source on every run.  Python `//` and `%` are Coq `Z.div` / `Z.modulo` (both floor,
result has the sign of the divisor).  Anything outside the supported subset raises Unsupported and the
run fails closed.  `assert` statements are dropped (recorded in a comment); `raise` becomes `None`
in an option-valued definition."""
import ast
import hashlib
import json
import os
import sys

REPO = os.environ.get('VERIF_REPO', '/repo')
VERIF = os.path.dirname(os.path.dirname(os.path.abspath(__file__)))
OUT = os.path.join(VERIF, 'coq', 'theories', 'Generated', 'LatticeArith.v')
META = os.path.join(VERIF, 'build', 'translator_meta.json')


class Unsupported(Exception):
    pass


BIN = {ast.Add: '+', ast.Sub: '-', ast.Mult: '*', ast.FloorDiv: '/', ast.Mod: 'mod'}
CMP = {ast.Lt: '<?', ast.LtE: '<=?', ast.Eq: '=?', ast.Gt: '>?', ast.GtE: '>=?'}
TY = {'Z': 'Z', 'ZZ': 'Z * Z', 'ZZZ': 'Z * Z * Z', 'bool': 'bool'}


class Tr:
    def __init__(self, job, sigs):
        self.job, self.sigs = job, sigs
        self.attrmap = job.get('attrs', {})
        self.callmap = job.get('calls', {})
        self.raises = False
        self.asserts = 0

    def path(self, e):
        if isinstance(e, ast.Name):
            return e.id
        if isinstance(e, ast.Attribute):
            return self.path(e.value) + '.' + e.attr
        raise Unsupported(ast.dump(e)[:100])

    def is_bool(self, e):
        if isinstance(e, (ast.BoolOp, ast.Compare)):
            return True
        if isinstance(e, ast.UnaryOp) and isinstance(e.op, ast.Not):
            return True
        if isinstance(e, ast.Call):
            try:
                p = self.path(e.func)
            except Unsupported:
                return False
            return p in self.callmap and self.sigs[self.callmap[p].split()[0]] == 'bool'
        return False

    def ex(self, e):
        """integer / tuple valued expression"""
        if isinstance(e, ast.Constant) and isinstance(e.value, int) and not isinstance(e.value, bool):
            return '(%d)' % e.value
        if isinstance(e, ast.Name):
            return e.id
        if isinstance(e, ast.UnaryOp) and isinstance(e.op, ast.USub):
            return '(- %s)' % self.ex(e.operand)
        if isinstance(e, ast.BinOp) and type(e.op) in BIN:
            return '(%s %s %s)' % (self.ex(e.left), BIN[type(e.op)], self.ex(e.right))
        if isinstance(e, ast.BinOp) and isinstance(e.op, ast.Pow) and isinstance(e.right, ast.Constant) \
                and isinstance(e.right.value, int) and 0 <= e.right.value <= 4:
            return '(%s ^ %d)' % (self.ex(e.left), e.right.value)
        if isinstance(e, ast.Call) and isinstance(e.func, ast.Name) and e.func.id in ('abs', 'min', 'max'):
            f = {'abs': 'Z.abs', 'min': 'Z.min', 'max': 'Z.max'}[e.func.id]
            if (e.func.id == 'abs') != (len(e.args) == 1) or len(e.args) > 2:
                raise Unsupported('arity of ' + e.func.id)
            return '(%s %s)' % (f, ' '.join(self.ex(a) for a in e.args))
        if isinstance(e, ast.Call):
            p = self.path(e.func)
            if p == 'np.mod' and len(e.args) == 2:
                return ('MOD', self.ex(e.args[0]), self.ex(e.args[1]))
            if p in self.callmap and self.sigs[self.callmap[p].split()[0]] != 'bool':
                return '(%s %s)' % (self.callmap[p], ' '.join(self.ex(a) for a in e.args))
            raise Unsupported('call ' + p)
        if isinstance(e, ast.IfExp):
            return '(if %s then %s else %s)' % (self.bx(e.test), self.ex(e.body), self.ex(e.orelse))
        if isinstance(e, ast.Tuple):
            return '(%s)' % ', '.join(self.ex(x) for x in e.elts)
        if isinstance(e, ast.Attribute):
            p = self.path(e)
            if p in self.attrmap:
                return self.attrmap[p]
        raise Unsupported(ast.dump(e)[:120])

    def bx(self, e):
        """boolean expression"""
        if isinstance(e, ast.BoolOp):
            op = ' && ' if isinstance(e.op, ast.And) else ' || '
            return '(' + op.join(self.bx(v) for v in e.values) + ')'
        if isinstance(e, ast.UnaryOp) and isinstance(e.op, ast.Not):
            return '(negb %s)' % self.bx(e.operand)
        if isinstance(e, ast.Compare):
            parts, left = [], e.left
            for op, right in zip(e.ops, e.comparators):
                if self.is_bool(left) or self.is_bool(right):
                    if not (self.is_bool(left) and self.is_bool(right)):
                        raise Unsupported('bool compared with non-bool')
                    if isinstance(op, ast.Eq):
                        parts.append('(Bool.eqb %s %s)' % (self.bx(left), self.bx(right)))
                    elif isinstance(op, ast.NotEq):
                        parts.append('(negb (Bool.eqb %s %s))' % (self.bx(left), self.bx(right)))
                    else:
                        raise Unsupported('ordering on bools')
                elif isinstance(op, ast.NotEq):
                    parts.append('(negb (%s =? %s))' % (self.ex(left), self.ex(right)))
                elif type(op) in CMP:
                    parts.append('(%s %s %s)' % (self.ex(left), CMP[type(op)], self.ex(right)))
                else:
                    raise Unsupported(ast.dump(op))
                left = right
            return '(' + ' && '.join(parts) + ')'
        if isinstance(e, ast.Call):
            p = self.path(e.func)
            if p in self.callmap and self.sigs[self.callmap[p].split()[0]] == 'bool':
                return '(%s %s)' % (self.callmap[p], ' '.join(self.ex(a) for a in e.args))
        if isinstance(e, ast.BinOp) and isinstance(e.op, ast.Mod):
            # truthiness of an integer remainder, e.g. `if rows % 2 or columns % 2`
            return '(negb (%s =? 0))' % self.ex(e)
        raise Unsupported('bool: ' + ast.dump(e)[:120])

    def ret(self, e):
        v = self.bx(e) if self.job['ret'] == 'bool' else self.ex(e)
        return ('Some %s' % v) if self.job.get('raises') else v

    def body(self, stmts):
        if not stmts:
            if self.job.get('raises'):
                return 'None'
            raise Unsupported('fell off the end of %s' % self.job['name'])
        st, rest = stmts[0], stmts[1:]
        if isinstance(st, ast.Expr) and isinstance(st.value, ast.Constant):
            return self.body(rest)  # docstring
        if isinstance(st, ast.Assert):
            self.asserts += 1
            return self.body(rest)
        if isinstance(st, ast.AugAssign) and isinstance(st.target, ast.Name) and type(st.op) in BIN:
            return 'let %s := (%s %s %s) in\n  %s' % (st.target.id, st.target.id, BIN[type(st.op)],
                                                      self.ex(st.value), self.body(rest))
        if isinstance(st, ast.Assign) and len(st.targets) == 1:
            tg = st.targets[0]
            val = self.ex(st.value)
            if isinstance(tg, ast.Name):
                if isinstance(val, tuple):
                    raise Unsupported('np.mod needs a tuple target')
                return 'let %s := %s in\n  %s' % (tg.id, val, self.body(rest))
            if isinstance(tg, ast.Tuple) and all(isinstance(x, ast.Name) for x in tg.elts):
                pat = "'(%s)" % ', '.join(x.id for x in tg.elts)
                if isinstance(val, tuple):
                    if len(tg.elts) not in (2, 3):
                        raise Unsupported('np.mod arity')
                    val = '(mod%d %s %s)' % (len(tg.elts), val[1], val[2])
                return 'let %s := %s in\n  %s' % (pat, val, self.body(rest))
            raise Unsupported('assignment target')
        if isinstance(st, ast.Return):
            if st.value is None:
                raise Unsupported('bare return')
            return self.ret(st.value)
        if isinstance(st, ast.If):
            thn = self.body(st.body + ([] if ends(st.body) else rest))
            if st.orelse:
                els = self.body(st.orelse + ([] if ends(st.orelse) else rest))
            else:
                els = self.body(rest)
            return '(if %s then %s else\n  %s)' % (self.bx(st.test), thn, els)
        if isinstance(st, ast.Raise):
            if not self.job.get('raises'):
                raise Unsupported('raise in a total function')
            return 'None'
        raise Unsupported(ast.dump(st)[:120])


def ends(b):
    last = b[-1]
    return isinstance(last, (ast.Return, ast.Raise)) or (
        isinstance(last, ast.If) and last.orelse and ends(last.body) and ends(last.orelse))


def find(tree, cls, fn):
    for n in ast.walk(tree):
        if isinstance(n, ast.ClassDef) and n.name == cls:
            for m in n.body:
                if isinstance(m, ast.FunctionDef) and m.name == fn:
                    return m
    raise Unsupported('no %s.%s in source' % (cls, fn))


RC = [('rows', 'Z'), ('cols', 'Z')]
IDX = [('index', 'ZZ')]
AB = [('a_index', 'ZZ'), ('b_index', 'ZZ')]
M = 'src/qecsim/models/'
# name, file, class, method, context params, params, return type, raises, attribute map, call map
JOBS = [
    # ---- planar
    dict(name='planar_n_k_d', file=M + 'planar/_planarcode.py', cls='PlanarCode', fn='n_k_d', ctx=RC, params=[],
         ret='ZZZ', attrs={'self.size': '(rows, cols)'}),
    dict(name='planar_is_plaquette', file=M + 'planar/_planarcode.py', cls='PlanarCode', fn='is_plaquette', ctx=[],
         params=IDX, ret='bool'),
    dict(name='planar_is_site', file=M + 'planar/_planarcode.py', cls='PlanarCode', fn='is_site', ctx=[], params=IDX,
         ret='bool', calls={'cls.is_plaquette': 'planar_is_plaquette'}),
    dict(name='planar_is_primal', file=M + 'planar/_planarcode.py', cls='PlanarCode', fn='is_primal', ctx=[],
         params=IDX, ret='bool', calls={'cls.is_plaquette': 'planar_is_plaquette', 'cls.is_site': 'planar_is_site'}),
    dict(name='planar_is_dual', file=M + 'planar/_planarcode.py', cls='PlanarCode', fn='is_dual', ctx=[], params=IDX,
         ret='bool', calls={'cls.is_primal': 'planar_is_primal'}),
    dict(name='planar_bounds', file=M + 'planar/_planarcode.py', cls='PlanarCode', fn='bounds', ctx=RC, params=[],
         ret='ZZ', attrs={'self.size': '(rows, cols)'}),
    dict(name='planar_is_in_bounds', file=M + 'planar/_planarcode.py', cls='PlanarCode', fn='is_in_bounds', ctx=RC,
         params=IDX, ret='bool', attrs={'self.bounds': '(planar_bounds rows cols)'}),
    dict(name='planar_translation', file=M + 'planar/_planarcode.py', cls='PlanarCode', fn='translation', ctx=RC,
         params=AB, ret='ZZ', raises=True,
         calls={'self.is_plaquette': 'planar_is_plaquette', 'self.is_primal': 'planar_is_primal',
                'self.is_in_bounds': 'planar_is_in_bounds rows cols'}),
    dict(name='planar_virtual_plaquette_index', file=M + 'planar/_planarcode.py', cls='PlanarCode',
         fn='virtual_plaquette_index', ctx=RC, params=IDX, ret='ZZ', raises=True,
         attrs={'self.size': '(rows, cols)'},
         calls={'self.is_plaquette': 'planar_is_plaquette', 'self.is_primal': 'planar_is_primal'}),
    dict(name='planar_flatten', file=M + 'planar/_planarpauli.py', cls='PlanarPauli', fn='_flatten_site_index',
         ctx=RC, params=IDX, ret='Z', attrs={'self.code.size': '(rows, cols)'}),
    # ---- toric
    dict(name='toric_n_k_d', file=M + 'toric/_toriccode.py', cls='ToricCode', fn='n_k_d', ctx=RC, params=[],
         ret='ZZZ', attrs={'self.size': '(rows, cols)'}),
    dict(name='toric_translation', file=M + 'toric/_toriccode.py', cls='ToricCode', fn='translation', ctx=RC,
         params=[('a_index', 'ZZZ'), ('b_index', 'ZZZ')], ret='ZZ', raises=True,
         attrs={'self.shape': '(2, rows, cols)'}),
    # ---- rotated planar
    dict(name='rotplanar_n_k_d', file=M + 'rotatedplanar/_rotatedplanarcode.py', cls='RotatedPlanarCode', fn='n_k_d',
         ctx=RC, params=[], ret='ZZZ', attrs={'self.size': '(rows, cols)'}),
    dict(name='rotplanar_is_x_plaquette', file=M + 'rotatedplanar/_rotatedplanarcode.py', cls='RotatedPlanarCode',
         fn='is_x_plaquette', ctx=[], params=IDX, ret='bool'),
    dict(name='rotplanar_is_z_plaquette', file=M + 'rotatedplanar/_rotatedplanarcode.py', cls='RotatedPlanarCode',
         fn='is_z_plaquette', ctx=[], params=IDX, ret='bool', calls={'cls.is_x_plaquette': 'rotplanar_is_x_plaquette'}),
    dict(name='rotplanar_site_bounds', file=M + 'rotatedplanar/_rotatedplanarcode.py', cls='RotatedPlanarCode',
         fn='site_bounds', ctx=RC, params=[], ret='ZZ', attrs={'self.size': '(rows, cols)'}),
    dict(name='rotplanar_is_in_site_bounds', file=M + 'rotatedplanar/_rotatedplanarcode.py', cls='RotatedPlanarCode',
         fn='is_in_site_bounds', ctx=RC, params=IDX, ret='bool',
         attrs={'self.site_bounds': '(rotplanar_site_bounds rows cols)'}),
    dict(name='rotplanar_is_in_plaquette_bounds', file=M + 'rotatedplanar/_rotatedplanarcode.py',
         cls='RotatedPlanarCode', fn='is_in_plaquette_bounds', ctx=RC, params=IDX, ret='bool',
         attrs={'self.site_bounds': '(rotplanar_site_bounds rows cols)'}),
    dict(name='rotplanar_is_virtual_plaquette', file=M + 'rotatedplanar/_rotatedplanarcode.py',
         cls='RotatedPlanarCode', fn='is_virtual_plaquette', ctx=RC, params=IDX, ret='bool',
         attrs={'self.site_bounds': '(rotplanar_site_bounds rows cols)'},
         calls={'self.is_in_plaquette_bounds': 'rotplanar_is_in_plaquette_bounds rows cols'}),
    dict(name='rotplanar_flatten', file=M + 'rotatedplanar/_rotatedplanarpauli.py', cls='RotatedPlanarPauli',
         fn='_flatten_site_index', ctx=RC, params=IDX, ret='Z', attrs={'self.code.size': '(rows, cols)'}),
    # ---- rotated toric
    dict(name='rottoric_n_k_d', file=M + 'rotatedtoric/_rotatedtoriccode.py', cls='RotatedToricCode', fn='n_k_d',
         ctx=RC, params=[], ret='ZZZ', attrs={'self.size': '(rows, cols)'}),
    dict(name='rottoric_is_x_plaquette', file=M + 'rotatedtoric/_rotatedtoriccode.py', cls='RotatedToricCode',
         fn='is_x_plaquette', ctx=[], params=IDX, ret='bool'),
    dict(name='rottoric_is_z_plaquette', file=M + 'rotatedtoric/_rotatedtoriccode.py', cls='RotatedToricCode',
         fn='is_z_plaquette', ctx=[], params=IDX, ret='bool', calls={'cls.is_x_plaquette': 'rottoric_is_x_plaquette'}),
    dict(name='rottoric_bounds', file=M + 'rotatedtoric/_rotatedtoriccode.py', cls='RotatedToricCode', fn='bounds',
         ctx=RC, params=[], ret='ZZ', attrs={'self.size': '(rows, cols)'}),
    dict(name='rottoric_is_in_bounds', file=M + 'rotatedtoric/_rotatedtoriccode.py', cls='RotatedToricCode',
         fn='is_in_bounds', ctx=RC, params=IDX, ret='bool', attrs={'self.bounds': '(rottoric_bounds rows cols)'}),
    dict(name='rottoric_translation', file=M + 'rotatedtoric/_rotatedtoriccode.py', cls='RotatedToricCode',
         fn='translation', ctx=RC, params=AB, ret='ZZ', raises=True, attrs={'self.size': '(rows, cols)'},
         calls={'self.is_z_plaquette': 'rottoric_is_z_plaquette'}),
    dict(name='rottoric_flatten', file=M + 'rotatedtoric/_rotatedtoricpauli.py', cls='RotatedToricPauli',
         fn='_flatten_site_index', ctx=RC, params=IDX, ret='Z',
         attrs={'self.code.bounds': '(rottoric_bounds rows cols)'}),
    dict(name='rottoric_mod_index', file=M + 'rotatedtoric/_rotatedtoricpauli.py', cls='RotatedToricPauli',
         fn='_mod_index', ctx=RC, params=IDX, ret='ZZ', attrs={'self.code.bounds': '(rottoric_bounds rows cols)'}),
    # ---- colour 6.6.6 (its _flatten_site_index divides in floating point: modelled by hand, see Lattice/Color.v)
    dict(name='color_n_k_d', file=M + 'color/_color666code.py', cls='Color666Code', fn='n_k_d', ctx=[('size', 'Z')],
         params=[], ret='ZZZ', attrs={'self.size': 'size'}),
    dict(name='color_bound', file=M + 'color/_color666code.py', cls='Color666Code', fn='bound', ctx=[('size', 'Z')],
         params=[], ret='Z', attrs={'self.size': 'size'}),
    dict(name='color_is_plaquette', file=M + 'color/_color666code.py', cls='Color666Code', fn='is_plaquette', ctx=[],
         params=IDX, ret='bool'),
    dict(name='color_is_site', file=M + 'color/_color666code.py', cls='Color666Code', fn='is_site', ctx=[],
         params=IDX, ret='bool', calls={'cls.is_plaquette': 'color_is_plaquette'}),
    dict(name='color_is_in_bounds', file=M + 'color/_color666code.py', cls='Color666Code', fn='is_in_bounds',
         ctx=[('size', 'Z')], params=IDX, ret='bool', attrs={'self.bound': '(color_bound size)'}),
    dict(name='color_virtual_plaquette_index', file=M + 'color/_color666code.py', cls='Color666Code',
         fn='virtual_plaquette_index', ctx=[('size', 'Z')], params=IDX, ret='ZZ', raises=True,
         attrs={'self.bound': '(color_bound size)'}, calls={'self.is_plaquette': 'color_is_plaquette'}),
]

PRELUDE = '''(* GENERATED by harness/pyarith_translate.py from the current /repo source — do not edit.
   Python // and %% are Z.div and Z.modulo (floor division, remainder with the sign of the divisor). *)
From Coq Require Import ZArith Bool.
Open Scope Z_scope.
Definition mod2 (a b : Z * Z) : Z * Z := let '(a0, a1) := a in let '(b0, b1) := b in (a0 mod b0, a1 mod b1).
Definition mod3 (a b : Z * Z * Z) : Z * Z * Z :=
  let '(a0, a1, a2) := a in let '(b0, b1, b2) := b in (a0 mod b0, a1 mod b1, a2 mod b2).

'''


def translate(repo=REPO):
    sigs = {j['name']: j['ret'] for j in JOBS}
    out = [PRELUDE]
    meta = []
    trees = {}
    for j in JOBS:
        path = os.path.join(repo, j['file'])
        if path not in trees:
            trees[path] = ast.parse(open(path).read())
        f = find(trees[path], j['cls'], j['fn'])
        argnames = [a.arg for a in f.args.args if a.arg not in ('self', 'cls')]
        if argnames != [p for p, _ in j['params']]:
            raise Unsupported('%s: parameters changed: %s' % (j['name'], argnames))
        t = Tr(j, sigs)
        term = t.body(f.body)
        ps = ' '.join('(%s : %s)' % (p, TY[ty]) for p, ty in j['ctx'] + j['params'])
        rty = TY[j['ret']]
        if j.get('raises'):
            rty = 'option (%s)' % rty
        out.append('(* %s.%s  (%s)%s *)\nDefinition %s %s : %s :=\n  %s.\n' % (
            j['cls'], j['fn'], j['file'], ' ; %d assert(s) dropped' % t.asserts if t.asserts else '',
            j['name'], ps, rty, term))
        meta.append({'name': j['name'], 'source': '%s:%s.%s' % (j['file'], j['cls'], j['fn']),
                     'sha': hashlib.sha1(ast.unparse(f).encode()).hexdigest()[:12], 'asserts_dropped': t.asserts})
    return '\n'.join(out), meta


def main():
    try:
        text, meta = translate()
    except Unsupported as u:
        print('TRANSLATOR-UNSUPPORTED: %s' % u)
        return 2
    os.makedirs(os.path.dirname(OUT), exist_ok=True)
    os.makedirs(os.path.dirname(META), exist_ok=True)
    old = open(OUT).read() if os.path.exists(OUT) else None
    if old != text:
        open(OUT, 'w').write(text)
    json.dump({'functions': meta, 'changed': old != text}, open(META, 'w'), indent=1)
    print('translated %d functions%s' % (len(meta), '' if old == text else ' (output changed)'))
    return 0


if __name__ == '__main__':
    sys.exit(main())
