"""Planar code family: the C07 / C15 / C08 checks (called by harness/c07.py, c15.py, c08.py).

Each check_cXX(ctx)
  (b) runs the implementation and the extracted model `latpt` (Lattice/Planar.v) on the same inputs and
      compares canonical strings with ctx.cmp,
  (c) evaluates the property text directly on the implementation's matrices with independent Python code
      (ctx.violation with a replay dict on failure),
  (d) writes an in-kernel shard re-checking a sample of the correspondence by vm_compute.
The helpers at the top (hex rows, GF(2) rank, letter-level commutation, CSS minimum-distance search) are shared
with harness/lat_toric.py."""
import itertools

import numpy as np

from harness.common import exc_class, coq_bits, coq_list

FAMILY = 'planar'


# --------------------------------------------------------------------------------------------
# shared helpers
# --------------------------------------------------------------------------------------------
def hexrow(bits):
    """bit sequence -> hex string, MSB first, left-padded to a multiple of 4 bits ('-' when empty)."""
    n = len(bits)
    if n == 0:
        return '-'
    v = int(''.join('1' if int(b) else '0' for b in bits), 2)
    return '%0*x' % ((n + 3) // 4, v)


def hexrows(mat):
    return ','.join(hexrow(r) for r in mat) if len(mat) else '-'


def row_int(bits):
    return int(''.join('1' if int(b) else '0' for b in bits), 2) if len(bits) else 0


def gf2_rank(rows):
    """rank over GF(2) of a list of Python ints (bit masks)"""
    basis = {}  # leading bit -> vector
    rank = 0
    for v in rows:
        while v:
            h = v.bit_length() - 1
            if h in basis:
                v ^= basis[h]
            else:
                basis[h] = v
                rank += 1
                break
    return rank


def letter_matrix(M):
    """bsf matrix -> matrix of letter codes 0=I 1=X 2=Z 3=Y (own conversion, not paulitools)"""
    M = np.asarray(M)
    n = M.shape[1] // 2
    return (M[:, :n] + 2 * M[:, n:]).astype(np.int64)


def anti_matrix(A, B):
    """letter-level ground truth: entry (i,j) = parity of the number of qubits on which row i of A and row j of B
    carry two different non-identity letters"""
    LA, LB = letter_matrix(A), letter_matrix(B)
    nonA, nonB = (LA != 0).astype(np.float64), (LB != 0).astype(np.float64)
    cnt = nonA @ nonB.T
    for a in (1, 2, 3):
        cnt -= (LA == a).astype(np.float64) @ (LB == a).astype(np.float64).T
    return np.rint(cnt).astype(np.int64) % 2


def row_weight(b):
    b = np.asarray(b)
    n = len(b) // 2
    return int(np.count_nonzero(b[:n] | b[n:]))


def plain_int_tuple(t):
    return isinstance(t, tuple) and all(type(x) is int for x in t)


def code_conditions(ctx, fam, size, code, S, X, Z, expect_dep):
    """The C07 property evaluated on the implementation's matrices.  expect_dep = number of dependent rows
    among the published stabilizers (0 planar, 2 toric)."""
    from qecsim.error import QecsimError
    rep = {'family': fam, 'size': list(size)}
    nkd = code.n_k_d
    if not plain_int_tuple(nkd):
        ctx.violation(fam + '-nkd-type', 'n_k_d is not a tuple of plain ints', dict(rep, n_k_d=repr(nkd)))
    n, k, d = (int(x) for x in nkd)
    # shapes
    if S.ndim != 2 or X.ndim != 2 or Z.ndim != 2 or S.shape[1] != 2 * n or X.shape != (k, 2 * n) or Z.shape != (k, 2 * n) \
            or S.shape[0] != n - k + expect_dep:
        ctx.violation(fam + '-shapes', 'n, k disagree with the matrix shapes',
                      dict(rep, n_k_d=[n, k, d], stabilizers=list(S.shape), logical_xs=list(X.shape),
                           logical_zs=list(Z.shape)))
        return
    for name, M in (('stabilizers', S), ('logical_xs', X), ('logical_zs', Z)):
        if not np.array_equal(M % 2, M):
            ctx.violation(fam + '-binary', name + ' is not a binary matrix', rep)
            return
    if not np.array_equal(code.logicals, np.vstack([X, Z])):
        ctx.violation(fam + '-logicals', 'logicals is not logical_xs stacked on logical_zs', rep)
    # validate()
    try:
        code.validate()
    except QecsimError as e:
        ctx.violation(fam + '-validate', 'code.validate() raises: %s' % e, rep)
    # letter-level commutation conditions
    ss = anti_matrix(S, S)
    if ss.any():
        i, j = (int(v) for v in np.argwhere(ss)[0])
        ctx.violation(fam + '-stab-commute', 'two published stabilizers anticommute', dict(rep, rows=[i, j]))
    L = np.vstack([X, Z])
    sl = anti_matrix(S, L)
    if sl.any():
        i, j = (int(v) for v in np.argwhere(sl)[0])
        ctx.violation(fam + '-stab-logical', 'a stabilizer anticommutes with a logical', dict(rep, stabilizer=i, logical=j))
    ll = anti_matrix(L, L)
    want = np.zeros((2 * k, 2 * k), dtype=np.int64)
    for i in range(k):
        want[i, k + i] = want[k + i, i] = 1
    if not np.array_equal(ll, want):
        i, j = (int(v) for v in np.argwhere(ll != want)[0])
        ctx.violation(fam + '-logical-commute', 'logical X_i / Z_j do not anticommute exactly when i = j',
                      dict(rep, logicals=[i, j], got=int(ll[i, j])))
    # GF(2) ranks
    rs = [row_int(r) for r in S]
    rk = gf2_rank(rs)
    if rk != n - k:
        ctx.violation(fam + '-rank', 'stabilizer matrix has GF(2) rank %d, expected n-k = %d' % (rk, n - k), rep)
    rkl = gf2_rank(rs + [row_int(r) for r in L])
    if rkl != n + k:
        ctx.violation(fam + '-rank-logicals', 'stabilizers + logicals have rank %d, expected n+k = %d' % (rkl, n + k), rep)


CTOR_ARGS = [(-2, 'i:-2'), (-1, 'i:-1'), (0, 'i:0'), (1, 'i:1'), (2, 'i:2'), (3, 'i:3'), (10 ** 18, 'i:1000000000000000000'),
             (True, 'b:1'), (False, 'b:0'), (2.0, 'f'), (3.5, 'f'), (float('nan'), 'f'), ('3', 's'), ('', 's'), (None, 'n')]


def ctor_stream(ctx, fam, cls, req_name):
    """constructor argument stream: implementation vs the Gallina decision function and vs the documented rule"""
    lines, impl, args = [], [], []
    extra = [(np.int64(3), 'i:3'), (np.int64(1), 'i:1')]
    pool = CTOR_ARGS + extra
    for (a, ea) in pool:
        for (b, eb) in pool:
            try:
                cls(a, b)
                r = 'Ok'
            except Exception as e:  # noqa
                r = exc_class(e)
            lines.append('%s %s %s' % (req_name, ea, eb))
            impl.append(r)
            args.append((a, b))
            ok_doc = all(isinstance(v, (int, np.integer)) and v >= 2 for v in (a, b))
            ctx.count((fam, 'ctor', repr(a), repr(b)), True, fam + '-ctor',
                      {'family': fam, 'ctor_args': [repr(a), repr(b)], 'result': r} if (ea, eb) == ('i:1', 'f') else None)
            if ok_doc != (r == 'Ok') or (not ok_doc and r not in ('ValueError', 'TypeError')):
                ctx.violation(fam + '-ctor', 'constructor accepts/rejects against the documented range',
                              {'family': fam, 'args': [repr(a), repr(b)], 'result': r})
    # huge ints are ints: accepted
    try:
        cls(10 ** 30, 2)
    except Exception as e:  # noqa
        ctx.violation(fam + '-ctor', 'constructor rejects a huge int', {'family': fam, 'args': ['10**30', '2'],
                                                                       'result': exc_class(e)})
    out = ctx.model('latpt', lines)
    for l, i, m, a in zip(lines, impl, out, args):
        ctx.cmp(fam + ' ctor', {'args': [repr(a[0]), repr(a[1])]}, i, m)


def cmp_matrix(ctx, fn, size, impl_rows, model_field):
    """compare a matrix row by row (hex); on mismatch record the first differing row only"""
    impl = hexrows(impl_rows)
    if impl == model_field:
        return True
    ir, mr = impl.split(','), model_field.split(',')
    k = next((i for i in range(min(len(ir), len(mr))) if ir[i] != mr[i]), min(len(ir), len(mr)))
    ctx.cmp(fn, {'size': list(size), 'row': k, 'rows_impl': len(ir), 'rows_model': len(mr)},
            ir[k] if k < len(ir) else '<missing>', mr[k] if k < len(mr) else '<missing>')
    return False


def guarded(ctx, fam, size, body):
    """run the checks of one lattice size; an exception escaping from the implementation on a valid size is itself a
    concrete failing input"""
    import traceback
    try:
        body()
    except Exception as e:  # noqa
        ctx.violation(fam + '-raises', 'the implementation raised %s on a valid lattice size' % exc_class(e),
                      {'family': fam, 'size': list(size), 'error': repr(e)[:300], 'trace': traceback.format_exc()[-900:]})


def css_split(S):
    """rows of S as (type, support mask); None if some row mixes X and Z"""
    n = S.shape[1] // 2
    out = []
    for r in S:
        x, z = r[:n], r[n:]
        if x.any() and z.any():
            return None
        out.append(('X', row_int(x)) if x.any() else ('Z', row_int(z)))
    return out


def light_normalizers(n, checks, wmax, chunk=3000000):
    """All supports of weight 1..wmax (as tuples of qubit numbers) whose indicator vector has even overlap with
    every mask in `checks` (qubit q <-> bit n-1-q), and the number of supports enumerated.  Every one of the
    C(n,w) supports is visited: numpy level-wise extension by a larger qubit number, depth-first over chunks of
    parents so that memory stays bounded."""
    m = len(checks)
    assert m <= 63
    col = np.zeros(n, dtype=np.int64)
    for j, c in enumerate(checks):
        for q in range(n):
            if (c >> (n - 1 - q)) & 1:
                col[q] |= (1 << j)
    found = []
    total = [0]

    def children(idx, syn):
        last = idx[:, -1].astype(np.int64)
        reps = n - 1 - last
        parent = np.repeat(np.arange(len(idx)), reps)
        offs = np.arange(len(parent)) - np.repeat(np.cumsum(reps) - reps, reps)
        newq = np.repeat(last + 1, reps) + offs
        return parent, newq, syn[parent] ^ col[newq]

    def rec(idx, syn, w):
        """idx: supports of weight w (rows), syn: their syndromes; already counted and scanned"""
        if w == wmax or len(idx) == 0:
            return
        reps = n - 1 - idx[:, -1].astype(np.int64)
        tot = int(reps.sum())
        if tot > chunk and len(idx) > 1:
            k = min(len(idx), tot // chunk + 1)
            for part_i, part_s in zip(np.array_split(idx, k), np.array_split(syn, k)):
                rec(part_i, part_s, w)
            return
        parent, newq, nsyn = children(idx, syn)
        total[0] += len(nsyn)
        for h in np.nonzero(nsyn == 0)[0]:
            found.append(tuple(int(q) for q in idx[parent[h]]) + (int(newq[h]),))
        if w + 1 < wmax:
            rec(np.concatenate([idx[parent], newq.astype(np.int16).reshape(-1, 1)], axis=1), nsyn, w + 1)

    if wmax >= 1:
        idx = np.arange(n, dtype=np.int16).reshape(-1, 1)
        syn = col.copy()
        total[0] += n
        for h in np.nonzero(syn == 0)[0]:
            found.append((int(h),))
        rec(idx, syn, 1)
    return found, total[0]


def distance_search(ctx, fam, size, code):
    """C08 on the implementation's matrices: no nontrivial normalizer element lighter than the advertised d, a
    logical of weight d exists, supplied logicals are not lighter than d.  Uses the CSS structure (verified on the
    matrices first): X-type and Z-type supports separately."""
    S, X, Z = code.stabilizers, code.logical_xs, code.logical_zs
    n, k, d = (int(v) for v in code.n_k_d)
    rep = {'family': fam, 'size': list(size), 'n_k_d': [n, k, d]}
    split = css_split(S)
    if split is None or S.shape[1] != 2 * n:
        ctx.cmp(fam + ' css-structure', rep, 'stabilizers are not CSS / wrong width', 'CSS generators of width 2n')
        return 0
    sx = [m for (t, m) in split if t == 'X']
    sz = [m for (t, m) in split if t == 'Z']
    full = [row_int(r) for r in S]
    rank_s = gf2_rank(full)
    evals = 0
    # supplied logicals: not lighter than d; each is a nontrivial normalizer element
    lightest = None
    for name, M in (('logical_xs', X), ('logical_zs', Z)):
        for i, l in enumerate(M):
            w = row_weight(l)
            if w < d:
                ctx.violation(fam + '-logical-lighter', 'supplied %s[%d] has weight %d < advertised d = %d' % (name, i, w, d),
                              dict(rep, operator=hexrow(l)))
            normal = not anti_matrix(np.array([l]), S).any()
            nontriv = gf2_rank(full + [row_int(l)]) == rank_s + 1
            if normal and nontriv and (lightest is None or w < lightest):
                lightest = w
    # lower bound: every normalizer element of weight < d is a product of stabilizers
    # (when a supplied non-trivial logical is already lighter than d the search stops below its weight)
    wmax = min(d, lightest if lightest is not None else d) - 1
    for typ, checks, gens in (('X', sz, sx), ('Z', sx, sz)):
        found, total = light_normalizers(n, checks, wmax)
        evals += total
        rk = gf2_rank(gens)
        for sup in found:
            v = 0
            for q in sup:
                v |= 1 << (n - 1 - q)
            if gf2_rank(gens + [v]) != rk:
                ctx.violation(fam + '-distance-lower',
                              'a non-trivial %s-type logical of weight %d < advertised d = %d exists' % (typ, len(sup), d),
                              dict(rep, type=typ, qubits=list(sup)))
                break
    # upper bound: a logical of weight exactly d exists
    if lightest is None or lightest > d:
        ok = False
        for typ, checks, gens in (('X', sz, sx), ('Z', sx, sz)):
            found, total = light_normalizers(n, checks, d)
            evals += total
            rk = gf2_rank(gens)
            if any(len(sup) == d and gf2_rank(gens + [sum(1 << (n - 1 - q) for q in sup)]) != rk for sup in found):
                ok = True
                break
        if not ok:
            ctx.violation(fam + '-distance-upper', 'no non-trivial logical of weight d = %d found (true distance is larger)' % d, rep)
    return evals


def search_cost(n, d):
    import math
    return 2 * sum(math.comb(n, w) for w in range(1, d))


# --------------------------------------------------------------------------------------------
# planar specifics
# --------------------------------------------------------------------------------------------
def idx_s(i):
    return ':'.join(str(int(v)) for v in i)


def all_sites(R, C):
    return [(r, c) for r in range(2 * R - 1) for c in range(2 * C - 1) if (r + c) % 2 == 0]


def all_plaquettes(R, C):
    """independent enumeration: primal (odd row) in row-major order, then dual"""
    pl = [(r, c) for r in range(2 * R - 1) for c in range(2 * C - 1) if (r + c) % 2 == 1]
    return [p for p in pl if p[0] % 2 == 1] + [p for p in pl if p[0] % 2 == 0]


def sizes_upto(lo, hi):
    return [(r, c) for r in range(lo, hi + 1) for c in range(lo, hi + 1)]


def check_c07(ctx):
    from qecsim.models.planar import PlanarCode
    rng = ctx.rng
    fam = FAMILY
    smax = ctx.pick(10, 16)
    sizes = sizes_upto(2, smax)
    lines = ['pcode %d %d' % s for s in sizes]
    out = ctx.model('latpt', lines)
    kern = []
    for size, reply in zip(sizes, out):
        def body(size=size, reply=reply):
            R, C = size
            code = PlanarCode(R, C)
            S, X, Z = code.stabilizers, code.logical_xs, code.logical_zs
            f = reply.split(' ')
            ok = len(f) == 6
            if ok:
                ok &= ctx.cmp(fam + ' n_k_d', {'size': list(size)}, ','.join(str(v) for v in code.n_k_d), f[0])
                ok &= cmp_matrix(ctx, fam + ' stabilizers', size, S, f[1])
                ok &= cmp_matrix(ctx, fam + ' logical_xs', size, X, f[2])
                ok &= cmp_matrix(ctx, fam + ' logical_zs', size, Z, f[3])
            else:
                ctx.cmp(fam + ' pcode', {'size': list(size)}, '<6 fields>', reply[:200])
            if code.label != 'Planar %dx%d' % size or repr(code) != 'PlanarCode(%d, %d)' % size or code.size != size:
                ctx.violation(fam + '-label', 'label / repr / size do not name the lattice size',
                              {'family': fam, 'size': list(size), 'label': code.label, 'repr': repr(code)})
            code_conditions(ctx, fam, size, code, S, X, Z, 0)
            # flatten is a bijection from the in-bounds sites onto range(n): site('X', s) is one-hot at a distinct place
            n = int(code.n_k_d[0])
            seen = {}
            for s in all_sites(R, C):
                b = code.new_pauli().site('X', s).to_bsf()
                nz = np.nonzero(b)[0]
                if len(b) != 2 * n or len(nz) != 1 or nz[0] >= n or int(nz[0]) in seen:
                    ctx.violation(fam + '-flatten', 'site index -> qubit is not a bijection onto range(n)',
                                  {'family': fam, 'size': list(size), 'site': list(s), 'bsf_nonzero': [int(v) for v in nz],
                                   'clashes_with': seen.get(int(nz[0])) if len(nz) == 1 else None})
                    break
                seen[int(nz[0])] = list(s)
            else:
                if sorted(seen) != list(range(n)):
                    ctx.violation(fam + '-flatten', 'sites do not cover range(n)', {'family': fam, 'size': list(size),
                                                                                    'sites': len(seen), 'n': n})
            ctx.count((fam, size), R != C or min(R, C) == 2, fam + '-size',
                      {'family': fam, 'size': list(size), 'n_k_d': list(code.n_k_d), 'stabilizer[0]': hexrow(S[0])}
                      if size == (2, 3) else None)
            if n <= 60 and (size in ((2, 2), (2, 5), (4, 3)) or rng.random() < 0.08) and len(kern) < 8:
                kern.append((size, S, X, Z))
        guarded(ctx, fam, size, body)

    # ---- new_pauli().site / plaquette / operator / to_bsf on every index of every size <= 7 (with a margin) ----
    req, exp = [], []
    for size in sizes_upto(2, 7):
        def body(size=size):
            R, C = size
            code = PlanarCode(R, C)
            n = int(code.n_k_d[0])
            grid = [(r, c) for r in range(-2, 2 * R + 1) for c in range(-2, 2 * C + 1)]
            gs = ','.join(idx_s(i) for i in grid)

            def call(f):
                try:
                    return f()
                except IndexError:
                    return 'E'
                except Exception as e:  # noqa
                    return 'ERR ' + exc_class(e)
            for op in 'XYZ':
                got = [call(lambda: hexrow(code.new_pauli().site(op, i).to_bsf())) for i in grid]
                req.append('psite %d %d %s %s' % (R, C, op, gs))
                exp.append((fam + ' site', {'size': list(size), 'op': op}, ','.join(got)))
            got = [call(lambda: hexrow(code.new_pauli().plaquette(i).to_bsf())) for i in grid]
            req.append('pplaq %d %d %s' % (R, C, gs))
            exp.append((fam + ' plaquette', {'size': list(size)}, ','.join(got)))
            b = np.array([rng.randint(0, 1) for _ in range(2 * n)])
            p = code.new_pauli(b)
            got = [call(lambda: p.operator(i)) for i in grid]
            req.append('pop %d %d %d %s %s' % (R, C, 2 * n, hexrow(b), gs))
            exp.append((fam + ' operator', {'size': list(size), 'bsf': hexrow(b)}, ','.join(got)))
            # directly: to_bsf / operator / site agree through the index map
            if not np.array_equal(p.to_bsf(), b):
                ctx.violation(fam + '-to_bsf', 'new_pauli(bsf).to_bsf() != bsf', {'family': fam, 'size': list(size), 'bsf': hexrow(b)})
            for s in all_sites(R, C):
                one = code.new_pauli().site('X', s).to_bsf()
                q = int(np.nonzero(one)[0][0]) if one.any() else -1
                want = 'IXZY'[int(b[q]) + 2 * int(b[n + q])] if 0 <= q < n else '?'
                if p.operator(s) != want:
                    ctx.violation(fam + '-site-access', 'operator(site) disagrees with the bsf entry that site() toggles',
                                  {'family': fam, 'size': list(size), 'site': list(s), 'bsf': hexrow(b)})
                    break
                for op in 'XYZ':
                    if code.new_pauli().site(op, s).operator(s) != op:
                        ctx.violation(fam + '-site-access', 'operator(site) after site(op, site) is not op',
                                      {'family': fam, 'size': list(size), 'site': list(s), 'op': op})
            ctx.count((fam, 'pauli', size), R != C or min(R, C) == 2, fam + '-pauli-api', n=5 * len(grid))
        guarded(ctx, fam, size, body)
    out = ctx.model('latpt', req)
    for (fn, inp, impl), m in zip(exp, out):
        if impl != m:
            a, bb = impl.split(','), m.split(',')
            k = next((i for i in range(min(len(a), len(bb))) if a[i] != bb[i]), 0)
            ctx.cmp(fn, dict(inp, position=k), a[k] if k < len(a) else '', bb[k] if k < len(bb) else '')

    # ---- constructor argument stream ----
    ctor_stream(ctx, fam, PlanarCode, 'pctor')

    # ---- in-kernel shard ----
    items = []
    for (size, S, X, Z) in kern:
        def mat(M):
            return coq_list([coq_bits(row.tolist()) for row in M])
        items.append('(let c := planar_code %d %d in beqm (stabs c) %s && beqm (lxs c) %s && beqm (lzs c) %s)'
                     % (size[0], size[1], mat(S), mat(X), mat(Z)))
    text = ('From Coq Require Import List Bool ZArith NArith.\nFrom QV Require Import Core.Bits Core.Code Lattice.Planar.\n'
            'Import ListNotations.\nOpen Scope Z_scope.\nOpen Scope bool_scope.\n'
            'Definition checks : list bool :=\n [' + ';\n  '.join(items) + '].\n'
            'Example corr : forallb (fun b => b) checks = true.\nProof. vm_compute. reflexivity. Qed.\n')
    ctx.kernel_cases('planar_codes', text)
    ctx.extra['kernel_cases_planar'] = len(items)


def planar_plaquette_sets(code):
    """real plaquettes (own enumeration) and the boundary-virtual ones the implementation names for them"""
    R, C = code.size
    real = all_plaquettes(R, C)
    virt = []
    for p in real:
        v = tuple(int(x) for x in code.virtual_plaquette_index(p))
        if v not in virt:
            virt.append(v)
    return real, virt


def check_c15(ctx):
    from qecsim.models.planar import PlanarCode, PlanarMWPMDecoder
    rng = ctx.rng
    fam = FAMILY
    smax = ctx.pick(6, 9)
    kern = []
    req, exp = [], []
    for size in sizes_upto(2, smax):
        def body(size=size):
            R, C = size
            code = PlanarCode(R, C)
            n = int(code.n_k_d[0])
            S = code.stabilizers
            rep = {'family': fam, 'size': list(size)}
            real, virt = planar_plaquette_sets(code)
            inb = set(real)
            # -- plaquette operators have the documented support; syndrome bit i maps back to plaquette i
            sites = all_sites(R, C)
            row_of = {}
            for p in real:
                pp = code.new_pauli().plaquette(p)
                letter = 'Z' if p[0] % 2 == 1 else 'X'
                nb = {(p[0] - 1, p[1]), (p[0] + 1, p[1]), (p[0], p[1] - 1), (p[0], p[1] + 1)}
                if any(pp.operator(s) != (letter if s in nb else 'I') for s in sites):
                    ctx.violation(fam + '-plaquette-support', 'plaquette operator does not have the documented support',
                                  dict(rep, plaquette=list(p)))
                row_of[p] = hexrow(pp.to_bsf())
            if len(S) != len(real):
                ctx.violation(fam + '-syndrome-map', 'number of stabilizers != number of plaquettes', rep)
                return
            pidx = []
            for i in range(len(S)):
                e = np.zeros(len(S), dtype=int)
                e[i] = 1
                got = code.syndrome_to_plaquette_indices(e)
                g = [tuple(int(v) for v in t) for t in got]
                if len(g) != 1 or g[0] not in row_of or row_of[g[0]] != hexrow(S[i]):
                    ctx.violation(fam + '-syndrome-map', 'syndrome bit i does not map back to the plaquette of stabilizer i',
                                  dict(rep, bit=i, got=[list(t) for t in g]))
                    pidx.append(None)
                else:
                    pidx.append(g[0])
            if None in pidx:
                return
            # -- random syndromes through syndrome_to_plaquette_indices (model comparison)
            for _ in range(3):
                syn = np.array([rng.randint(0, 1) for _ in range(len(S))])
                got = sorted(tuple(int(v) for v in t) for t in code.syndrome_to_plaquette_indices(syn))
                req.append('psynd %d %d %s' % (R, C, ''.join(str(int(v)) for v in syn)))
                exp.append((fam + ' syndrome_to_plaquette_indices', dict(rep, syndrome=''.join(str(int(v)) for v in syn)),
                            ','.join(idx_s(t) for t in got) if got else '-', 'sortidx'))
                if set(got) != {pidx[i] for i in range(len(S)) if syn[i]}:
                    ctx.violation(fam + '-syndrome-map', 'syndrome_to_plaquette_indices is not the set of flagged plaquettes', rep)
            # -- virtual plaquettes (model comparison on a margin grid; direct: just outside the nearer boundary)
            grid = [(r, c) for r in range(-3, 2 * R + 2) for c in range(-3, 2 * C + 2)]

            def vcall(i):
                try:
                    return idx_s(code.virtual_plaquette_index(i))
                except IndexError:
                    return 'E'
            req.append('pvirt %d %d %s' % (R, C, ','.join(idx_s(i) for i in grid)))
            exp.append((fam + ' virtual_plaquette_index', rep, ','.join(vcall(i) for i in grid), None))
            for p in real:
                v = tuple(int(x) for x in code.virtual_plaquette_index(p))
                if p[0] % 2 == 1:   # primal: north / south, ties to north
                    dn, ds = (p[0] + 1) // 2, (2 * R - 1 - p[0]) // 2
                    want = (-1, p[1]) if dn <= ds else (2 * R - 1, p[1])
                else:
                    dw, de = (p[1] + 1) // 2, (2 * C - 1 - p[1]) // 2
                    want = (p[0], -1) if dw <= de else (p[0], 2 * C - 1)
                if v != want:
                    ctx.violation(fam + '-virtual', 'virtual plaquette is not just outside the nearer boundary (ties north/west)',
                                  dict(rep, plaquette=list(p), got=list(v), want=list(want)))
            # -- all ordered pairs of same-type plaquettes, real and virtual
            Sx, Sz = S[:, :n].astype(np.int64), S[:, n:].astype(np.int64)
            for typ in (1, 0):
                nodes = [p for p in real + virt if p[0] % 2 == typ]
                pairs = [(a, b) for a in nodes for b in nodes]
                bsfs, got = [], []
                for (a, b) in pairs:
                    try:
                        pb = code.new_pauli().path(a, b).to_bsf()
                        t = code.translation(a, b)
                        dist = PlanarMWPMDecoder.distance(code, a, b)
                        got.append('%s;%d:%d;%d' % (hexrow(pb), t[0], t[1], dist))
                        bsfs.append(pb)
                        if not (plain_int_tuple(t) and type(dist) is int):
                            ctx.violation(fam + '-translation-type', 'translation / distance are not plain ints', dict(rep, a=list(a), b=list(b)))
                    except Exception as e:  # noqa
                        got.append('E' if isinstance(e, IndexError) else 'ERR ' + exc_class(e))
                        bsfs.append(np.zeros(2 * n, dtype=int))
                        ctx.violation(fam + '-path-raises', 'path/translation/distance raises on a same-type pair',
                                      dict(rep, a=list(a), b=list(b), error=exc_class(e)))
                for k0 in range(0, len(pairs), 400):
                    chunk = pairs[k0:k0 + 400]
                    req.append('ppath %d %d %s' % (R, C, ','.join(idx_s(a) + '>' + idx_s(b) for a, b in chunk)))
                    exp.append((fam + ' path;translation;distance', dict(rep, pairs=[[list(a), list(b)] for a, b in chunk]),
                                ','.join(got[k0:k0 + 400]), 'pairs'))
                # direct: syndrome of every path (own symplectic product), weight, translation
                P = np.array(bsfs, dtype=np.int64)
                syn = (P[:, :n] @ Sz.T + P[:, n:] @ Sx.T) % 2
                wts = np.count_nonzero(P[:, :n] | P[:, n:], axis=1)
                for j, (a, b) in enumerate(pairs):
                    want = np.array([1 if ((pidx[i] == a) != (pidx[i] == b)) else 0 for i in range(len(S))]) \
                        if (a in inb or b in inb) else np.zeros(len(S), dtype=int)
                    nontriv = (a[0] != b[0] and a[1] != b[1]) or (a not in inb) or (b not in inb)
                    ctx.count((fam, size, a, b), nontriv, fam + ('-pair-real' if a in inb and b in inb else '-pair-virtual'),
                              dict(rep, a=list(a), b=list(b), path=got[j]) if (size, a, b) == ((3, 4), (1, 0), (3, 4)) else None)
                    if got[j].startswith('E'):
                        continue
                    if not np.array_equal(syn[j], want):
                        ctx.violation(fam + '-path-syndrome', 'path(a,b) does not anticommute with exactly the in-lattice endpoints',
                                      dict(rep, a=list(a), b=list(b), syndrome=''.join(str(int(v)) for v in syn[j]),
                                           want=''.join(str(int(v)) for v in want)))
                    t = code.translation(a, b)
                    t2 = code.translation(b, a)
                    dist = abs(t[0]) + abs(t[1])
                    if a == b and P[j].any():
                        ctx.violation(fam + '-path-identity', 'path(a,a) is not the identity', dict(rep, a=list(a)))
                    if a in inb and b in inb:
                        if wts[j] != dist or PlanarMWPMDecoder.distance(code, a, b) != dist:
                            ctx.violation(fam + '-path-weight', 'weight of path != decoder distance for a real pair',
                                          dict(rep, a=list(a), b=list(b), weight=int(wts[j]), distance=int(dist)))
                    elif wts[j] > PlanarMWPMDecoder.distance(code, a, b):
                        ctx.violation(fam + '-path-weight', 'weight of path > decoder distance with a virtual end',
                                      dict(rep, a=list(a), b=list(b), weight=int(wts[j])))
                    if (abs(t[0]), abs(t[1])) != (abs(t2[0]), abs(t2[1])):
                        ctx.violation(fam + '-translation-symmetry', 'translation(a,b) and translation(b,a) differ in length',
                                      dict(rep, a=list(a), b=list(b), ab=list(t), ba=list(t2)))
                    if (a in inb or b in inb) and (a[0] + 2 * t[0], a[1] + 2 * t[1]) != b:
                        ctx.violation(fam + '-translation-leads', 'translation(a,b) does not lead from a to b',
                                      dict(rep, a=list(a), b=list(b), translation=list(t)))
                    if a not in inb and b not in inb and tuple(t) != (0, 0):
                        ctx.violation(fam + '-translation-leads', 'translation between two virtual plaquettes is not (0, 0)',
                                      dict(rep, a=list(a), b=list(b), translation=list(t)))
                    if n <= 40 and len(kern) < 150 and rng.random() < 0.01:
                        kern.append((size, a, b, P[j].tolist()))
            # mixed-type and non-plaquette arguments raise IndexError (model: None)
            bad = [((1, 0), (0, 1)), ((0, 0), (1, 0)), ((1, 0), (2, 2)), ((0, 1), (1, 2))]
            got = []
            for (a, b) in bad:
                try:
                    code.new_pauli().path(a, b)
                    got.append('accepted')
                except IndexError:
                    got.append('E')
                ctx.count((fam, size, a, b, 'bad'), True, fam + '-pair-invalid')
            req.append('ppath %d %d %s' % (R, C, ','.join(idx_s(a) + '>' + idx_s(b) for a, b in bad)))
            exp.append((fam + ' path (invalid pair)', rep, ','.join(got), None))
        guarded(ctx, fam, size, body)
    out = ctx.model('latpt', req)
    for (fn, inp, impl, mode), m in zip(exp, out):
        if mode == 'sortidx':
            m = ','.join(idx_s(t) for t in sorted(tuple(int(v) for v in s.split(':')) for s in m.split(','))) if m != '-' else '-'
        if impl != m:
            a, b = impl.split(','), m.split(',')
            k = next((i for i in range(min(len(a), len(b))) if a[i] != b[i]), 0)
            inp2 = dict(inp)
            if mode == 'pairs':
                inp2['pair'] = inp['pairs'][k] if k < len(inp['pairs']) else None
                del inp2['pairs']
            ctx.cmp(fn, inp2, a[k] if k < len(a) else '', b[k] if k < len(b) else '')
    # ---- in-kernel shard: sampled paths ----
    items = []
    for (size, a, b, bits) in kern:
        items.append('(match path %d %d (%d, %d) (%d, %d) (new_pauli %d %d) with Some p => beqv (p_to_bsf p) %s | None => false end)'
                     % (size[0], size[1], a[0], a[1], b[0], b[1], size[0], size[1], coq_bits(bits)))
    text = ('From Coq Require Import List Bool ZArith NArith.\nFrom QV Require Import Core.Bits Core.Code Lattice.Planar.\n'
            'Import ListNotations.\nOpen Scope Z_scope.\nOpen Scope bool_scope.\n'
            'Definition checks : list bool :=\n [' + ';\n  '.join(items) + '].\n'
            'Example corr : forallb (fun b => b) checks = true.\nProof. vm_compute. reflexivity. Qed.\n')
    ctx.kernel_cases('planar_paths', text)
    ctx.extra['kernel_cases_planar'] = len(items)


def c08_sizes(ctx, n_of, d_of, lo=2, hi=None):
    """sizes whose exhaustive search fits the tier's budget, non-square included"""
    budget = ctx.pick(3.5e7, 1e9)
    hi = hi or ctx.pick(7, 9)
    out = []
    for r in range(lo, hi + 1):
        for c in range(lo, hi + 1):
            if search_cost(n_of(r, c), d_of(r, c)) <= budget:
                out.append((r, c))
    return out


def check_c08(ctx):
    from qecsim.models.planar import PlanarCode
    fam = FAMILY
    sizes = c08_sizes(ctx, lambda r, c: r * c + (r - 1) * (c - 1), min)
    lines = ['pcode %d %d' % s for s in sizes]
    out = ctx.model('latpt', lines)
    for size, reply in zip(sizes, out):
        def body(size=size, reply=reply):
            code = PlanarCode(*size)
            ctx.cmp(fam + ' n_k_d', {'size': list(size)}, ','.join(str(v) for v in code.n_k_d), reply.split(' ')[0])
            ev = distance_search(ctx, fam, size, code)
            d = int(code.n_k_d[2])
            ctx.count((fam, size), size[0] != size[1] or d >= 3, fam + '-distance', {'family': fam, 'size': list(size), 'n_k_d': list(code.n_k_d),
                                                                            'supports_enumerated': ev} if size == (3, 4) else None,
                      n=max(1, ev))
        guarded(ctx, fam, size, body)
