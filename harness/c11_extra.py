"""Extra C11 check added after a seeded change was missed: histories on the SAME network object — contract and
transpose, modify a tensor in place, contract and transpose again.  Every value must be the exact contraction value
of the network as it is at that moment (integer entries, so float arithmetic is exact)."""
import itertools
import json

import numpy as np


def brute(tn):
    """exact value by einsum over all bonds; tn: object array (rows x cols) of int-valued float arrays (n,e,s,w)"""
    R, C = tn.shape
    letters = iter('abcdefghijklmnopqrstuvwxyzABCDEFGHIJKLMNOPQRSTUVWXYZ')
    h = {}   # bond between (r,c) east and (r,c+1) west
    v = {}   # bond between (r,c) south and (r+1,c) north
    ops, subs = [], []
    for r in range(R):
        for c in range(C):
            t = tn[r, c]
            n = v[(r - 1, c)] if r > 0 else next(letters)
            e = h.setdefault((r, c), next(letters))
            s_ = v.setdefault((r, c), next(letters))
            w = h[(r, c - 1)] if c > 0 else next(letters)
            ops.append(np.asarray(t, dtype=object).astype(np.int64))
            subs.append(n + e + s_ + w)
    return int(np.einsum(','.join(subs) + '->', *ops))


def run(ctx):
    from qecsim import tensortools as tt
    rng = ctx.rng

    def value(x):
        return int(round(float(x)))
    for trial in range(ctx.pick(40, 300)):
        R, C = rng.randint(1, 3), rng.randint(1, 3)
        tn = np.empty((R, C), dtype=object)
        hb = [[rng.randint(1, 2) for _ in range(C - 1)] for _ in range(R)]
        vb = [[rng.randint(1, 2) for _ in range(C)] for _ in range(R - 1)]
        for r in range(R):
            for c in range(C):
                shape = (vb[r - 1][c] if r > 0 else 1, hb[r][c] if c < C - 1 else 1, vb[r][c] if r < R - 1 else 1,
                         hb[r][c - 1] if c > 0 else 1)
                tn[r, c] = np.array([[rng.randint(-3, 3) for _ in range(int(np.prod(shape)))]], dtype=np.float64).reshape(shape)
        hist = []
        ok = True
        for step in range(rng.randint(2, 5)):
            want = brute(tn)
            got = {}
            got['contract'] = value(tt.mps2d.contract(tn))
            got['reverse'] = value(tt.mps2d.contract(tn, step=-1))
            got['transposed'] = value(tt.mps2d.contract(tt.mps2d.transpose(tn)))
            hist.append('read')
            ctx.count(('c11-history', trial, step), step > 0, 'network-object-history',
                      {'shape': [R, C], 'history': list(hist), 'value': want} if len(ctx.samples) < 8 else None)
            badk = [k for k, g in got.items() if g != want]
            if badk:
                ctx.violation('history-value', 'contraction of a network that was modified in place after an earlier '
                              'contract/transpose is not its exact value (%s)' % ', '.join(badk),
                              {'shape': [R, C], 'history': hist, 'exact': want, 'got': got,
                               'tensors': [[tn[r, c].tolist() for c in range(C)] for r in range(R)]})
                ok = False
                break
            # modify one tensor in place (same array object)
            r, c = rng.randrange(R), rng.randrange(C)
            t = tn[r, c]
            idx = tuple(rng.randrange(d) for d in t.shape)
            if rng.random() < 0.5:
                t[idx] += rng.choice([-2, -1, 1, 2, 5])
            else:
                t[...] = np.array([rng.randint(-3, 3) for _ in range(t.size)], dtype=np.float64).reshape(t.shape)
            hist.append('modify (%d,%d)' % (r, c))
        if not ok:
            continue


# =================================================================================================================
# Round-3 strengthening: histories of read-only operations on ONE caller-owned network object, in two input regimes
# that the main generator does not reach:
#   (a) WIDE MAGNITUDES: per-tensor power-of-two scales 2^k with |k| up to ~900 that compensate each other so that the
#       overall value is of order one, on networks padded with None at column / row ends;
#   (b) LARGE BOND DIMENSIONS on tiny networks: one vertical (or, transposed, horizontal) bond of dimension D crossing
#       powers of two up to 2^12..2^14, merged bonds up to ~10^5.
# In both regimes float arithmetic stays exact (integer mantissas whose every partial sum is below 2^53, times a power
# of two that is checked to stay inside the binary64 exponent range for every product a column sweep, a row sweep or a
# ladder can form), so every value is compared with `==` against the exact value = integer contraction of the
# mantissas (two independent evaluations) times 2^(sum of k).  After EVERY operation the caller's tensors must be
# bit-identical to a deep copy taken before the first operation and the grid must hold the same objects.

NOOP_KINDS = ('none', 'chi-big', 'tol-zero', 'mask-false')
SCALE_LO, SCALE_HI = -1000, 960   # binary exponent window for mantissa(<2^53) * 2^scale: normal, finite


def _noop_kwargs(kind, shape):
    if kind == 'none':
        return {}
    if kind == 'chi-big':
        return {'chi': 10 ** 7, 'tol': 0.0}
    if kind == 'tol-zero':
        return {'tol': 0}
    if kind == 'mask-false':
        return {'chi': 1, 'tol': 0.5, 'mask': np.zeros(shape, dtype=bool)}
    raise ValueError(kind)


def build_arrays(net):
    """fresh caller-owned network: object grid of float64 arrays mantissa * 2^k (exact, np.ldexp)"""
    if hasattr(net, 'build'):      # graded networks (harness/c11_graded.py): per-entry powers of two
        return net.build()
    tn = np.empty((net.R, net.C), dtype=object)
    for r in range(net.R):
        for c in range(net.C):
            m = net.mant[r][c]
            tn[r, c] = None if m is None else np.ldexp(m.astype(np.float64), int(net.k[r][c]))
    return tn


def exact_mantissa_value(net):
    """exact integer contraction value of the mantissas, evaluated twice independently (float einsum inside the
    exactness regime via Net.einsum_value on the unscaled mantissas, and an int64 einsum written here)"""
    from harness.c11 import Net
    flat = Net(net.R, net.C, net.mant, [[0] * net.C for _ in range(net.R)])
    v1 = flat.einsum_value()
    if v1 != int(v1):
        raise RuntimeError('mantissa einsum is not an integer')
    # independent: int64 einsum with explicit letters
    letters = iter('abcdefghijklmnopqrstuvwxyzABCDEFGHIJKLMNOPQRSTUVWXYZ')
    hl, vl, ops, subs = {}, {}, [], []
    for r in range(net.R):
        for c in range(net.C):
            m = net.mant[r][c]
            if m is None:
                continue
            sub = ''
            sel = []
            for leg, (key, store) in enumerate((((r - 1, c), vl), ((r, c), hl), ((r, c), vl), ((r, c - 1), hl))):
                rr, cc = key
                nb = {0: (r - 1, c), 1: (r, c + 1), 2: (r + 1, c), 3: (r, c - 1)}[leg]
                inside = 0 <= nb[0] < net.R and 0 <= nb[1] < net.C and net.mant[nb[0]][nb[1]] is not None
                if inside:
                    if key not in store:
                        store[key] = next(letters)
                    sub += store[key]
                    sel.append(slice(None))
                else:
                    sel.append(0)
            ops.append(np.asarray(m[tuple(sel)], dtype=np.int64))
            subs.append(sub)
    n = len(ops)
    # explicit path (fold the sites in row-major order): bounded cost, unlike numpy's path search
    path = False if n <= 2 else ['einsum_path', (0, 1)] + [(0, n - 1 - i) for i in range(1, n - 1)]
    v2 = int(np.einsum(','.join(subs) + '->', *ops, optimize=path)) if ops else None
    if v2 != int(v1):
        raise RuntimeError('the two exact oracles disagree (harness error): %r vs %r' % (v1, v2))
    return v2


def exactness_bound(net):
    bound = 1
    for row in net.mant:
        for m in row:
            if m is not None:
                bound *= max(1, int(np.abs(m).max()))
    for (_a, _b, d) in net.bonds():
        bound *= d
    return bound


def scales_in_range(net):
    """every product that a column sweep (any contiguous column range per row, then the ladder down the rows) or a
    row sweep of the transposed network can form has its power-of-two scale inside [SCALE_LO, SCALE_HI]"""
    K = [[net.k[r][c] if net.mant[r][c] is not None else 0 for c in range(net.C)] for r in range(net.R)]
    KT = [list(col) for col in zip(*K)]

    def intervals_ok(seq):
        for i in range(len(seq)):
            s = 0
            for j in range(i, len(seq)):
                s += seq[j]
                if not SCALE_LO <= s <= SCALE_HI:
                    return False
        return True
    for grid in (K, KT):
        if not all(intervals_ok(row) for row in grid):
            return False
        if not intervals_ok([sum(row) for row in grid]):
            return False
    return True


class History:
    """operations on one caller-owned network object; every value is an exact Fraction (or an 'ERR ...' string)"""

    def __init__(self, tt, tn):
        from harness.c11 import to_frac
        self.tt, self.tn, self.to_frac = tt, tn, to_frac
        self.R, self.C = tn.shape
        self.objs = [[tn[r, c] for c in range(self.C)] for r in range(self.R)]
        self.snap = [[None if tn[r, c] is None else (tn[r, c].shape, tn[r, c].dtype.str, tn[r, c].tobytes())
                      for c in range(self.C)] for r in range(self.R)]
        self.kept_T = None
        self.held = {}

    def mutated(self):
        """list of (r, c, description) where the caller's network no longer is what it was"""
        out = []
        for r in range(self.R):
            for c in range(self.C):
                t, s = self.tn[r, c], self.snap[r][c]
                if t is not self.objs[r][c]:
                    out.append((r, c, 'grid entry replaced by another object'))
                elif t is not None and (t.shape, t.dtype.str, t.tobytes()) != s:
                    was = np.frombuffer(s[2], dtype=s[1])
                    now = np.asarray(t).flatten()
                    d = 'shape/dtype changed' if (t.shape, t.dtype.str) != s[:2] else \
                        'entries changed, e.g. %s -> %s' % next((float(a).hex(), float(b).hex()) for a, b in zip(was, now)
                                                                if a.tobytes() != b.tobytes())
                    out.append((r, c, d))
        return out

    def apply(self, op):
        tt, tn, fr = self.tt, self.tn, self.to_frac
        name = op['op']
        kw = _noop_kwargs(op.get('kind', 'none'), tn.shape)
        kwT = dict(kw)
        if 'mask' in kwT:
            kwT['mask'] = kwT['mask'].transpose()
        try:
            if name == 'contract':
                return fr(tt.mps2d.contract(tn, start=op.get('start'), stop=op.get('stop'), step=op.get('step'), **kw))
            if name == 'transposed':
                return fr(tt.mps2d.contract(tt.mps2d.transpose(tn), step=op.get('step'), **kwT))
            if name == 'keep-transpose':
                self.kept_T = tt.mps2d.transpose(tn)
                return None
            if name == 'kept-transposed':
                return fr(tt.mps2d.contract(self.kept_T, step=op.get('step'), **kwT))
            if name == 'split':
                c = op['c']
                L, mL = tt.mps2d.contract(tn, stop=c, **kw)
                Rr, mR = tt.mps2d.contract(tn, start=-1, stop=c - 1, step=-1, **kw)
                return fr(tt.mps.inner_product(L, Rr) * mL * mR)
            if name == 'split-transposed':
                tnT = tt.mps2d.transpose(tn)
                c = op['c']
                L, mL = tt.mps2d.contract(tnT, stop=c, **kwT)
                Rr, mR = tt.mps2d.contract(tnT, start=-1, stop=c - 1, step=-1, **kwT)
                return fr(tt.mps.inner_product(L, Rr) * mL * mR)
            if name == 'hold-left':      # partial results collected now, used later
                self.held[('L', op['c'])] = tt.mps2d.contract(tn, stop=op['c'], **kw)
                return None
            if name == 'hold-right':
                self.held[('R', op['c'])] = tt.mps2d.contract(tn, start=-1, stop=op['c'] - 1, step=-1, **kw)
                return None
            if name == 'combine-held':
                L, mL = self.held[('L', op['c'])]
                Rr, mR = self.held[('R', op['c'])]
                return fr(tt.mps.inner_product(L, Rr) * mL * mR)
            if name == 'bra-last':       # the decoders' pattern
                bra, mult = tt.mps2d.contract(tn, stop=-1, **kw)
                return fr(tt.mps.inner_product(bra, tn[:, -1]) * mult)
            if name == 'first-ket':
                ket, mult = tt.mps2d.contract(tn, start=-1, stop=0, step=-1, **kw)
                return fr(tt.mps.inner_product(tn[:, 0], ket) * mult)
        except Exception as e:  # noqa
            from harness.common import exc_class
            return 'ERR ' + exc_class(e) + ': ' + str(e)[:80]
        raise ValueError(name)


def history_ops(rng, R, C, n_extra, first=None):
    """a history: every sweep direction, transposed, repeated, split at every column (directly and with the partial
    results collected first), in random order, with random no-op truncation settings"""
    def kind():
        return rng.choice(NOOP_KINDS) if rng.random() < 0.35 else 'none'
    ops = [{'op': 'contract'}, {'op': 'contract', 'step': -1}, {'op': 'contract', 'start': -1, 'step': -1},
           {'op': 'transposed'}, {'op': 'transposed', 'step': -1}, {'op': 'contract'}]
    if C >= 2:
        ops += [{'op': 'bra-last'}, {'op': 'first-ket'}]
        ops += [{'op': 'split', 'c': c} for c in range(1, C)]
    if R >= 2:
        ops += [{'op': 'split-transposed', 'c': c} for c in range(1, R)]
    for _ in range(n_extra):
        ops.append(dict(rng.choice(ops)))
    rng.shuffle(ops)
    for op in ops:
        k = kind()
        if k != 'none':
            op['kind'] = k
    if first is not None:
        ops.insert(0, first)
    # results collected before use: transpose kept from the start, partial contractions held across other operations
    ops.insert(rng.randint(0, 1), {'op': 'keep-transpose'})
    if C >= 2:
        for c in range(1, C):
            ops.insert(rng.randint(0, len(ops) // 2), {'op': 'hold-left', 'c': c})
            ops.insert(rng.randint(0, len(ops) // 2), {'op': 'hold-right', 'c': c})
        ops += [{'op': 'combine-held', 'c': c} for c in range(1, C)]
    ops += [{'op': 'kept-transposed'}, {'op': 'kept-transposed', 'step': -1}, {'op': 'contract'}]
    return ops


def run_history(ctx, tt, net, ops, regime, exact, stop_at_first=True):
    """apply ops to one fresh network object; report value and mutation violations with a replayable record.
    Returns the list of values."""
    tn = build_arrays(net)
    h = History(tt, tn)
    done, values = [], []
    # replay records carry the whole network: keep their number bounded (the first ones are as good as the rest)
    nrep = ctx.extra.setdefault('round3_violation_records', {})
    told_mut = nrep.get('network-mutated', 0) >= 20
    for op in ops:
        v = h.apply(op)
        done.append(op)
        values.append(v)
        ctx.count(None, False, '%s history op %s' % (regime, op['op']))
        rep = {'net': net.to_json(), 'history': list(done), 'regime': regime, 'exact': str(exact)[:80]}
        if not told_mut:
            mut = h.mutated()
            if mut:
                told_mut = True
                nrep['network-mutated'] = nrep.get('network-mutated', 0) + 1
                ctx.violation('network-mutated', 'a read-only operation (contract / transpose / inner_product) changed a tensor '
                              'of the caller\'s network: site (%d,%d): %s' % mut[0], dict(rep, mutated=[list(m) for m in mut]))
        if v is not None and v != exact:
            nrep[regime + '-history-value'] = nrep.get(regime + '-history-value', 0) + 1
            if nrep[regime + '-history-value'] > 20:
                break
            ctx.violation(regime + '-history-value',
                          'operation %d (%s) of a history on one network object does not return the exact contraction '
                          'value' % (len(done), json.dumps(op)), dict(rep, got=str(v)[:80]))
            if stop_at_first:
                break
    return values


def _is_padded(net):
    return any(m is None for row in net.mant for m in row)


def gen_wide(rng, R, C):
    """padded (mostly) network with compensating per-tensor scales of widely ranging magnitude"""
    from harness.c11 import gen_net
    for _ in range(50):
        net = gen_net(rng, R, C, full=(rng.random() < 0.15), style=rng.choice(['int', 'pow2', 'sparse', 'ones']), cap=24)
        occ = [(r, c) for r in range(R) for c in range(C) if net.mant[r][c] is not None]
        if len(occ) < 2:
            continue
        # sites next to padding (an empty neighbour inside the grid, in the same row or column)
        edge = [(r, c) for (r, c) in occ if any(0 <= r2 < R and 0 <= c2 < C and net.mant[r2][c2] is None
                                                 for (r2, c2) in ((r - 1, c), (r + 1, c), (r, c - 1), (r, c + 1)))]
        for _try in range(40):
            k = [[0] * C for _ in range(R)]
            for (r, c) in occ:
                if rng.random() < 0.5:
                    k[r][c] = rng.randint(-30, 30)
            for _p in range(rng.randint(1, 3)):
                a = rng.choice(edge) if (edge and rng.random() < 0.6) else rng.choice(occ)
                b = rng.choice([x for x in occ if x != a])
                mag = rng.choice([rng.randint(40, 120), rng.randint(120, 300), rng.randint(300, 600), rng.randint(300, 600),
                                  rng.randint(600, 900)]) * rng.choice([-1, 1])
                k[a[0]][a[1]] += mag
                k[b[0]][b[1]] -= mag + rng.randint(-8, 8)
            net.k = k
            if scales_in_range(net) and abs(net.total_scale()) <= 60:
                return net
    return None


def gen_bigbond(rng, R, C, D, pad=False):
    """tiny network, all bonds 1-4 except ONE vertical bond of dimension D; entries in -2..2 (zeros included)"""
    from harness.c11 import Net, BIG
    nrng = np.random.default_rng(rng.getrandbits(64))
    occ = [[True] * C for _ in range(R)]
    if pad and R >= 3:
        occ[R - 1][rng.choice([0, C - 1])] = False    # staircase: an empty site at a column end
    cand = [(r, c) for r in range(R - 1) for c in range(C) if occ[r][c] and occ[r + 1][c]]
    r0, c0 = rng.choice(cand)
    vd = [[(D if (r, c) == (r0, c0) else rng.choice([2, 2, 3, 4, 1])) if (r + 1 < R and occ[r][c] and occ[r + 1][c]) else 1
           for c in range(C)] for r in range(R)]
    hd = [[rng.choice([1, 2, 2, 3]) if (c + 1 < C and occ[r][c] and occ[r][c + 1]) else 1 for c in range(C)] for r in range(R)]
    # at least one neighbouring column has a vertical bond > 1 on the same link, so that merged bonds have two factors
    others = [c for c in range(C) if c != c0 and occ[r0][c] and occ[r0 + 1][c]]
    if others and all(vd[r0][c] == 1 for c in others):
        vd[r0][rng.choice(others)] = rng.choice([2, 3, 4])
    mant = [[None] * C for _ in range(R)]
    for r in range(R):
        for c in range(C):
            if occ[r][c]:
                shape = (vd[r - 1][c] if r > 0 else 1, hd[r][c], vd[r][c], hd[r][c - 1] if c > 0 else 1)
                m = nrng.choice(np.array([-2, -1, -1, 0, 1, 1, 2], dtype=np.int64), size=shape)
                if not m.any():
                    m.flat[0] = 1
                mant[r][c] = m
    net = Net(R, C, mant, [[0] * C for _ in range(R)])
    assert exactness_bound(net) < BIG, 'generator left the exactness regime'
    return net, (r0, c0)


def run_round3(ctx):
    from fractions import Fraction
    from qecsim import tensortools as tt
    from harness.c11 import (BIG, canon_contract, model_cost, spec_cost, hexint, opt)
    rng = ctx.rng
    req, exp = [], []
    ctx.rule += ('; plus histories of read-only operations (every sweep direction, transposed, repeated, split at every '
                 'column, partial results and transposes collected first and used later, no-op truncation settings) on ONE '
                 'caller-owned network object, with the caller\'s tensors compared bit-for-bit with a deep copy after every '
                 'operation, in two further regimes: padded 2x2..4x4 networks with compensating per-tensor scales 2^k, '
                 '|k| up to 900 (every product a sweep or ladder can form checked to stay in the binary64 exponent window), '
                 'and tiny networks (2x2, 2x3, 3x2, ...) with one vertical or horizontal bond of dimension 7..8192 '
                 '(thorough: ..20000), merged bonds up to ~10^5, entries in -2..2')

    def model_lines(net, exact, rep):
        """correspondence with the extracted engine where it is affordable (mantissa units)"""
        tn = build_arrays(net)
        enc, tscale = net.enc(), net.total_scale()
        if model_cost(net, range(net.C)) <= 400000:
            for s in (None, -1):
                try:
                    res = tt.mps2d.contract(tn, step=s)
                except Exception as e:  # noqa
                    from harness.common import exc_class
                    res = 'ERR ' + exc_class(e)
                req.append('contract %s _ _ _ _ %s _' % (enc, opt(s)))
                exp.append(('contract', dict(rep, step=s), canon_contract(res, net, range(net.C))))
            if spec_cost(net) <= 60000:
                req.append('value %d %s' % (net.R, enc))
                exp.append(('value(spec)', rep, hexint(exact, tscale)))

    # ---- (a) wide magnitudes on padded networks ---------------------------------------------------------------
    n_wide = ctx.pick(400, 1200)
    made = 0
    for it in range(n_wide):
        R, C = rng.randint(2, 4), rng.randint(2, 4)
        net = gen_wide(rng, R, C)
        if net is None:
            continue
        assert exactness_bound(net) < BIG and scales_in_range(net)
        made += 1
        tscale = net.total_scale()
        exact = Fraction(exact_mantissa_value(net)) * Fraction(2) ** tscale
        ks = [net.k[r][c] for r in range(R) for c in range(C) if net.mant[r][c] is not None]
        ctx.count('wide' + net.enc() + '@' + ','.join(map(str, ks)), _is_padded(net) and max(ks) - min(ks) > 200,
                  'wide-magnitude net %dx%d%s' % (R, C, ' padded' if _is_padded(net) else ''),
                  {'regime': 'wide', 'rows': R, 'cols': C, 'exp2_per_tensor': ks, 'exact_value': str(exact)[:60]}
                  if made == 3 else None)
        ops = history_ops(rng, R, C, ctx.pick(2, 6))
        run_history(ctx, tt, net, ops, 'wide', exact)
        if it % 4 == 0:
            model_lines(net, exact, {'net': net.to_json(), 'regime': 'wide'})
    ctx.extra['wide_magnitude_nets'] = made

    # ---- (b) large bond dimensions on tiny networks -----------------------------------------------------------
    Ds = [7, 16, 31, 32, 63, 64, 127, 128, 255, 256, 511, 512, 1023, 1024, 2047, 2048, 3000, 4095, 4096, 5000, 8192] + \
        ctx.pick([], [8191, 12000, 16384, 20000] + [rng.randint(5, 9000) for _ in range(12)])
    shapes = [(2, 2), (2, 3), (3, 2)] + ctx.pick([], [(3, 3), (2, 4)])
    nb = 0
    for D in Ds:
        for (R, C) in shapes:
            for rep_i in range(ctx.pick(2, 3)):
                net, (r0, c0) = gen_bigbond(rng, R, C, D, pad=(rep_i == 1 or (R >= 3 and rng.random() < 0.3)))
                exact = Fraction(exact_mantissa_value(net))
                for orient, nt in (('vertical', net), ('horizontal', net.T())):
                    nb += 1
                    if orient == 'horizontal':
                        if Fraction(exact_mantissa_value(nt)) != exact:
                            raise RuntimeError('transposed oracle disagrees (harness error)')
                    merged = max(int(np.prod([nt.mant[r][c].shape[0] for c in range(nt.C) if nt.mant[r][c] is not None] or [1]))
                                 for r in range(nt.R))
                    ctx.count('big%s%d@%dx%d#%d' % (orient, D, R, C, rep_i), True,
                              'big-bond net %s D=%d' % (orient, D),
                              {'regime': 'bigbond', 'rows': nt.R, 'cols': nt.C, 'big_bond': D, 'orientation': orient,
                               'largest_merged_link_bond_of_column_sweep': merged, 'exact_value': str(exact)}
                              if (D == 2048 and (R, C) == (2, 3)) else None)
                    ops = history_ops(rng, nt.R, nt.C, 0)
                    run_history(ctx, tt, nt, ops, 'bigbond', exact)
                    if D <= 600:
                        model_lines(nt, exact, {'net': nt.to_json(), 'regime': 'bigbond'})
    ctx.extra['big_bond_nets'] = nb

    out = ctx.model('c11', req, timeout=900)
    for (fn, inp, impl), m in zip(exp, out):
        ctx.cmp(fn, inp, impl, m)
    ctx.extra['model_requests_round3'] = len(req)


def replay_history(rep):
    """replay of a 'history' record (called from harness.c11.replay)"""
    from fractions import Fraction
    from qecsim import tensortools as tt
    from harness.c11 import Net
    if rep['net'].get('graded'):
        from harness.c11_graded import GNet
        net = GNet.from_json(rep['net'])
        if net.certificate() is None:
            print('the recorded network is not graded / leaves the exactness window')
            return 2
        from harness.c11 import exact_fraction_value
        print('exact rational value of the float network:', exact_fraction_value(net.build()))
    elif rep['net'].get('dtyped'):
        from harness.c11_dtypes import DNet
        net = DNet.from_json(rep['net'])
        print('dtype of each site (rows/cols):', net.dtype_map())
    else:
        net = Net.from_json(rep['net'])
    exact = Fraction(exact_mantissa_value(net)) * Fraction(2) ** net.total_scale()
    print('exact value:', exact)
    tn = build_arrays(net)
    h = History(tt, tn)
    bad = False
    for i, op in enumerate(rep['history']):
        v = h.apply(op)
        mut = h.mutated()
        flag = '' if (v is None or v == exact) else '   <-- WRONG'
        print('%2d %-60s %s%s%s' % (i + 1, json.dumps(op), '-' if v is None else (float(v) if not isinstance(v, str) else v), flag,
                                    ('   caller network mutated at %s' % [m[:2] for m in mut]) if mut else ''))
        bad = bad or bool(flag) or bool(mut)
    print('REPRODUCED' if bad else 'not reproduced')
    return 1 if bad else 0
