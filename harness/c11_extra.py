"""Extra C11 check added after a seeded change was missed: histories on the SAME network object — contract and
transpose, modify a tensor in place, contract and transpose again.  Every value must be the exact contraction value
of the network as it is at that moment (integer entries, so float arithmetic is exact)."""
import itertools

import numpy as np


def brute(tn):
    """exact value by einsum over all bonds; tn: object array (rows x cols) of int-valued float arrays (n,e,s,w)"""
    R, C = tn.shape
    letters = iter('abcdefghijklmnopqrstuvwxyzABCDEFGHIJKLMNOPQRSTUVWXYZ')
    h = {}   # bond between (r,c) east and (r,c+1) west
    v = {}   # bond between (r,c) south and (r+1,c) north
    ops, subs = [], []
    for r in range(R):
        for c in range(C):
            t = tn[r, c]
            n = v[(r - 1, c)] if r > 0 else next(letters)
            e = h.setdefault((r, c), next(letters))
            s_ = v.setdefault((r, c), next(letters))
            w = h[(r, c - 1)] if c > 0 else next(letters)
            ops.append(np.asarray(t, dtype=object).astype(np.int64))
            subs.append(n + e + s_ + w)
    return int(np.einsum(','.join(subs) + '->', *ops))


def run(ctx):
    from qecsim import tensortools as tt
    rng = ctx.rng

    def value(x):
        return int(round(float(x)))
    for trial in range(ctx.pick(40, 300)):
        R, C = rng.randint(1, 3), rng.randint(1, 3)
        tn = np.empty((R, C), dtype=object)
        hb = [[rng.randint(1, 2) for _ in range(C - 1)] for _ in range(R)]
        vb = [[rng.randint(1, 2) for _ in range(C)] for _ in range(R - 1)]
        for r in range(R):
            for c in range(C):
                shape = (vb[r - 1][c] if r > 0 else 1, hb[r][c] if c < C - 1 else 1, vb[r][c] if r < R - 1 else 1,
                         hb[r][c - 1] if c > 0 else 1)
                tn[r, c] = np.array([[rng.randint(-3, 3) for _ in range(int(np.prod(shape)))]], dtype=np.float64).reshape(shape)
        hist = []
        ok = True
        for step in range(rng.randint(2, 5)):
            want = brute(tn)
            got = {}
            got['contract'] = value(tt.mps2d.contract(tn))
            got['reverse'] = value(tt.mps2d.contract(tn, step=-1))
            got['transposed'] = value(tt.mps2d.contract(tt.mps2d.transpose(tn)))
            hist.append('read')
            ctx.count(('c11-history', trial, step), step > 0, 'network-object-history',
                      {'shape': [R, C], 'history': list(hist), 'value': want} if len(ctx.samples) < 8 else None)
            badk = [k for k, g in got.items() if g != want]
            if badk:
                ctx.violation('history-value', 'contraction of a network that was modified in place after an earlier '
                              'contract/transpose is not its exact value (%s)' % ', '.join(badk),
                              {'shape': [R, C], 'history': hist, 'exact': want, 'got': got,
                               'tensors': [[tn[r, c].tolist() for c in range(C)] for r in range(R)]})
                ok = False
                break
            # modify one tensor in place (same array object)
            r, c = rng.randrange(R), rng.randrange(C)
            t = tn[r, c]
            idx = tuple(rng.randrange(d) for d in t.shape)
            if rng.random() < 0.5:
                t[idx] += rng.choice([-2, -1, 1, 2, 5])
            else:
                t[...] = np.array([rng.randint(-3, 3) for _ in range(t.size)], dtype=np.float64).reshape(t.shape)
            hist.append('modify (%d,%d)' % (r, c))
        if not ok:
            continue
