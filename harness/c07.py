"""C07 — every constructible code is a valid [[n,k]] stabilizer code.  Runs every lattice family's check_c07
(model/implementation equality for every size, constructor stream, validity / rank / bijection evaluated directly
on the implementation), the translator correspondence, and the two basic codes."""
import json

import numpy as np

from harness import lat_common
from harness.common import rowsstr


def gf2_rank(M):
    M = np.array(M, dtype=np.uint8) % 2
    r = 0
    rows, cols = M.shape
    for c in range(cols):
        piv = None
        for i in range(r, rows):
            if M[i, c]:
                piv = i
                break
        if piv is None:
            continue
        M[[r, piv]] = M[[piv, r]]
        for i in range(rows):
            if i != r and M[i, c]:
                M[i] ^= M[r]
        r += 1
        if r == rows:
            break
    return r


def basic_codes(ctx):
    from qecsim.models.basic import FiveQubitCode, SteaneCode
    from qecsim import paulitools as pt
    want = {'FiveQubitCode': (['XZZXI', 'IXZZX', 'XIXZZ', 'ZXIXZ'], ['XXXXX'], ['ZZZZZ'], (5, 1, 3)),
            'SteaneCode': (['IIIXXXX', 'IXXIIXX', 'XIXIXIX', 'IIIZZZZ', 'IZZIIZZ', 'ZIZIZIZ'], ['XXXXXXX'], ['ZZZZZZZ'], (7, 1, 3))}
    for code in (FiveQubitCode(), SteaneCode()):
        S, X, Z, nkd = want[type(code).__name__]   # the literals of Lattice/Basic.v
        ctx.count(('basic', repr(code)), True, 'basic')
        ctx.cmp('basic stabilizers', repr(code), pt.bsf_to_pauli(code.stabilizers), S)
        ctx.cmp('basic logical_xs', repr(code), pt.bsf_to_pauli(code.logical_xs), X)
        ctx.cmp('basic logical_zs', repr(code), pt.bsf_to_pauli(code.logical_zs), Z)
        ctx.cmp('basic n_k_d', repr(code), tuple(code.n_k_d), nkd)
        n, k, _ = code.n_k_d
        rep = {'code': repr(code), 'stabilizers': rowsstr(code.stabilizers), 'logicals': rowsstr(code.logicals)}
        try:
            code.validate()
        except Exception as e:  # noqa
            ctx.violation('basic-validate', 'basic code fails validate(): %s' % e, rep)
        if code.stabilizers.shape != (n - k, 2 * n) or code.logical_xs.shape != (k, 2 * n) or code.logical_zs.shape != (k, 2 * n):
            ctx.violation('basic-shapes', 'n, k disagree with matrix shapes', rep)
        if gf2_rank(code.stabilizers) != n - k or gf2_rank(np.vstack([code.stabilizers, code.logicals])) != n + k:
            ctx.violation('basic-rank', 'stabilizer rank != n-k or logicals dependent', rep)


def run(ctx):
    ctx.rule = ('per family: every size up to the tier bound (non-square, minimal, odd/even) compared row by row with '
                'the Gallina model; constructor argument stream; validity, GF(2) ranks, n/k vs shapes and flatten '
                'bijection evaluated on the implementation; translated integer kernels vs Python originals on a grid '
                'inside the kernel. nontrivial = non-square or minimal size / argument-carrying case')
    lat_common.prepare(ctx)
    fams = lat_common.run_families(ctx, 'check_c07')
    basic_codes(ctx)
    ctx.extra['families'] = fams + ['basic']


def replay(path):
    print(json.dumps(json.load(open(path)), indent=1, default=str))
    return 0
