"""C07 — every constructible code is a valid [[n,k]] stabilizer code.  Runs every lattice family's check_c07
(model/implementation equality for every size, constructor stream, validity / rank / bijection evaluated directly
on the implementation), the translator correspondence, and the two basic codes."""
import json
import traceback

import numpy as np

from harness import c07_extra, lat_common
from harness.common import rowsstr


def gf2_rank(M):
    M = np.array(M, dtype=np.uint8) % 2
    r = 0
    rows, cols = M.shape
    for c in range(cols):
        piv = None
        for i in range(r, rows):
            if M[i, c]:
                piv = i
                break
        if piv is None:
            continue
        M[[r, piv]] = M[[piv, r]]
        for i in range(rows):
            if i != r and M[i, c]:
                M[i] ^= M[r]
        r += 1
        if r == rows:
            break
    return r


def basic_codes(ctx):
    from qecsim.models.basic import FiveQubitCode, SteaneCode
    from qecsim import paulitools as pt
    want = {'FiveQubitCode': (['XZZXI', 'IXZZX', 'XIXZZ', 'ZXIXZ'], ['XXXXX'], ['ZZZZZ'], (5, 1, 3)),
            'SteaneCode': (['IIIXXXX', 'IXXIIXX', 'XIXIXIX', 'IIIZZZZ', 'IZZIIZZ', 'ZIZIZIZ'], ['XXXXXXX'], ['ZZZZZZZ'], (7, 1, 3))}
    for code in (FiveQubitCode(), SteaneCode()):
        S, X, Z, nkd = want[type(code).__name__]   # the literals of Lattice/Basic.v
        ctx.count(('basic', repr(code)), True, 'basic')
        ctx.cmp('basic stabilizers', repr(code), pt.bsf_to_pauli(code.stabilizers), S)
        ctx.cmp('basic logical_xs', repr(code), pt.bsf_to_pauli(code.logical_xs), X)
        ctx.cmp('basic logical_zs', repr(code), pt.bsf_to_pauli(code.logical_zs), Z)
        ctx.cmp('basic n_k_d', repr(code), tuple(code.n_k_d), nkd)
        n, k, _ = code.n_k_d
        rep = {'code': repr(code), 'stabilizers': rowsstr(code.stabilizers), 'logicals': rowsstr(code.logicals)}
        try:
            code.validate()
        except Exception as e:  # noqa
            ctx.violation('basic-validate', 'basic code fails validate(): %s' % e, rep)
        if code.stabilizers.shape != (n - k, 2 * n) or code.logical_xs.shape != (k, 2 * n) or code.logical_zs.shape != (k, 2 * n):
            ctx.violation('basic-shapes', 'n, k disagree with matrix shapes', rep)
        if gf2_rank(code.stabilizers) != n - k or gf2_rank(np.vstack([code.stabilizers, code.logicals])) != n + k:
            ctx.violation('basic-rank', 'stabilizer rank != n-k or logicals dependent', rep)


def code_args(code):
    if hasattr(code, 'size') and not isinstance(code.size, int):
        return tuple(code.size)
    return (code.size,)


def pauli_histories(ctx):
    """Histories on ONE lattice-Pauli object per trial: operations interleaved with to_bsf() / operator() reads.
    After every operation: to_bsf() == previous bsf XOR (the operation applied to a fresh Pauli), every site's
    operator() letter agrees with the bsf bits, equality and copy() agree; every third history starts from
    new_pauli(published row).copy(): the copy is independent, the published matrices never change.  About half of the
    site() operations carry several indices in ONE call (repeats, other spellings of the same qubit on the tori); their
    effect is that of the indices applied one call at a time.  Model-free (implementation only; c07_extra.multi_index_calls
    is the model-backed counterpart)."""
    from qecsim.models.planar import PlanarCode
    from qecsim.models.toric import ToricCode
    from qecsim.models.rotatedplanar import RotatedPlanarCode
    from qecsim.models.rotatedtoric import RotatedToricCode
    from qecsim.models.color import Color666Code
    import itertools
    rng = ctx.rng

    def site_op(sites, respell=None):
        """site(op, *indices): mostly one index, otherwise several in ONE call (literal repeats and, on the tori, other
        spellings of the same qubit included); the reference effect applies the indices one call at a time"""
        o = rng.choice('XYZ')
        k = 1 if rng.random() < 0.5 else rng.randint(2, 5)
        idxs = [rng.choice(sites) for _ in range(k)]
        if k > 1 and rng.random() < 0.6:
            j = rng.choice(idxs)
            idxs.insert(rng.randrange(len(idxs) + 1), respell(j) if respell and rng.random() < 0.7 else j)
        if respell:
            idxs = [respell(j) if rng.random() < 0.2 else j for j in idxs]
        idxs = tuple(idxs)

        def one_by_one(p):
            for j in idxs:
                p.site(o, j)
            return p
        return 'site %s %s' % (o, ' '.join(str(j) for j in idxs)), (lambda p: p.site(o, *idxs)), one_by_one

    def fam_planar(code):
        mr, mc = code.bounds
        idx = list(itertools.product(range(mr + 1), range(mc + 1)))
        sites = [i for i in idx if code.is_site(i)]
        plaqs = [i for i in idx if code.is_plaquette(i)]

        def ops():
            r = rng.random()
            if r < 0.3:
                return site_op(sites)
            if r < 0.55:
                i = rng.choice(plaqs)
                return 'plaquette %s' % (i,), lambda p: p.plaquette(i)
            if r < 0.8:
                a = rng.choice(plaqs)
                b = rng.choice([q for q in plaqs if code.is_primal(q) == code.is_primal(a)])
                return 'path %s %s' % (a, b), lambda p: p.path(a, b)
            nm = rng.choice(['logical_x', 'logical_z'])
            return nm, lambda p: getattr(p, nm)()
        return sites, ops

    def fam_toric(code):
        sites = list(itertools.product(*[range(d) for d in code.shape]))

        def respell(i):
            return tuple(v + d * rng.randint(-2, 2) for v, d in zip(i, code.shape))

        def ops():
            r = rng.random()
            if r < 0.3:
                return site_op(sites, respell)
            if r < 0.5:
                i = rng.choice(sites)
                return 'plaquette %s' % (i,), lambda p: p.plaquette(i)
            if r < 0.7:
                a = rng.choice(sites)
                b = rng.choice([q for q in sites if q[0] == a[0]])
                return 'path %s %s' % (a, b), lambda p: p.path(a, b)
            nm = rng.choice(['logical_x1', 'logical_x2', 'logical_z1', 'logical_z2'])
            return nm, lambda p: getattr(p, nm)()
        return sites, ops

    def fam_rot(code, toric):
        if toric:
            mx, my = code.bounds
        else:
            mx, my = code.site_bounds
        sites = list(itertools.product(range(mx + 1), range(my + 1)))
        plaqs = [tuple(i) for i in code._plaquette_indices]

        def respell(i):
            return tuple(v + (d + 1) * rng.randint(-2, 2) for v, d in zip(i, (mx, my)))

        def ops():
            r = rng.random()
            if r < 0.35:
                return site_op(sites, respell if toric else None)
            if r < 0.6:
                i = rng.choice(plaqs)
                return 'plaquette %s' % (i,), lambda p: p.plaquette(i)
            if toric and r < 0.8:
                a = rng.choice(plaqs)
                b = rng.choice([q for q in plaqs if code.is_z_plaquette(q) == code.is_z_plaquette(a)])
                return 'path %s %s' % (a, b), lambda p: p.path(a, b)
            nm = rng.choice(['logical_x1', 'logical_x2', 'logical_z1', 'logical_z2'] if toric else ['logical_x', 'logical_z'])
            return nm, lambda p: getattr(p, nm)()
        return sites, ops

    def fam_color(code):
        idx = list(itertools.product(range(code.bound + 1), repeat=2))
        sites = [i for i in idx if code.is_in_bounds(i) and code.is_site(i)]
        plaqs = [tuple(i) for i in code._plaquette_indices]

        def ops():
            r = rng.random()
            if r < 0.4:
                return site_op(sites)
            if r < 0.75:
                o, i = rng.choice('XYZ'), rng.choice(plaqs)
                return 'plaquette %s %s' % (o, i), lambda p: p.plaquette(o, i)
            nm = rng.choice(['logical_x', 'logical_z'])
            return nm, lambda p: getattr(p, nm)()
        return sites, ops

    cases = [(PlanarCode(3, 4), fam_planar), (PlanarCode(2, 2), fam_planar), (ToricCode(2, 2), fam_toric),
             (ToricCode(3, 4), fam_toric), (RotatedPlanarCode(3, 4), lambda c: fam_rot(c, False)),
             (RotatedPlanarCode(4, 5), lambda c: fam_rot(c, False)), (RotatedToricCode(2, 4), lambda c: fam_rot(c, True)),
             (RotatedToricCode(4, 4), lambda c: fam_rot(c, True)), (Color666Code(3), fam_color), (Color666Code(5), fam_color)]
    LET = {(0, 0): 'I', (1, 0): 'X', (0, 1): 'Z', (1, 1): 'Y'}
    for code, fam in cases:
        try:
            _pauli_history_case(ctx, rng, code, fam, LET)
        except Exception as e:  # noqa
            ctx.violation('pauli-history-raises', 'a documented lattice-Pauli / code call raises %s on an accepted size'
                          % type(e).__name__, {'code': repr(code), 'exception': repr(e)[:200],
                                               'trace': traceback.format_exc()[-700:]})


def _pauli_history_case(ctx, rng, code, fam, LET):
    sites, ops = fam(code)
    n = code.n_k_d[0]
    pos = {}
    for s_ in sites:
        b = code.new_pauli().site('X', s_).to_bsf()
        nz = np.flatnonzero(b)
        pos[s_] = int(nz[0]) if len(nz) == 1 else None
    snap = {nm: np.array(getattr(code, nm)).copy() for nm in ('stabilizers', 'logical_xs', 'logical_zs', 'logicals')}
    for trial in range(ctx.pick(12, 60)):
        hist = []
        p0 = src = None
        if trial % 3 == 2:
            # a Pauli built on a published row (a view, by design), then copy() - the copy is the caller's to change
            nm = rng.choice(['stabilizers', 'logical_xs', 'logical_zs', 'logicals'])
            mat = getattr(code, nm)
            ri = rng.randrange(len(mat))
            src = mat[ri]
            p0 = code.new_pauli(src)
            p = p0.copy()
            hist.append('new_pauli(%s[%d]).copy()' % (nm, ri))
            if rng.random() < 0.4:
                p = p.copy()
                hist.append('copy()')
            cur = snap[nm][ri].copy()
            src_snap = cur.copy()
        else:
            p = code.new_pauli()
            cur = p.to_bsf().copy() if rng.random() < 0.7 else np.zeros(2 * n, dtype=int)
        for step in range(rng.randint(2, 8)):
            name, f, *ref = ops()
            hist.append(name)
            # the operation's own effect: on a fresh Pauli; a call carrying several indices = the indices one call at a time
            delta = (ref[0] if ref else f)(code.new_pauli()).to_bsf()
            f(p)
            cur = cur ^ delta
            reads = rng.random() < 0.8          # sometimes several operations happen between reads
            if not reads and step < 7:
                continue
            got = p.to_bsf()
            ctx.count(('pauli-history', repr(code), trial, step), True, 'pauli-history',
                      {'code': repr(code), 'history': list(hist)} if len(ctx.samples) < 7 else None)
            rep = {'code': repr(code), 'history': list(hist), 'to_bsf': rowsstr([got]), 'expected': rowsstr([cur])}
            if not np.array_equal(got, cur):
                ctx.violation('pauli-bsf-history', 'to_bsf() after a sequence of operations is not the XOR of the '
                              'operations (stale or inconsistent binary symplectic form)', rep)
                break
            bad = [s_ for s_ in sites if pos[s_] is not None and
                   p.operator(s_) != LET[(int(got[pos[s_]]), int(got[n + pos[s_]]))]]
            if bad:
                ctx.violation('pauli-site-access', 'operator(index) disagrees with the bsf', dict(rep, sites=bad[:4]))
                break
            if not (p == code.new_pauli(got.copy())) or not np.array_equal(p.copy().to_bsf(), got):
                ctx.violation('pauli-eq-copy', 'equality / copy disagree with the bsf', rep)
                break
        rep = {'code': repr(code), 'history': list(hist)}
        if p0 is not None and (not np.array_equal(p0.to_bsf(), src_snap) or not np.array_equal(src, src_snap)):
            ctx.violation('pauli-copy-aliases', 'operations on a copy() changed the Pauli it was copied from / the array '
                          'that Pauli was built on', rep)
        changed = [nm for nm in snap if not np.array_equal(getattr(code, nm), snap[nm])
                   or not np.array_equal(getattr(type(code)(*code_args(code)), nm), snap[nm])]
        if changed:
            ctx.violation('code-matrices-changed', 'the code\'s published %s changed after operations on Pauli copies '
                          '(this and every later equal code now publishes them)' % ', '.join(changed), rep)
            break


def run(ctx):
    ctx.rule = ('per family: every size up to the tier bound (non-square, minimal, odd/even) compared row by row with '
                'the Gallina model; constructor argument stream; validity, GF(2) ranks, n/k vs shapes and flatten '
                'bijection evaluated on the implementation; translated integer kernels vs Python originals on a grid '
                'inside the kernel; site() calls carrying several indices (repeats, equivalent spellings, no-op indices) '
                'against the model and one-by-one application; matrix-free index-map pass at sizes whose qubit count '
                'crosses 2^8 / 2^15 / 2^16. nontrivial = non-square or minimal size / argument-carrying case')
    lat_common.prepare(ctx)
    lat_common.stage(ctx, 'interrupted_evaluations', lat_common.interrupted_evaluations)
    lat_common.stage(ctx, 'cold_queries', lat_common.cold_queries)
    fams = lat_common.run_families(ctx, 'check_c07')
    lat_common.stage(ctx, 'basic_codes', basic_codes)
    lat_common.stage(ctx, 'multi_index_calls', c07_extra.multi_index_calls)
    lat_common.stage(ctx, 'pauli_histories', pauli_histories)
    lat_common.stage(ctx, 'wide_index_sizes', c07_extra.wide_index_sizes)
    lat_common.stage(ctx, 'optimised_mode', lat_common.optimised_mode)
    lat_common.stage(ctx, 'final_recheck', lat_common.final_recheck)
    ctx.extra['families'] = fams + ['basic']


def replay(path):
    print(json.dumps(json.load(open(path)), indent=1, default=str))
    return 0
