"""scratch runner for the rotated planar / rotated toric / colour family checks (deleted at the end)"""
import json
import os
import time


def run(ctx):
    from harness import lat_rotplanar, lat_rottoric, lat_color
    which = os.environ.get('RC_WHICH', 'c07,c08,c15').split(',')
    fams = os.environ.get('RC_FAMS', 'rp,rt,c6').split(',')
    mods = {'rp': lat_rotplanar, 'rt': lat_rottoric, 'c6': lat_color}
    ctx.rule = 'scratch'
    for f in fams:
        for w in which:
            fn = getattr(mods[f], 'check_' + w, None)
            if fn is None:
                continue
            t = time.time()
            fn(ctx)
            print('%s.%s: %.1fs evals=%d mism=%d viol=%d' % (f, w, time.time() - t, ctx.evals, len(ctx.mismatches), len(ctx.violations)), flush=True)
    for m in ctx.mismatches[:5]:
        print('MISMATCH', json.dumps(m)[:600])
    for v in ctx.violations[:8]:
        print('VIOL', json.dumps(v, default=str)[:600])
    for o in ctx.obligations:
        if not o['ok']:
            print('OBL', o['name'], o['detail'][-800:])


def replay(path):
    print(open(path).read())
    return 0
