"""C06 — seeded runs are reproducible; decoding is pure and history-independent.
A long interleaved history of decode / run calls on shared decoder, code and error-model objects is executed
in this process; the same operations are re-executed (a) in a fresh interpreter with another PYTHONHASHSEED,
fresh objects and reversed order, (b) a sample each alone in its own interpreter.  Any difference is a
history / process dependence.  Also: caller arrays and code matrices are never modified, the recovery does not
depend on the `error` context.
Direct DecoderFTP.decode_ftp calls (both FTP decoders, time_steps 1..4, sizes up to 5x5 / 4x4; c06_worker.ftp_arrays):
the caller's 2-d syndrome array (own array, view into a batch, column-major, read-only), the context arrays (error,
step_errors, step_measurement_errors) and the code matrices are snapshotted before the call and compared bit for bit
afterwards (caller-array-modified); the very same array objects are then decoded again and must give the same result
(redecode-differs); the recovery must reproduce the XOR over time of the supplied syndrome; the result must not depend
on the error context.  These calls are part of the interleaved history (compared with a fresh interpreter) and of the
prior-family x target matrix (as priors and as targets).
Stopping limits (harness/c06_limits.py): one reference run observed run by run; the extracted run loop folded over its
per-run data decides the aggregate for every KIND of limit pair (max_failures alone, max_runs alone, both, looser,
tighter, neither); the implementation with the same seed must agree, generate the same error stream, and return
identical data whenever the same number of runs was performed.
Process-global generators (`random`, numpy.random): only PlanarYDecoder, decoders constructed with stp and
FileErrorModel are random by documented design (their toss is pinned); for every other component the global generators
are put in a different state before every operation, in every process and fork, so a hidden use of them shows up as a
differing result (reported as not-reproducible-fresh with the operation alone in pristine forks), and operations seen to
advance a global generator are re-run alone under several states.
harness/c06_extra.py adds (every scenario in a pristine fork of a fresh interpreter): groups of RELATED syndromes
(same defects in one sector, other sector varied) decoded in every rotation and in long shuffled histories for every
stateful decoder family; a matrix "any component family used before" x "tie-prone targets of every family"
(all-syndrome sweeps of tiny codes, many-run seeded runs at high p); recoveries kept or overwritten by the caller;
process-global numeric state (mpmath/numpy/decimal) snapshots that direct a heavier battery."""
import json
import os
import subprocess
import sys
import time
from concurrent.futures import ThreadPoolExecutor

import numpy as np

from harness.common import REPO, VERIF
from harness import c06_worker as W
from harness import c06_extra as X
from harness import c06_limits as L

PAIRS = [
    # (code exprs, decoder exprs, error-model exprs, Y-only noise?)
    (['PlanarCode(3,3)', 'PlanarCode(2,4)', 'PlanarCode(4,3)', 'PlanarCode(2,2)'],
     ['PlanarMWPMDecoder()', 'PlanarCMWPMDecoder()', 'PlanarCMWPMDecoder(2, 3, "r", 1)', 'PlanarMPSDecoder()', 'PlanarMPSDecoder(4)',
      'PlanarMPSDecoder(4, "a")', 'PlanarRMPSDecoder(4)', 'PlanarRMPSDecoder(None, "r")'],
     ['DepolarizingErrorModel()', 'BitFlipErrorModel()', 'BiasedDepolarizingErrorModel(10, "Y")', 'BiasedYXErrorModel(3)',
      'CenterSliceErrorModel((0.2, 0.8, 0), 0.5)', 'PhaseFlipErrorModel()'], False),
    (['PlanarCode(3,3)', 'PlanarCode(2,4)', 'PlanarCode(3,2)'], ['PlanarYDecoder()'], ['BitPhaseFlipErrorModel()'], True),
    (['ToricCode(3,3)', 'ToricCode(2,4)', 'ToricCode(4,4)'], ['ToricMWPMDecoder()'],
     ['DepolarizingErrorModel()', 'BitFlipErrorModel()'], False),
    (['RotatedPlanarCode(3,3)', 'RotatedPlanarCode(3,5)', 'RotatedPlanarCode(4,4)'],
     ['RotatedPlanarMPSDecoder(4)', 'RotatedPlanarMPSDecoder()', 'RotatedPlanarRMPSDecoder(4)', 'RotatedPlanarRMPSDecoder(None, "a")',
      'RotatedPlanarSMWPMDecoder()', 'RotatedPlanarSMWPMDecoder(3)'],
     ['DepolarizingErrorModel()', 'BiasedDepolarizingErrorModel(10, "Y")', 'BiasedDepolarizingErrorModel(3, "Y")',
      'BiasedDepolarizingErrorModel(0.5, "Y")', 'BiasedDepolarizingErrorModel(1000, "Y")'], False),
    (['RotatedToricCode(2,2)', 'RotatedToricCode(4,4)', 'RotatedToricCode(2,4)'],
     ['RotatedToricSMWPMDecoder()', 'RotatedToricSMWPMDecoder(False, 3)'],
     ['DepolarizingErrorModel()', 'BiasedDepolarizingErrorModel(10, "Y")'], False),
    (['Color666Code(3)', 'Color666Code(5)'], ['Color666MPSDecoder(4)', 'Color666MPSDecoder()'],
     ['DepolarizingErrorModel()', 'BitFlipErrorModel()'], False),
    (['FiveQubitCode()', 'SteaneCode()'], ['NaiveDecoder()'], ['DepolarizingErrorModel()', 'PhaseFlipErrorModel()'], False),
]
FTP = [(['RotatedPlanarCode(3,3)', 'RotatedPlanarCode(3,4)'], ['RotatedPlanarSMWPMDecoder()'],
        ['BitPhaseFlipErrorModel()', 'DepolarizingErrorModel()', 'BiasedDepolarizingErrorModel(10, "Y")']),
       (['RotatedToricCode(2,2)', 'RotatedToricCode(2,4)'], ['RotatedToricSMWPMDecoder()'],
        ['BitPhaseFlipErrorModel()', 'DepolarizingErrorModel()'])]


def worker(ops, hashseed, timeout=1500, salt=None):
    """fresh interpreter: other hash seed, other sequence of global `random` / numpy.random states (C06_GSALT)"""
    env = dict(os.environ)
    env['PYTHONPATH'] = os.path.join(REPO, 'src') + ':' + VERIF
    env['PYTHONHASHSEED'] = str(hashseed)
    env['C06_GSALT'] = str(hashseed * 13 + 5 if salt is None else salt)
    p = subprocess.run([sys.executable, '-W', 'ignore', '-m', 'harness.c06_worker'], input=json.dumps(ops),
                       capture_output=True, text=True, env=env, timeout=timeout, cwd=VERIF)
    lines = [l for l in p.stdout.split('\n') if l.startswith('{')]
    if len(lines) != len(ops):
        raise RuntimeError('worker returned %d results for %d ops: %s' % (len(lines), len(ops), p.stderr[-500:]))
    return [json.loads(l) for l in lines]


def run(ctx):
    import logging
    logging.getLogger('qecsim').setLevel(logging.ERROR)
    import warnings
    warnings.simplefilter('ignore')
    rng = ctx.rng
    ctx.rule = ('one interleaved history of decode/run operations over shared code, decoder and error-model objects '
                '(reuse vs fresh construction, equal codes, other sizes/families, p = 1 vs 1.0, runs between decodes, direct '
                'decode_ftp calls with 1-4 time steps whose caller-held arrays are compared before/after and decoded twice); '
                'every operation re-executed in a fresh interpreter (other PYTHONHASHSEED, fresh objects, reversed '
                'order) and a sample alone in their own interpreters. nontrivial = operation whose code/decoder/'
                'error-model expression was already used earlier in the history (cache hit on shared state). '
                'Plus, each scenario in a pristine fork: related-syndrome groups (shared defects in one sector / shared '
                'X-, Z- or Y-part, 3-5 variants of the other part, every rotation + long shuffled histories with repeats; '
                'nontrivial = decode that is not the first of its scenario), and prior-family x tie-prone-target matrix '
                '(nontrivial = target executed after a prior activity); reference = same operation first in a pristine fork, '
                'repeated 3 times in that fork; every operation of a component not documented as random runs under another '
                'state of the global `random` / numpy.random generators. Stopping limits: reference run max_runs=M recorded '
                'run by run, ~10 limit pairs of every kind per configuration decided by the extracted run loop (engine c04) '
                '(nontrivial = reference run has a failure and the pair is not the reference pair)')
    ctx.props_obligations()
    ns = W.namespace()
    shared = {}
    W.set_salt(rng.randrange(1, 2 ** 30))      # this process: its own sequence of global-generator states
    flagged = []                               # operations of non-documented components that advanced a global generator

    def get(expr):
        # reuse a shared object most of the time; sometimes build a fresh (equal) one
        if expr in shared and rng.random() < 0.75:
            return shared[expr]
        o = eval(expr, dict(ns))
        if 'ErrorModel' in expr and rng.random() < 0.5:
            # a short-lived collaborator built inline by the caller and dropped after the call: nothing keeps it alive,
            # so a later object may live at the same address (state keyed on id() of a collaborator must not survive it)
            return o
        shared[expr] = o
        return o

    nops = ctx.pick(420, 4000)
    ops = []
    nftp = ctx.pick(120, 1200)                 # direct decode_ftp calls, interleaved with everything else
    ftp_at = set(rng.sample(range(nops + nftp), nftp))
    nops += nftp
    for i in range(nops):
        if i in ftp_at:
            ops.append(X.ftp_decode_op(rng, ns))
            continue
        if rng.random() < 0.12:
            codes, decs, ems = rng.choice(FTP)
            ops.append({'op': 'run', 'code': rng.choice(codes), 'dec': rng.choice(decs), 'em': rng.choice(ems),
                        'p': rng.choice([0.05, 0.2]), 'seed': rng.randint(0, 5), 'max_runs': rng.randint(1, 3),
                        'T': rng.randint(1, 3), 'q': rng.choice([None, 0.0, 0.1])})
            continue
        codes, decs, ems, yonly = rng.choice(PAIRS)
        code, dec, em = rng.choice(codes), rng.choice(decs), rng.choice(ems)
        p = rng.choice([0.05, 0.1, 0.3, 1, 1.0, 0.5])
        if p in (1, 1.0) and 'MPS' in dec:
            p = 0.25
        if rng.random() < 0.2:
            ops.append({'op': 'run', 'code': code, 'dec': dec, 'em': em, 'p': float(p) if rng.random() < 0.5 else p,
                        'seed': rng.randint(0, 5), 'max_runs': rng.randint(1, 4),
                        'max_failures': rng.choice([None, None, 1, 2])})
        else:
            n = eval(code, dict(ns)).n_k_d[0]
            e = np.zeros(2 * n, dtype=int)
            for q in rng.sample(range(n), rng.randint(0, min(n, 3))):
                pl = 3 if yonly else rng.randint(1, 3)
                e[q] = pl & 1
                e[n + q] = (pl >> 1) & 1
            op = {'op': 'decode', 'code': code, 'dec': dec, 'em': em, 'p': p, 'error': W.bitstr(e)}
            r = rng.random()
            if r < 0.3:
                op['ctx_error'] = W.bitstr(e)
            elif r < 0.45:
                op['ctx_error'] = W.bitstr(np.array([rng.randint(0, 1) for _ in range(2 * n)]))
            ops.append(op)

    # ---- history in this process: shared objects ----
    seen = set()
    here = []
    gstate = X.numeric_state()
    state_changers = []
    for op in ops:
        k = (op['code'], op['dec'], op['em'])
        hit = any(x in seen for x in k)
        seen.update(k)
        r = W.execute(op, get)
        g2 = X.numeric_state()
        if g2 != gstate:
            state_changers.append((op, {k2: [gstate[k2], g2[k2]] for k2 in g2 if g2[k2] != gstate[k2]}))
            gstate = g2
        here.append(r)
        if 'grng' in r:
            flagged.append((op, 0, r['grng']))
        ctx.count(json.dumps(op, sort_keys=True), hit or (op['op'] == 'decode_ftp' and op['T'] > 1),
                  op['op'] + ('-ftp' if op.get('T') and op['op'] == 'run' else ''),
                  dict(op, result=r['result'][:60]) if len(ctx.samples) < 5 else None)
        if op['op'] == 'decode_ftp':
            X.report_ftp(ctx, op, r, 'shared objects, in history')
            continue
        if r['mutated']:
            ctx.violation('mutates-' + '-'.join(r['mutated']), 'a call modified the caller\'s arrays or the code matrices',
                          {'op': op, 'mutated': r['mutated']})
        if r['result'].startswith('ERR'):
            ctx.violation('raises', 'operation raised', {'op': op, 'result': r['result']})

    # ---- same operations: fresh interpreter, other hash seed, fresh objects, reversed order ----
    rev = worker(list(reversed(ops)), hashseed=ctx.seed + 4242)
    rev = list(reversed(rev))
    bad = [i for i in range(nops) if here[i]['result'] != rev[i]['result']]
    for i in bad[:20]:
        # shrink: is the difference reproducible with the operation alone in a third interpreter?
        g0, g1, g2 = X.GSEEDS[:3]
        settings = [(7, g0), (7, g0), (7, g1), (7, g2), (9, g0)]      # (PYTHONHASHSEED, state of the global generators)
        with ThreadPoolExecutor(max_workers=5) as ex:
            alone = list(ex.map(lambda hg: worker([dict(ops[i], gseed=hg[1])], hashseed=hg[0])[0], settings))
        ra = [a['result'] for a in alone]
        if len(set(ra)) > 1:
            # not a matter of history: alone in fresh interpreters the operation is not a function of its arguments
            # (documented random components: their toss is pinned by c06_worker.ambient, so they do not get here for it)
            why = ('nothing: identical settings give different results' if ra[0] != ra[1] else
                   'the state of the process-global generators random / numpy.random' if len(set(ra[:4])) > 1 else 'PYTHONHASHSEED')
            ctx.violation('not-reproducible-fresh', 'the same operation executed alone in fresh interpreters gives different results '
                          'although the component is not documented as random; varies with: ' + why,
                          {'op': ops[i], 'gseeds': [g for _, g in settings], 'hashseeds': [h for h, _ in settings],
                           'results_alone': [r[:300] for r in ra], 'varies_with': why,
                           'global_generators_consumed': [a.get('grng') for a in alone],
                           'note': 'before the operation: random.seed(gseed); numpy.random.seed(gseed)'})
            continue
        ctx.violation('history-dependence', 'result depends on the history / process (shared objects vs fresh interpreter)',
                      {'op': ops[i], 'index_in_history': i, 'in_history': here[i]['result'][:300],
                       'fresh_reversed': rev[i]['result'][:300], 'alone': alone[0]['result'][:300],
                       'preceding_ops': ops[max(0, i - 5):i]})
    ctx.extra['ops_compared_fresh_interpreter'] = nops

    # ---- transient collaborators: one decoder object kept by the caller, error models built inline for a single
    # call and dropped (so a later model may live at the address of a dead one), parameters changing from call to call
    TRANSIENT = [('RotatedPlanarCode(7,7)', 'RotatedPlanarSMWPMDecoder()'), ('RotatedPlanarCode(5,5)', 'RotatedPlanarSMWPMDecoder()'),
                 ('RotatedPlanarCode(5,5)', 'RotatedPlanarMPSDecoder(4)'), ('PlanarCode(4,4)', 'PlanarMPSDecoder(4)'),
                 ('PlanarCode(4,4)', 'PlanarCMWPMDecoder()'), ('RotatedToricCode(4,4)', 'RotatedToricSMWPMDecoder()')]
    T_EMS = ['BiasedDepolarizingErrorModel(0.5, "Y")', 'BiasedDepolarizingErrorModel(1000, "Y")', 'DepolarizingErrorModel()',
             'BiasedDepolarizingErrorModel(10, "Y")', 'BiasedDepolarizingErrorModel(100, "Z")', 'BitFlipErrorModel()']
    n_tr = 0
    for cexpr, dexpr in TRANSIENT:
        kept = {}

        def get_kept(expr):
            if 'ErrorModel' in expr:
                return eval(expr, dict(ns))          # never retained
            if expr not in kept:
                kept[expr] = eval(expr, dict(ns))
            return kept[expr]
        code = get_kept(cexpr)
        n = code.n_k_d[0]
        hist = []
        bad = False
        for j in range(ctx.pick(16, 80)):
            e = np.zeros(2 * n, dtype=int)
            for q in rng.sample(range(n), rng.randint(1, max(2, n // 6))):
                if rng.random() < 0.7:
                    e[q] = e[n + q] = 1
                else:
                    e[q + n * rng.randint(0, 1)] = 1
            op = {'op': 'decode', 'code': cexpr, 'dec': dexpr, 'em': T_EMS[j % 2] if j < 8 else rng.choice(T_EMS),
                  'p': rng.choice([0.1, 0.2]), 'error': W.bitstr(e)}
            r1 = W.execute(op, get_kept)
            r2 = W.execute(op, lambda expr: eval(expr, dict(ns)))
            n_tr += 1
            ctx.count(json.dumps(op, sort_keys=True) + '#transient', j > 0, 'decode-transient-em', None)
            if r1['result'] != r2['result'] and not bad:
                bad = True
                ctx.violation('history-dependence', 'a decoder object kept across calls, each call with an error model built inline and '
                              'dropped afterwards, decodes differently from a fresh decoder with the same arguments',
                              {'op': op, 'index_in_history': j, 'in_history': r1['result'][:300], 'fresh': r2['result'][:300],
                               'preceding_ops': hist[-6:], 'note': 'error models are not retained between calls; decoder and code are'})
            hist.append(op)
    ctx.extra['transient_collaborator_ops'] = n_tr

    # ---- a sample alone, one interpreter per operation ----
    sample = rng.sample(range(nops), ctx.pick(16, 96))
    with ThreadPoolExecutor(max_workers=16) as ex:
        alone = list(ex.map(lambda i: worker([ops[i]], hashseed=1000 + i)[0], sample))
    for i, r in zip(sample, alone):
        ctx.count(('alone', i), True, 'alone')
        if r['result'] != here[i]['result']:
            ctx.violation('history-dependence', 'result in history differs from the operation alone in a fresh interpreter',
                          {'op': ops[i], 'in_history': here[i]['result'][:300], 'alone': r['result'][:300],
                           'preceding_ops': ops[max(0, i - 5):i]})

    # ---- recovery does not depend on the true error passed as context ----
    groups = {}
    for op, r in zip(ops, here):
        if op['op'] == 'decode':
            key = (op['code'], op['dec'], op['em'], op['p'], op['error'])
            groups.setdefault(key, set()).add(r['result'])
    for op in [o for o in ops if o['op'] == 'decode'][:ctx.pick(150, 1000)]:
        base = dict(op)
        base.pop('ctx_error', None)
        n2 = len(op['error'])
        base['gseed'] = rng.randrange(2 ** 32)     # same state of the global generators: only the context differs
        other = dict(base, ctx_error=W.bitstr(np.array([rng.randint(0, 1) for _ in range(n2)])))
        r1, r2 = W.execute(base, get), W.execute(other, get)
        ctx.count(('ctx', json.dumps(base, sort_keys=True)), True, 'context-independence')
        if r1['result'] != r2['result']:
            ctx.violation('context-dependence', 'recovery depends on the error passed as context',
                          {'op': base, 'without': r1['result'], 'with_other_error': r2['result']})

    # ---- direct decode_ftp: the result does not depend on the true errors passed as context (error, step_errors) ----
    for op in [o for o in ops if o['op'] == 'decode_ftp' and o['ctx'] == 'full'][:ctx.pick(40, 300)]:
        base = dict(op, gseed=rng.randrange(2 ** 32))
        r1, r2 = W.execute(base, get), W.execute(dict(base, ctx='meas'), get)
        ctx.count(('ctx-ftp', json.dumps(op, sort_keys=True)), True, 'context-independence-ftp')
        if r1['result'] != r2['result']:
            ctx.violation('context-dependence', 'decode_ftp result depends on the true errors passed as context (error, step_errors)',
                          {'op': op, 'with_error_context': r1['result'][:300], 'without': r2['result'][:300]})

    # ---- stopping limits: one observed reference run, every kind of limit pair decided by the extracted run loop ----
    t0 = time.time()
    L.limits_block(ctx, get, nconf=ctx.pick(40, 240), M=ctx.pick(10, 16))
    ctx.extra['limits_block_seconds'] = round(time.time() - t0, 1)

    # ---- related syndromes after one another; prior component x tie-prone target matrix (pristine forks) ----
    k = ctx.pick(1, 4)
    state_changers += X.related_block(ctx, {'planar': 500 * k, 'planar-y': 40 * k, 'toric': 100 * k, 'rotatedplanar': 100 * k,
                                            'rotatedtoric': 60 * k, 'color': 24 * k})
    X.matrix_block(ctx, extra_priors=state_changers, flagged_elsewhere=flagged + X.RELATED_FLAGGED)


def replay(path):
    d = json.load(open(path))
    print(json.dumps(d, indent=1, default=str))
    rp = d.get('replay', {})
    if isinstance(rp, dict) and 'error_model' in rp and ('limits' in rp or 'limits_a' in rp):
        import logging
        logging.getLogger('qecsim').setLevel(logging.ERROR)
        return L.replay(rp)
    if isinstance(rp, dict) and isinstance(rp.get('op'), dict) and rp['op'].get('op') == 'decode_ftp' and 'gseeds' not in rp:
        # the direct call alone in a fresh interpreter: arrays before/after, the same arrays decoded again
        r = worker([rp['op']], hashseed=5)[0]
        print('result            :', r['result'][:400])
        print('arrays modified   :', r['mutated'], json.dumps(r.get('mutated_detail')))
        print('same arrays again :', r.get('redecode', 'same result')[:400])
        return 1 if (r['mutated'] or 'redecode' in r or r['result'].startswith('ERR') or '!syndrome' in r['result']) else 0
    if isinstance(rp, dict) and 'gseeds' in rp and ('target' in rp or 'op' in rp):
        # re-execute the operation alone, first thing in pristine forks, once per state of the global generators
        t = rp.get('target') or rp['op']
        if 'hashseeds' in rp:
            out = [worker([dict(t, gseed=g)], hashseed=h)[0]['result'] for h, g in zip(rp['hashseeds'], rp['gseeds'])]
        else:
            out = [r[0]['result'] for r in X.serve([[dict(t, gseed=g)] for g in rp['gseeds']], hashseed=5)]
        for j, (g, o) in enumerate(zip(rp['gseeds'], out)):
            print('%sgseed %-8d: %s' % ('PYTHONHASHSEED %d ' % rp['hashseeds'][j] if 'hashseeds' in rp else '', g, o[:400]))
        return 1 if len(set(out)) > 1 else 0
    if isinstance(rp, dict) and 'target' in rp and 'history' in rp:
        # re-execute: target alone vs target after the history, each in a pristine fork
        res = X.serve([[rp['target']], list(rp['history']) + [rp['target']]], hashseed=5)
        a, b = res[0][0]['result'], res[1][-1]['result']
        print('fresh     :', a[:400])
        print('in history:', b[:400])
        return 1 if a != b else 0
    return 0
