"""C06 — seeded runs are reproducible; decoding is pure and history-independent.
A long interleaved history of decode / run calls on shared decoder, code and error-model objects is executed
in this process; the same operations are re-executed (a) in a fresh interpreter with another PYTHONHASHSEED,
fresh objects and reversed order, (b) a sample each alone in its own interpreter.  Any difference is a
history / process dependence.  Also: caller arrays and code matrices are never modified, the recovery does not
depend on the `error` context, and a longer seeded run extends a shorter one.
harness/c06_extra.py adds (every scenario in a pristine fork of a fresh interpreter): groups of RELATED syndromes
(same defects in one sector, other sector varied) decoded in every rotation and in long shuffled histories for every
stateful decoder family; a matrix "any component family used before" x "tie-prone targets of every family"
(all-syndrome sweeps of tiny codes, many-run seeded runs at high p); recoveries kept or overwritten by the caller;
process-global numeric state (mpmath/numpy/decimal) snapshots that direct a heavier battery."""
import json
import os
import subprocess
import sys
from concurrent.futures import ThreadPoolExecutor

import numpy as np

from harness.common import REPO, VERIF
from harness import c06_worker as W
from harness import c06_extra as X

PAIRS = [
    # (code exprs, decoder exprs, error-model exprs, Y-only noise?)
    (['PlanarCode(3,3)', 'PlanarCode(2,4)', 'PlanarCode(4,3)', 'PlanarCode(2,2)'],
     ['PlanarMWPMDecoder()', 'PlanarCMWPMDecoder()', 'PlanarCMWPMDecoder(2, 3, "r", 1)', 'PlanarMPSDecoder()', 'PlanarMPSDecoder(4)',
      'PlanarMPSDecoder(4, "a")', 'PlanarRMPSDecoder(4)', 'PlanarRMPSDecoder(None, "r")'],
     ['DepolarizingErrorModel()', 'BitFlipErrorModel()', 'BiasedDepolarizingErrorModel(10, "Y")', 'BiasedYXErrorModel(3)',
      'CenterSliceErrorModel((0.2, 0.8, 0), 0.5)', 'PhaseFlipErrorModel()'], False),
    (['PlanarCode(3,3)', 'PlanarCode(2,4)', 'PlanarCode(3,2)'], ['PlanarYDecoder()'], ['BitPhaseFlipErrorModel()'], True),
    (['ToricCode(3,3)', 'ToricCode(2,4)', 'ToricCode(4,4)'], ['ToricMWPMDecoder()'],
     ['DepolarizingErrorModel()', 'BitFlipErrorModel()'], False),
    (['RotatedPlanarCode(3,3)', 'RotatedPlanarCode(3,5)', 'RotatedPlanarCode(4,4)'],
     ['RotatedPlanarMPSDecoder(4)', 'RotatedPlanarMPSDecoder()', 'RotatedPlanarRMPSDecoder(4)', 'RotatedPlanarRMPSDecoder(None, "a")',
      'RotatedPlanarSMWPMDecoder()', 'RotatedPlanarSMWPMDecoder(3)'],
     ['DepolarizingErrorModel()', 'BiasedDepolarizingErrorModel(10, "Y")', 'BiasedDepolarizingErrorModel(3, "Y")'], False),
    (['RotatedToricCode(2,2)', 'RotatedToricCode(4,4)', 'RotatedToricCode(2,4)'],
     ['RotatedToricSMWPMDecoder()', 'RotatedToricSMWPMDecoder(False, 3)'],
     ['DepolarizingErrorModel()', 'BiasedDepolarizingErrorModel(10, "Y")'], False),
    (['Color666Code(3)', 'Color666Code(5)'], ['Color666MPSDecoder(4)', 'Color666MPSDecoder()'],
     ['DepolarizingErrorModel()', 'BitFlipErrorModel()'], False),
    (['FiveQubitCode()', 'SteaneCode()'], ['NaiveDecoder()'], ['DepolarizingErrorModel()', 'PhaseFlipErrorModel()'], False),
]
FTP = [(['RotatedPlanarCode(3,3)', 'RotatedPlanarCode(3,4)'], ['RotatedPlanarSMWPMDecoder()'],
        ['BitPhaseFlipErrorModel()', 'DepolarizingErrorModel()', 'BiasedDepolarizingErrorModel(10, "Y")']),
       (['RotatedToricCode(2,2)', 'RotatedToricCode(2,4)'], ['RotatedToricSMWPMDecoder()'],
        ['BitPhaseFlipErrorModel()', 'DepolarizingErrorModel()'])]


def worker(ops, hashseed, timeout=1500):
    env = dict(os.environ)
    env['PYTHONPATH'] = os.path.join(REPO, 'src') + ':' + VERIF
    env['PYTHONHASHSEED'] = str(hashseed)
    p = subprocess.run([sys.executable, '-W', 'ignore', '-m', 'harness.c06_worker'], input=json.dumps(ops),
                       capture_output=True, text=True, env=env, timeout=timeout, cwd=VERIF)
    lines = [l for l in p.stdout.split('\n') if l.startswith('{')]
    if len(lines) != len(ops):
        raise RuntimeError('worker returned %d results for %d ops: %s' % (len(lines), len(ops), p.stderr[-500:]))
    return [json.loads(l) for l in lines]


def run(ctx):
    import logging
    logging.getLogger('qecsim').setLevel(logging.ERROR)
    import warnings
    warnings.simplefilter('ignore')
    rng = ctx.rng
    ctx.rule = ('one interleaved history of decode/run operations over shared code, decoder and error-model objects '
                '(reuse vs fresh construction, equal codes, other sizes/families, p = 1 vs 1.0, runs between decodes); '
                'every operation re-executed in a fresh interpreter (other PYTHONHASHSEED, fresh objects, reversed '
                'order) and a sample alone in their own interpreters. nontrivial = operation whose code/decoder/'
                'error-model expression was already used earlier in the history (cache hit on shared state). '
                'Plus, each scenario in a pristine fork: related-syndrome groups (shared defects in one sector / shared '
                'X-, Z- or Y-part, 3-5 variants of the other part, every rotation + long shuffled histories with repeats; '
                'nontrivial = decode that is not the first of its scenario), and prior-family x tie-prone-target matrix '
                '(nontrivial = target executed after a prior activity); reference = same operation first in a pristine fork')
    ctx.props_obligations()
    ns = W.namespace()
    shared = {}

    def get(expr):
        # reuse a shared object most of the time; sometimes build a fresh (equal) one
        if expr in shared and rng.random() < 0.75:
            return shared[expr]
        o = eval(expr, dict(ns))
        shared[expr] = o
        return o

    nops = ctx.pick(420, 4000)
    ops = []
    for i in range(nops):
        if rng.random() < 0.12:
            codes, decs, ems = rng.choice(FTP)
            ops.append({'op': 'run', 'code': rng.choice(codes), 'dec': rng.choice(decs), 'em': rng.choice(ems),
                        'p': rng.choice([0.05, 0.2]), 'seed': rng.randint(0, 5), 'max_runs': rng.randint(1, 3),
                        'T': rng.randint(1, 3), 'q': rng.choice([None, 0.0, 0.1])})
            continue
        codes, decs, ems, yonly = rng.choice(PAIRS)
        code, dec, em = rng.choice(codes), rng.choice(decs), rng.choice(ems)
        p = rng.choice([0.05, 0.1, 0.3, 1, 1.0, 0.5])
        if p in (1, 1.0) and 'MPS' in dec:
            p = 0.25
        if rng.random() < 0.2:
            ops.append({'op': 'run', 'code': code, 'dec': dec, 'em': em, 'p': float(p) if rng.random() < 0.5 else p,
                        'seed': rng.randint(0, 5), 'max_runs': rng.randint(1, 4),
                        'max_failures': rng.choice([None, None, 1, 2])})
        else:
            n = eval(code, dict(ns)).n_k_d[0]
            e = np.zeros(2 * n, dtype=int)
            for q in rng.sample(range(n), rng.randint(0, min(n, 3))):
                pl = 3 if yonly else rng.randint(1, 3)
                e[q] = pl & 1
                e[n + q] = (pl >> 1) & 1
            op = {'op': 'decode', 'code': code, 'dec': dec, 'em': em, 'p': p, 'error': W.bitstr(e)}
            r = rng.random()
            if r < 0.3:
                op['ctx_error'] = W.bitstr(e)
            elif r < 0.45:
                op['ctx_error'] = W.bitstr(np.array([rng.randint(0, 1) for _ in range(2 * n)]))
            ops.append(op)

    # ---- history in this process: shared objects ----
    seen = set()
    here = []
    gstate = X.numeric_state()
    state_changers = []
    for op in ops:
        k = (op['code'], op['dec'], op['em'])
        hit = any(x in seen for x in k)
        seen.update(k)
        r = W.execute(op, get)
        g2 = X.numeric_state()
        if g2 != gstate:
            state_changers.append((op, {k2: [gstate[k2], g2[k2]] for k2 in g2 if g2[k2] != gstate[k2]}))
            gstate = g2
        here.append(r)
        ctx.count(json.dumps(op, sort_keys=True), hit, op['op'] + ('-ftp' if op.get('T') else ''),
                  dict(op, result=r['result'][:60]) if len(ctx.samples) < 5 else None)
        if r['mutated']:
            ctx.violation('mutates-' + '-'.join(r['mutated']), 'a call modified the caller\'s arrays or the code matrices',
                          {'op': op, 'mutated': r['mutated']})
        if r['result'].startswith('ERR'):
            ctx.violation('raises', 'operation raised', {'op': op, 'result': r['result']})

    # ---- same operations: fresh interpreter, other hash seed, fresh objects, reversed order ----
    rev = worker(list(reversed(ops)), hashseed=ctx.seed + 4242)
    rev = list(reversed(rev))
    bad = [i for i in range(nops) if here[i]['result'] != rev[i]['result']]
    for i in bad[:20]:
        # shrink: is the difference reproducible with the operation alone in a third interpreter?
        alone = worker([ops[i]], hashseed=7)[0]
        ctx.violation('history-dependence', 'result depends on the history / process (shared objects vs fresh interpreter)',
                      {'op': ops[i], 'index_in_history': i, 'in_history': here[i]['result'][:300],
                       'fresh_reversed': rev[i]['result'][:300], 'alone': alone['result'][:300],
                       'preceding_ops': ops[max(0, i - 5):i]})
    ctx.extra['ops_compared_fresh_interpreter'] = nops

    # ---- a sample alone, one interpreter per operation ----
    sample = rng.sample(range(nops), ctx.pick(16, 96))
    with ThreadPoolExecutor(max_workers=16) as ex:
        alone = list(ex.map(lambda i: worker([ops[i]], hashseed=1000 + i)[0], sample))
    for i, r in zip(sample, alone):
        ctx.count(('alone', i), True, 'alone')
        if r['result'] != here[i]['result']:
            ctx.violation('history-dependence', 'result in history differs from the operation alone in a fresh interpreter',
                          {'op': ops[i], 'in_history': here[i]['result'][:300], 'alone': r['result'][:300],
                           'preceding_ops': ops[max(0, i - 5):i]})

    # ---- recovery does not depend on the true error passed as context ----
    groups = {}
    for op, r in zip(ops, here):
        if op['op'] == 'decode':
            key = (op['code'], op['dec'], op['em'], op['p'], op['error'])
            groups.setdefault(key, set()).add(r['result'])
    for op in [o for o in ops if o['op'] == 'decode'][:ctx.pick(150, 1000)]:
        base = dict(op)
        base.pop('ctx_error', None)
        n2 = len(op['error'])
        other = dict(base, ctx_error=W.bitstr(np.array([rng.randint(0, 1) for _ in range(n2)])))
        r1, r2 = W.execute(base, get), W.execute(other, get)
        ctx.count(('ctx', json.dumps(base, sort_keys=True)), True, 'context-independence')
        if r1['result'] != r2['result']:
            ctx.violation('context-dependence', 'recovery depends on the error passed as context',
                          {'op': base, 'without': r1['result'], 'with_other_error': r2['result']})

    # ---- a longer seeded run extends a shorter one (recording error model) ----
    from qecsim import app
    from qecsim.model import ErrorModel

    class Rec(ErrorModel):
        def __init__(self, inner):
            self.inner, self.log = inner, []

        def generate(self, code, probability, rng=None):
            e = self.inner.generate(code, probability, rng)
            self.log.append(W.bitstr(e))
            return e

        def probability_distribution(self, probability):
            return self.inner.probability_distribution(probability)

        @property
        def label(self):
            return self.inner.label
    for _ in range(ctx.pick(40, 300)):
        if rng.random() < 0.35:
            codes, decs, ems = rng.choice(FTP)
            T = rng.randint(1, 3)
        else:
            codes, decs, ems, yonly = rng.choice([p for p in PAIRS if 'MPS' not in p[1][0] or True])
            T = None
        code, dec, em = rng.choice(codes), rng.choice(decs), rng.choice(ems)
        if 'MPSDecoder()' in dec or 'None' in dec:
            dec = decs[0]
        seed = rng.randint(0, 99)
        p = rng.choice([0.05, 0.15, 0.4])
        a, b = sorted(rng.sample(range(1, 9), 2))
        f1, f2 = rng.choice([(None, None), (1, 2), (1, None), (2, 3)])
        logs = []
        datas = []
        import random as _random
        for (mr, mf) in ((a, f1), (b, f2)):
            _random.seed(20260930)      # the Y decoder's documented coin toss between exactly tied cosets
            rec = Rec(get(em))
            if T:
                d = app.run_ftp(get(code), T, rec, get(dec), p, rng.choice([None, 0.1]) if False else None,
                                max_runs=mr, max_failures=mf, random_seed=seed)
            else:
                d = app.run(get(code), rec, get(dec), p, max_runs=mr, max_failures=mf, random_seed=seed)
            logs.append(rec.log)
            datas.append(d)
        ctx.count(('prefix', code, dec, em, seed, a, b, f1, f2, T), True, 'prefix-extension',
                  {'code': code, 'decoder': dec, 'seed': seed, 'limits': [[a, f1], [b, f2]], 'generated': [len(l) for l in logs]}
                  if len(ctx.samples) < 6 else None)
        rep = {'code': code, 'decoder': dec, 'error_model': em, 'seed': seed, 'p': p, 'T': T, 'limits': [[a, f1], [b, f2]],
               'n_run': [d['n_run'] for d in datas]}
        short, long_ = (logs[0], logs[1]) if len(logs[0]) <= len(logs[1]) else (logs[1], logs[0])
        if long_[:len(short)] != short:
            ctx.violation('stream-depends-on-limits', 'seeded error stream depends on the stopping limits', rep)
        if datas[0]['n_run'] > datas[1]['n_run']:
            ctx.violation('longer-run-shorter', 'larger limits gave fewer runs', rep)
        # repeating the very same run gives identical data
        rec = Rec(get(em))
        _random.seed(20260930)
        kw = dict(max_runs=a, max_failures=f1, random_seed=seed)
        d = app.run_ftp(get(code), T, rec, get(dec), p, None, **kw) if T else app.run(get(code), rec, get(dec), p, **kw)
        if {k: v for k, v in d.items() if k != 'wall_time'} != {k: v for k, v in datas[0].items() if k != 'wall_time'}:
            ctx.violation('not-reproducible', 'repeating a seeded run in the same process gives different data', rep)

    # ---- related syndromes after one another; prior component x tie-prone target matrix (pristine forks) ----
    k = ctx.pick(1, 4)
    state_changers += X.related_block(ctx, {'planar': 500 * k, 'planar-y': 40 * k, 'toric': 100 * k, 'rotatedplanar': 100 * k,
                                            'rotatedtoric': 60 * k, 'color': 24 * k})
    X.matrix_block(ctx, extra_priors=state_changers)


def replay(path):
    d = json.load(open(path))
    print(json.dumps(d, indent=1, default=str))
    rp = d.get('replay', {})
    if isinstance(rp, dict) and 'target' in rp and 'history' in rp:
        # re-execute: target alone vs target after the history, each in a pristine fork
        res = X.serve([[rp['target']], list(rp['history']) + [rp['target']]], hashseed=5)
        a, b = res[0][0]['result'], res[1][-1]['result']
        print('fresh     :', a[:400])
        print('in history:', b[:400])
        return 1 if a != b else 0
    return 0
