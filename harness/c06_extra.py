"""C06 extras: pristine-fork scenario server and two history classes the plain random history does not reach.

Server (`python -m harness.c06_extra < job.json`): imports qecsim once, never constructs or decodes anything
itself, and executes every *scenario* (a list of operations on objects shared within the scenario) in its own
freshly forked child, so every scenario starts from the state of a just-started interpreter.  The first
operation of a scenario is therefore the operation "in a fresh state"; later operations see whatever the earlier
ones left behind (caches, class attributes, process-global numeric settings).

Blocks (called from harness/c06.py):
* related_block  — groups of RELATED syndromes (same defects in one sector / same X-, Z- or Y-part of the
  error, different other part; or the very same syndrome under several priors) decoded after one another in every rotation, for every stateful decoder family,
  plus one long shuffled history per lattice family; each decode is compared with the same decode done first in
  a pristine fork.
* matrix_block   — every component family as PRIOR activity before a battery of tie-prone TARGETS of every
  family (all-syndrome sweeps of tiny codes, many-run seeded runs at high p), compared with the target in a
  pristine fork; process-global numeric state (mpmath precision, numpy errstate/printoptions, decimal context,
  global numpy RNG, recursion limit) is snapshotted around every operation and a change directs a larger battery.
A violation is always a differing result (recovery / run aggregate), never a mere state change."""
import hashlib
import json
import os
import random
import shutil
import subprocess
import sys
import tempfile

import numpy as np

from harness import c06_worker as W


# ------------------------------------------------------------------ operations
def numeric_state():
    import decimal
    import mpmath
    st = {'mp.prec': int(mpmath.mp.prec), 'mp.dps': int(mpmath.mp.dps), 'mp.trap_complex': bool(mpmath.mp.trap_complex),
          'mp.pretty': bool(mpmath.mp.pretty), 'iv.prec': int(mpmath.iv.prec),
          'np.err': json.dumps(np.geterr(), sort_keys=True),
          'np.print': json.dumps({k: repr(v) for k, v in np.get_printoptions().items()}, sort_keys=True),
          'recursion': sys.getrecursionlimit()}
    dc = decimal.getcontext()
    st['decimal'] = '%s %s %s %s' % (dc.prec, dc.rounding, dc.Emin, dc.Emax)
    # (the global generators `random` / numpy.random are handled by c06_worker.ambient / consumed: they are put in a
    #  different state before every operation and their consumption is reported per operation as 'grng')
    return st


def execute(op, get, returned=None):
    """decode ops may give `syndrome` instead of `error`; `sweep` decodes a list of syndromes; else c06_worker.
    returned: list collecting (array object returned by decode, its canonical string)."""
    from qecsim import paulitools as pt
    if op['op'] == 'decode' and 'syndrome' not in op:
        return W.execute(op, get)
    if op['op'] in ('run', 'decode_ftp'):
        return W.execute(op, get)
    code, dec, em = get(op['code']), get(op['dec']), get(op['em'])
    kw = {'error_model': em, 'error_probability': op['p']}
    syns = [op['syndrome']] if op['op'] == 'decode' else op['syndromes']
    snap = (code.stabilizers.tobytes(), code.logicals.tobytes())
    out, mutated, used = [], [], {}
    for si, s in enumerate(syns):
        # documented random components: pinned toss; everything else: another state of the global generators each time
        fp = W.ambient(op, dec, em)
        syndrome = W.bits(s)
        try:
            r = dec.decode(code, syndrome, **kw)
            if hasattr(r, 'recovery'):
                r = r.recovery
            res = W.bitstr(r)
            if returned is not None and isinstance(r, np.ndarray):
                returned.append((r, res))
            if not np.array_equal(pt.bsp(np.array(r), code.stabilizers.T), W.bits(s)):
                res += ' !syndrome'
        except Exception as e:  # noqa
            res = 'ERR ' + type(e).__name__
        out.append(res)
        for g in W.consumed(fp):
            used.setdefault(g, si)
        if W.bitstr(syndrome) != s and 'syndrome' not in mutated:
            mutated.append('syndrome')
    after = (code.stabilizers.tobytes(), code.logicals.tobytes())
    mutated += [n for n, a, b in zip(('stabilizers', 'logicals'), snap, after) if a != b]
    r = {'result': ','.join(out), 'mutated': mutated}
    if used:
        r['grng'] = sorted(used)
        r['grng_at'] = min(used.values())       # index of the first syndrome whose decoding advanced a global generator
    return r


def run_scenario(ops, ns):
    objs = {}

    def get(expr):
        if expr not in objs:
            objs[expr] = eval(expr, dict(ns))
        return objs[expr]
    res = []
    st = numeric_state()
    held = []        # recoveries the caller keeps for later use: must not change under later calls
    for i, op in enumerate(ops):
        for e in op.get('new', ()):      # rebuild (equal) objects instead of reusing the scenario's
            objs.pop(op[e], None)
        returned = []
        try:
            r = execute(op, get, returned)
        except Exception as e:  # noqa
            r = {'result': 'ERR! ' + type(e).__name__ + ' ' + str(e)[:100], 'mutated': []}
        if i % 2 == 0:
            held = (held + [(a, t, i) for a, t in returned[-2:]])[-8:]
        else:                            # the caller owns what decode returned: overwrite it in place
            for a, _ in returned:
                if a.flags.writeable:
                    a[...] = 1 - a
        for a, t, j in held:
            if W.bitstr(a) != t:
                r['aliased'] = j
        st2 = numeric_state()
        if st2 != st:
            r['gstate'] = {k: [st[k], st2[k]] for k in st if st[k] != st2[k]}
            st = st2
        res.append(r)
    return res


# direct DecoderFTP.decode_ftp calls (time_steps 1..4): (codes, decoders, error models, decoder needs step_measurement_errors)
FTPD = [(['RotatedPlanarCode(3,3)', 'RotatedPlanarCode(3,5)', 'RotatedPlanarCode(4,4)', 'RotatedPlanarCode(5,5)', 'RotatedPlanarCode(5,3)'],
         ['RotatedPlanarSMWPMDecoder()', 'RotatedPlanarSMWPMDecoder(3)'],
         ['BitPhaseFlipErrorModel()', 'DepolarizingErrorModel()', 'BiasedDepolarizingErrorModel(10, "Y")'], False),
        (['RotatedToricCode(2,2)', 'RotatedToricCode(2,4)', 'RotatedToricCode(4,4)', 'RotatedToricCode(4,2)'],
         ['RotatedToricSMWPMDecoder()', 'RotatedToricSMWPMDecoder(False, 3)', 'RotatedToricSMWPMDecoder(True)'],
         ['BitPhaseFlipErrorModel()', 'DepolarizingErrorModel()', 'BiasedDepolarizingErrorModel(10, "Y")'], True)]
_NQ = {}


def ftp_decode_op(rng, ns, fam=None):
    """A direct decode_ftp call as a user makes it: step errors and measurement errors per time step (the syndrome is built
    from them as qecsim.app does), context arrays passed or not, the 2-d syndrome array held by the caller in several ways."""
    codes, decs, ems, needs_meas = rng.choice(FTPD) if fam is None else FTPD[fam]
    code, dec, em = rng.choice(codes), rng.choice(decs), rng.choice(ems)
    if code not in _NQ:
        c = eval(code, dict(ns))
        _NQ[code] = (c.n_k_d[0], len(c.stabilizers))
    n, m = _NQ[code]
    T = rng.choice([1, 2, 2, 3, 3, 4])
    yonly = 'BitPhaseFlip' in em and '3)' not in dec      # infinite bias (no eta override): only Y errors are in its domain
    pe, qe = rng.choice([0.03, 0.08, 0.15]), rng.choice([0.0, 0.05, 0.15])
    step_errors, step_meas = [], []
    for _ in range(T):
        e = [0] * (2 * n)
        for q in range(n):
            if rng.random() < pe:
                pl = 3 if yonly else rng.randint(1, 3)
                e[q], e[n + q] = pl & 1, (pl >> 1) & 1
        step_errors.append(''.join(map(str, e)))
        step_meas.append(''.join('1' if (T > 1 and rng.random() < qe) else '0' for _ in range(m)))
    ctxs = ['full', 'full', 'meas'] + ([] if needs_meas and T > 1 and '(True)' not in dec else ['none'])
    return {'op': 'decode_ftp', 'code': code, 'dec': dec, 'em': em, 'T': T, 'p': rng.choice([0.05, 0.1, 0.2]),
            'q': rng.choice([None, 0.05, 0.1, 0.2]), 'step_errors': step_errors, 'step_meas': step_meas,
            'ctx': rng.choice(ctxs), 'layout': rng.choice(['own', 'own', 'view', 'fortran', 'readonly'])}


def report_ftp(ctx, op, r, where):
    """direct decode_ftp call: caller-visible arrays bit for bit, decoding the same arrays again, recovery vs syndrome"""
    if r['mutated']:
        ctx.violation('caller-array-modified', 'a direct decode_ftp call modified arrays the caller holds: ' + ', '.join(r['mutated']),
                      {'op': op, 'where': where, 'modified': r['mutated'], 'before_after': r.get('mutated_detail')})
    if 'redecode' in r:
        ctx.violation('redecode-differs', 'decoding the very same syndrome array object a second time gives another result',
                      {'op': op, 'where': where, 'first': r['result'][:300], 'second': r['redecode'][:300],
                       'arrays_modified_by_first_call': r['mutated']})
    if r['result'].startswith('ERR') or '!syndrome' in r['result']:
        ctx.violation('raises' if r['result'].startswith('ERR') else 'recovery-wrong-syndrome',
                      'decode_ftp raised / the recovery does not reproduce the XOR over time of the syndrome the caller supplied',
                      {'op': op, 'where': where, 'result': r['result'][:300]})



# ------------------------------------------------------------------ server
def _child(scenarios, ns, idx, tmp, salt=0):
    try:
        W.set_salt(salt * 8191 + idx + 1)        # every fork: its own sequence of global-generator states
        res = run_scenario(scenarios[idx], ns)
    except BaseException as e:  # noqa
        res = [{'result': 'ERR! scenario ' + type(e).__name__, 'mutated': []}] * len(scenarios[idx])
    with open(os.path.join(tmp, '%d.json' % idx), 'w') as f:
        json.dump(res, f)


def _lane(scenarios, ns, rfd, tmp, salt=0):
    while True:
        tok = os.read(rfd, 8)
        if len(tok) < 8:
            return
        idx = int(tok)
        pid = os.fork()
        if pid == 0:
            try:
                _child(scenarios, ns, idx, tmp, salt)
            finally:
                os._exit(0)
        os.waitpid(pid, 0)


def main():
    import logging
    import warnings
    warnings.simplefilter('ignore')
    logging.getLogger('qecsim').setLevel(logging.ERROR)
    job = json.load(sys.stdin)
    scenarios = job['scenarios']
    ns = W.namespace()
    tmp = tempfile.mkdtemp(prefix='c06x_')
    try:
        order = job.get('order') or list(range(len(scenarios)))
        done = 0
        while done < len(order):          # tokens in chunks that fit a pipe buffer
            chunk = order[done:done + 4000]
            done += len(chunk)
            rfd, wfd = os.pipe()
            os.write(wfd, b''.join(b'%8d' % i for i in chunk))
            os.close(wfd)
            pids = []
            for _ in range(min(job.get('lanes', 8), len(chunk))):
                pid = os.fork()
                if pid == 0:
                    try:
                        _lane(scenarios, ns, rfd, tmp, job.get('salt', 0))
                    finally:
                        os._exit(0)
                pids.append(pid)
            os.close(rfd)
            for pid in pids:
                os.waitpid(pid, 0)
        out = []
        for i in range(len(scenarios)):
            p = os.path.join(tmp, '%d.json' % i)
            if os.path.exists(p):
                out.append(json.load(open(p)))
            else:
                out.append([{'result': 'ERR! scenario crashed', 'mutated': []}] * len(scenarios[i]))
        sys.stdout.write('RESULTS ' + json.dumps(out) + '\n')
        sys.stdout.flush()
    finally:
        shutil.rmtree(tmp, ignore_errors=True)


def serve(scenarios, hashseed=0, lanes=None, timeout=3000, cost=None, salt=None):
    """Run scenarios, each in a pristine fork of one freshly started interpreter; -> list of result lists.
    salt: seeds the per-fork sequence of global `random` / numpy.random states (default: from the hash seed)."""
    from harness.common import REPO, VERIF
    if not scenarios:
        return []
    env = dict(os.environ)
    env['PYTHONPATH'] = os.path.join(REPO, 'src') + ':' + VERIF
    env['PYTHONHASHSEED'] = str(hashseed)
    lanes = lanes or min(16, max(2, (os.cpu_count() or 4)))
    order = sorted(range(len(scenarios)), key=lambda i: -(cost[i] if cost else len(scenarios[i])))
    p = subprocess.run([sys.executable, '-W', 'ignore', '-m', 'harness.c06_extra'],
                       input=json.dumps({'scenarios': scenarios, 'lanes': lanes, 'order': order,
                                         'salt': (hashseed * 31 + 7) if salt is None else salt}),
                       capture_output=True, text=True, env=env, timeout=timeout, cwd=VERIF)
    lines = [l for l in p.stdout.split('\n') if l.startswith('RESULTS ')]
    if not lines:
        raise RuntimeError('c06_extra server failed: rc=%s %s' % (p.returncode, p.stderr[-800:]))
    out = json.loads(lines[-1][8:])
    assert len(out) == len(scenarios) and all(len(a) == len(b) for a, b in zip(out, scenarios))
    return out


def serve2(scenarios, part, hashseeds, cost=None):
    """Two servers with different PYTHONHASHSEED running concurrently; part[i] in (0, 1) says which one executes
    scenario i (so that reference and history runs also differ in process and hash seed)."""
    from concurrent.futures import ThreadPoolExecutor
    cost = cost or [len(x) for x in scenarios]
    idx = [[i for i, q in enumerate(part) if q == k] for k in (0, 1)]
    tot = [sum(cost[i] for i in ix) for ix in idx]
    ncpu = min(16, max(2, os.cpu_count() or 4))
    lanes = [max(2, min(ncpu, int(round(ncpu * t / max(1, sum(tot)))) + 1)) for t in tot]
    out = [None] * len(scenarios)
    with ThreadPoolExecutor(2) as ex:
        futs = [ex.submit(serve, [scenarios[i] for i in ix], hashseeds[k], lanes[k], 3000, [cost[i] for i in ix])
                for k, ix in enumerate(idx)]
        for ix, f in zip(idx, futs):
            for i, r in zip(ix, f.result()):
                out[i] = r
    return out


if __name__ == '__main__':
    main()


# ------------------------------------------------------------------ helpers for the blocks (harness side)
def _sectors(code):
    st = np.asarray(code.stabilizers)
    n = st.shape[1] // 2
    xrows = [i for i, r in enumerate(st) if not r[n:].any()]     # X-type checks: see the Z-part of an error
    zrows = [i for i, r in enumerate(st) if not r[:n].any()]     # Z-type checks: see the X-part of an error
    return xrows, zrows


def _confirm(ctx, key, what, hist, target, expected, got, extra=None):
    """hist: ops preceding `target` in the scenario where `got` != `expected` (= target first in a pristine fork).
    Re-run in new pristine forks: the target alone (twice, another hash seed), and target after each single
    preceding op; report the shortest history that reproduces the difference."""
    cands = hist[:3] + hist[-3:] if len(hist) > 6 else list(hist)
    cands = [dict(h, syndromes=h['syndromes'][:1]) for h in cands if h['op'] == 'sweep' and len(h['syndromes']) > 1] + cands
    na = len(GSEEDS) + 1
    scen = [[dict(target, gseed=g)] for g in GSEEDS + GSEEDS[:1]] + [[h, target] for h in cands] + [list(hist) + [target]]
    res = serve(scen, hashseed=ctx.seed + 99)
    alone = [r[0]['result'] for r in res[:na]]
    alone1 = alone[0]
    rep = {'target': target, 'fresh': expected[:400], 'in_history': got[:400], 'fresh_again': alone1[:400]}
    if extra:
        rep.update(extra)
    if len(set(alone)) > 1:
        # not a matter of history at all: the operation alone, first thing in pristine forks, is not a function of
        # its arguments (documented random components never get here: their toss is pinned by c06_worker.ambient)
        _report_unreproducible(ctx, target, alone, [r[0].get('grng') for r in res[:na]], rep)
        return
    if alone1 != expected:
        ctx.violation('fresh-process-dependence', 'the same operation alone in two pristine processes gives different results', rep)
        return
    for h, r in zip(cands, res[na:na + len(cands)]):
        if r[1]['result'] != alone1:
            rep.update(history=[h], in_history=r[1]['result'][:400], prior_changed_global_state=r[0].get('gstate'))
            ctx.violation(key, what + ' (minimal history: one prior operation)', rep)
            return
    full = res[-1]
    rep['history'] = list(hist)
    rep['reproduced_in_new_fork'] = full[-1]['result'] != alone1
    ctx.violation(key, what, rep)


GSEEDS = (11, 222, 3333, 44444, 555555, 6666666)      # explicit states of the global generators for re-runs alone


def _report_unreproducible(ctx, target, results, consumed, extra=None):
    rep = dict(extra or {})
    gs = list((GSEEDS + GSEEDS)[:len(results)])
    same = [r for g, r in zip(gs, results) if g == gs[0]]
    rep.update(target=target, gseeds=gs, results_alone_in_pristine_forks=[x[:400] for x in results],
               varies_with=('nothing: identical settings give different results' if len(set(same)) > 1 else
                            'the state of the process-global generators random / numpy.random'),
               global_generators_consumed=consumed,
               note='target executed alone as the first operation of a pristine fork, once per gseed, after '
                    'random.seed(gseed); numpy.random.seed(gseed); the component is not one of the documented random '
                    'ones (PlanarYDecoder, decoders constructed with stp, FileErrorModel)')
    ctx.violation('not-reproducible-fresh', 'the same operation executed alone in pristine processes gives different results '
                  'although the component is not documented as random; varies with: ' + rep['varies_with'], rep)


def single_target(op, k=0):
    """the k-th decode of a sweep as a single decode operation (other operations unchanged)"""
    if op['op'] != 'sweep':
        return {k2: v for k2, v in op.items() if k2 != 'new'}
    tgt = {k2: v for k2, v in op.items() if k2 not in ('syndromes', 'new')}
    tgt.update(op='decode', syndrome=op['syndromes'][k])
    return tgt


def rng_consumers(ctx, flagged, limit=6):
    """flagged: [(op, index of the decode within a sweep or 0, which generators)] - operations of non-documented
    components that advanced a process-global generator.  That alone is no violation; each distinct one is executed
    alone in pristine forks under several states of the global generators: a differing result is."""
    seen, todo = set(), []
    for op, k, which in flagged:
        key = (op['op'], op['code'], op['dec'], op['em'])
        if key not in seen:
            seen.add(key)
            todo.append((single_target(op, k), which))
    ctx.extra['global_generator_consumers'] = [{'op': {k: v for k, v in t.items()}, 'generators': w} for t, w in todo][:10]
    todo = todo[:limit]
    if not todo:
        return
    scen = [[dict(t, gseed=g)] for t, _ in todo for g in GSEEDS + GSEEDS[:1]]
    res = serve(scen, hashseed=ctx.seed + 211)
    na = len(GSEEDS) + 1
    for i, (t, which) in enumerate(todo):
        rs = res[i * na:(i + 1) * na]
        alone = [r[0]['result'] for r in rs]
        ctx.count(('grng', json.dumps(t, sort_keys=True)), True, 'global-generator-consumer-alone', n=na)
        if len(set(alone)) > 1:
            _report_unreproducible(ctx, t, alone, [r[0].get('grng') for r in rs], {'found_by': 'operation advanced ' + ', '.join(which)})


def _first_diff(a, b):
    xa, xb = a.split(','), b.split(',')
    for i, (u, v) in enumerate(zip(xa, xb)):
        if u != v:
            return i
    return None


# ------------------------------------------------------------------ block 1: related syndromes
RELATED = [
    # (family, [(code expr, weight)], [(decoder expr, weight)], [error models], y-only, p choices)
    ('planar', [('PlanarCode(5,5)', 4), ('PlanarCode(4,4)', 2), ('PlanarCode(3,5)', 1), ('PlanarCode(6,4)', 1), ('PlanarCode(3,3)', 1)],
     [('PlanarCMWPMDecoder()', 6), ('PlanarCMWPMDecoder(2, 3, "r", 1)', 2), ('PlanarCMWPMDecoder(3, 2, "f", 4)', 1),
      ('PlanarMWPMDecoder()', 2), ('PlanarMPSDecoder(4)', 1), ('PlanarMPSDecoder(4, "a")', 0.5), ('PlanarRMPSDecoder(4)', 0.5)],
     ['DepolarizingErrorModel()', 'BiasedDepolarizingErrorModel(10, "Y")'], False, [0.1, 0.3]),
    ('planar-y', [('PlanarCode(5,5)', 2), ('PlanarCode(4,4)', 1), ('PlanarCode(3,4)', 1)],
     [('PlanarYDecoder()', 1)], ['BitPhaseFlipErrorModel()'], True, [0.1, 0.3]),
    ('toric', [('ToricCode(5,5)', 2), ('ToricCode(4,4)', 2), ('ToricCode(3,6)', 1), ('ToricCode(6,6)', 1)],
     [('ToricMWPMDecoder()', 1)], ['DepolarizingErrorModel()'], False, [0.1]),
    ('rotatedplanar', [('RotatedPlanarCode(5,5)', 3), ('RotatedPlanarCode(4,6)', 1), ('RotatedPlanarCode(7,7)', 1), ('RotatedPlanarCode(3,3)', 1)],
     [('RotatedPlanarSMWPMDecoder()', 4), ('RotatedPlanarSMWPMDecoder(3)', 1), ('RotatedPlanarMPSDecoder(4)', 1),
      ('RotatedPlanarRMPSDecoder(4)', 1)],
     ['DepolarizingErrorModel()', 'BiasedDepolarizingErrorModel(10, "Y")', 'BitPhaseFlipErrorModel()'], False, [0.1, 0.3]),
    ('rotatedtoric', [('RotatedToricCode(4,4)', 2), ('RotatedToricCode(6,4)', 1), ('RotatedToricCode(6,6)', 1)],
     [('RotatedToricSMWPMDecoder()', 3), ('RotatedToricSMWPMDecoder(False, 3)', 1)],
     ['DepolarizingErrorModel()', 'BiasedDepolarizingErrorModel(10, "Y")'], False, [0.1]),
    ('color', [('Color666Code(5)', 2), ('Color666Code(7)', 1), ('Color666Code(3)', 1)],
     [('Color666MPSDecoder(4)', 1)], ['DepolarizingErrorModel()'], False, [0.1, 0.3]),
]
OTHER_SIZES = [1, 2, 3, 4, 6, 8, 12]
PRIOR_PS = [0.02, 0.05, 0.1, 0.2, 0.3, 0.45]


def _wchoice(rng, pairs):
    tot = sum(w for _, w in pairs)
    x = rng.random() * tot
    for v, w in pairs:
        x -= w
        if x < 0:
            return v
    return pairs[-1][0]


RELATED_FLAGGED = []


def related_block(ctx, ngroups):
    """ngroups: {family: number of groups}.  Each group: one shared part, V variants of the other part."""
    from qecsim import paulitools as pt
    rng = ctx.rng
    ns = W.namespace()
    codes = {}
    scenarios, meta = [], []         # meta[i] = (family, list of probe ids in scenario order)
    probes = {}                      # id -> op
    fam_probes = {}
    for fam, cds, decs, ems, yonly, ps in RELATED:
        for g in range(ngroups.get(fam, 0)):
            cexpr = _wchoice(rng, cds)
            if cexpr not in codes:
                c = eval(cexpr, dict(ns))
                codes[cexpr] = (c, _sectors(c), len(c.stabilizers) == c.n_k_d[0] - c.n_k_d[1])
            code, (xrows, zrows), fullrank = codes[cexpr]
            n, m = code.n_k_d[0], len(code.stabilizers)
            dexpr, em, p = _wchoice(rng, decs), rng.choice(ems), rng.choice(ps)
            # V variants of the other part: none, a few, many defects (set/dict-keyed state iterates differently
            # depending on how many other entries it was filtered from)
            V = rng.choice([3, 3, 3, 4, 5])
            sizes = [0, rng.choice(OTHER_SIZES[:3]), rng.choice(OTHER_SIZES[3:])] + rng.sample(OTHER_SIZES, V - 3)
            syns, how = [], None
            if yonly or 'BitPhaseFlip' in em:       # only syndromes of Y-errors are in the domain of infinite bias
                how = 'error-Y'
                qs = list(range(n))
                rng.shuffle(qs)
                w = rng.randint(1, 5)
                for sz in sizes:
                    e = np.zeros(2 * n, dtype=int)
                    for q in qs[:w] + rng.sample(qs[w:], min(sz, n - w)):
                        e[q] = e[n + q] = 1
                    syns.append((W.bitstr(pt.bsp(e, code.stabilizers.T)), W.bitstr(e)))
            elif fullrank and xrows and zrows and rng.random() < 0.6:
                how = 'syndrome-sector'
                A, B = (xrows, zrows) if rng.random() < 0.5 else (zrows, xrows)
                sh = rng.sample(A, rng.randint(2, min(16, len(A))))
                for sz in sizes:
                    s = np.zeros(m, dtype=int)
                    s[sh] = 1
                    s[rng.sample(B, min(sz, len(B)))] = 1
                    syns.append((W.bitstr(s), None))
            else:
                how = 'error-part'
                xs = rng.random() < 0.5        # shared part is the X-part (else the Z-part)
                sh = rng.sample(range(n), rng.randint(1, min(6, n)))
                for sz in sizes:
                    e = np.zeros(2 * n, dtype=int)
                    for q in sh:
                        e[q if xs else n + q] = 1
                    for q in rng.sample(range(n), min(sz, n)):
                        e[n + q if xs else q] = 1
                    syns.append((W.bitstr(pt.bsp(e, code.stabilizers.T)), W.bitstr(e)))
            variants = [(s, e, em, p) for s, e in syns]
            if rng.random() < 0.3:
                # the SAME syndrome under several priors (other probability / error model) on the same decoder and code
                # objects: state keyed on the syndrome but not on the prior shows up in some rotation
                s0, e0 = syns[rng.randrange(len(syns))]
                ems2 = [x for x in ems if how == 'error-Y' or 'BitPhaseFlip' not in x] or [em]
                pri = [(x, y) for x in ems2 for y in PRIOR_PS]
                rng.shuffle(pri)
                variants = [(s0, e0, x, y) for x, y in pri[:max(V, 4)]]
                how += '+same-syndrome-other-prior'
            ids = []
            for s, e, em, p in variants:
                op = {'op': 'decode', 'code': cexpr, 'dec': dexpr, 'em': em, 'p': p, 'syndrome': s}
                pid = json.dumps(op, sort_keys=True)
                if pid in ids:
                    continue
                probes[pid] = dict(op, from_error=e, built=how)
                ids.append(pid)
            fam_probes.setdefault(fam, []).extend(ids)
            for j in range(len(ids)):            # every rotation: each variant is decoded first once
                rot = ids[j:] + ids[:j]
                scenarios.append(rot)
                meta.append((fam, 'rotation'))
    # one long shuffled history per family over everything (shared code objects, decoders interleaved)
    for fam, ids in fam_probes.items():
        ids = list(ids)
        rng.shuffle(ids)
        for a in range(0, len(ids), 300):
            part = ids[a:a + 300]
            part += rng.sample(part, len(part) // 6)      # some syndromes are decoded again later in the same process
            scenarios.append(part)
            meta.append((fam, 'long'))

    def mkop(pid, i):
        op = {k: v for k, v in probes[pid].items() if k not in ('from_error', 'built')}
        if i and rng.random() < 0.3:
            op['new'] = rng.choice([['dec'], ['code'], ['code', 'dec', 'em']])
        return op
    jobs = [[mkop(pid, i) for i, pid in enumerate(sc)] for sc in scenarios]
    import time
    t0 = time.time()
    # rotations (whose first decode is the fresh reference) and long histories in two interpreters, other hash seeds
    res = serve2(jobs, [1 if m[1] == 'long' else 0 for m in meta], (ctx.seed + 17, ctx.seed + 1717))
    ctx.extra['related_block_seconds'] = round(time.time() - t0, 1)
    fresh = {}
    for sc, rs in zip(scenarios, res):
        fresh.setdefault(sc[0], rs[0]['result'])
    nbad = 0
    changed = []
    for si, (sc, rs) in enumerate(zip(scenarios, res)):
        for i, (pid, r) in enumerate(zip(sc, rs)):
            if 'gstate' in r:
                changed.append((jobs[si][i], r['gstate']))
            if 'grng' in r:
                RELATED_FLAGGED.append((jobs[si][i], 0, r['grng']))
            if 'aliased' in r:
                ctx.violation('returned-array-aliased', 'a recovery array returned by an earlier decode changed during a later call',
                              {'history': jobs[si][:i + 1], 'changed_result_of_op': r['aliased']})
            ctx.count(('rel', si, i), i > 0, 'related-' + meta[si][0] + ('-long' if meta[si][1] == 'long' else ''),
                      {'related_scenario': [dict(json.loads(x), result=y['result'][:40]) for x, y in zip(sc[:3], rs[:3])]}
                      if si == 0 and i == 0 else None)
            if r['mutated']:
                ctx.violation('mutates-' + '-'.join(r['mutated']), 'a call modified the caller\'s arrays or the code matrices',
                              {'op': jobs[si][i], 'mutated': r['mutated']})
            if r['result'].startswith('ERR') or r['result'].endswith('!syndrome'):
                ctx.violation('raises' if r['result'].startswith('ERR') else 'recovery-wrong-syndrome',
                              'decode raised / recovery does not reproduce the syndrome', {'op': jobs[si][i], 'result': r['result']})
            exp = fresh.get(pid)
            if exp is not None and r['result'] != exp:
                nbad += 1
                if nbad <= 4:
                    _confirm(ctx, 'history-dependence-related-syndromes',
                             'the recovery for a syndrome differs from the recovery in a fresh process after related syndromes '
                             '(same defects in one sector, or the same syndrome under another prior) were decoded', jobs[si][:i], jobs[si][i], exp, r['result'],
                             {'family': meta[si][0], 'scenario_kind': meta[si][1], 'built': probes[pid]['built'],
                              'error_with_this_syndrome': probes[pid]['from_error']})
    ctx.extra['related_syndrome_scenarios'] = len(scenarios)
    ctx.extra['related_syndrome_decodes'] = sum(len(s) for s in scenarios)
    ctx.extra['related_syndrome_differences'] = nbad
    return changed


# ------------------------------------------------------------------ block 2: prior-component x target matrix
def _run(code, dec, em, p, seed, max_runs, **kw):
    return dict({'op': 'run', 'code': code, 'dec': dec, 'em': em, 'p': p, 'seed': seed, 'max_runs': max_runs}, **kw)


def priors(rng, ns=None):
    """One short activity per component family (a seeded run and nothing else; for the FTP decoders also a direct
    decode_ftp call), on its own objects."""
    s = lambda: rng.randint(0, 9)      # noqa
    dep, bpf = 'DepolarizingErrorModel()', 'BitPhaseFlipErrorModel()'
    P = [
        ('planar-mwpm', [_run(rng.choice(['PlanarCode(3,3)', 'PlanarCode(4,3)']), 'PlanarMWPMDecoder()', dep, 0.1, s(), 3)]),
        ('planar-cmwpm', [_run(rng.choice(['PlanarCode(3,3)', 'PlanarCode(4,4)']), 'PlanarCMWPMDecoder()', dep, 0.15, s(), 3)]),
        ('planar-mps', [_run('PlanarCode(3,3)', rng.choice(['PlanarMPSDecoder(4)', 'PlanarMPSDecoder(None, "a")']), dep, 0.2, s(), 3)]),
        ('planar-rmps', [_run('PlanarCode(3,3)', rng.choice(['PlanarRMPSDecoder(4)', 'PlanarRMPSDecoder(None, "r")']), dep, 0.2, s(), 3)]),
        ('planar-y', [_run(rng.choice(['PlanarCode(3,4)', 'PlanarCode(3,3)', 'PlanarCode(2,4)']), 'PlanarYDecoder()', bpf,
                           rng.choice([0.1, 0.3]), s(), rng.randint(2, 5))]),
        ('toric-mwpm', [_run(rng.choice(['ToricCode(3,3)', 'ToricCode(4,4)']), 'ToricMWPMDecoder()', dep, 0.1, s(), 3)]),
        ('rotatedplanar-mps', [_run('RotatedPlanarCode(3,3)', rng.choice(['RotatedPlanarMPSDecoder(4)', 'RotatedPlanarMPSDecoder(None, "a")']),
                                    dep, 0.2, s(), 3)]),
        ('rotatedplanar-rmps', [_run('RotatedPlanarCode(3,3)', 'RotatedPlanarRMPSDecoder(4)', dep, 0.2, s(), 3)]),
        ('rotatedplanar-smwpm', [_run('RotatedPlanarCode(3,5)', 'RotatedPlanarSMWPMDecoder()', 'BiasedDepolarizingErrorModel(10, "Y")', 0.2, s(), 3),
                                 _run('RotatedPlanarCode(3,3)', 'RotatedPlanarSMWPMDecoder()', bpf, 0.1, s(), 2, T=2, q=0.05)] +
         ([ftp_decode_op(rng, ns, 0)] if ns else [])),
        ('rotatedtoric-smwpm', [_run('RotatedToricCode(4,4)', 'RotatedToricSMWPMDecoder()', dep, 0.1, s(), 3),
                                _run('RotatedToricCode(2,2)', 'RotatedToricSMWPMDecoder()', bpf, 0.1, s(), 2, T=2, q=0.05)] +
         ([ftp_decode_op(rng, ns, 1)] if ns else [])),
        ('color-mps', [_run('Color666Code(3)', rng.choice(['Color666MPSDecoder(4)', 'Color666MPSDecoder()']), dep, 0.2, s(), 3)]),
        ('naive', [_run('FiveQubitCode()', 'NaiveDecoder()', dep, 0.2, s(), 3), _run('SteaneCode()', 'NaiveDecoder()', 'PhaseFlipErrorModel()', 0.2, s(), 3)]),
        ('error-models', [_run('PlanarCode(3,3)', 'PlanarMWPMDecoder()', em, 0.2, s(), 2) for em in
                          ('BiasedDepolarizingErrorModel(10, "Y")', 'BiasedYXErrorModel(3)', 'CenterSliceErrorModel((0.2, 0.8, 0), 0.5)',
                           'BitFlipErrorModel()')]),
    ]
    return P


def battery(ctx, ns, heavy):
    """Tie-prone targets of every family: all-syndrome sweeps of tiny codes and many-run seeded runs at high p.
    -> list of (family, op, cost estimate)"""
    from qecsim import paulitools as pt
    rng = ctx.rng
    dep, bpf = 'DepolarizingErrorModel()', 'BitPhaseFlipErrorModel()'

    def syndromes(cexpr, yonly=False, cap=64):
        code = eval(cexpr, dict(ns))
        n, m = code.n_k_d[0], len(code.stabilizers)
        if yonly:
            errs = [[(i >> q) & 1 for q in range(n)] * 2 for i in range(2 ** n)] if n <= 8 else \
                [[rng.randint(0, 1) for _ in range(n)] * 2 for _ in range(256)]
            ss = sorted({W.bitstr(pt.bsp(np.array(e), code.stabilizers.T)) for e in errs})
        elif m == n - code.n_k_d[1] and m <= 8:
            ss = [format(i, '0%db' % m) for i in range(2 ** m)]
        else:
            ss = sorted({W.bitstr(pt.bsp(np.array([rng.randint(0, 1) for _ in range(2 * n)]), code.stabilizers.T)) for _ in range(4 * cap)})
        if len(ss) > cap:
            ss = rng.sample(ss, cap)
        return ss
    T = []

    def sweeps(fam, codes, decs, ems, ps, yonly=False, cap=64, cost=3):
        for c in codes:
            for d in decs:
                for em in ems:
                    for p in ps:
                        ss = syndromes(c, yonly or 'BitPhaseFlip' in em, cap)
                        T.append((fam, {'op': 'sweep', 'code': c, 'dec': d, 'em': em, 'p': p, 'syndromes': ss}, cost * len(ss)))
    ps = [0.1, 0.3, 0.45] if not heavy else [0.1, 0.3, 0.45, 0.05, 0.2, 0.5]
    mps = ['PlanarMPSDecoder()', 'PlanarMPSDecoder(None, "a")', 'PlanarMPSDecoder(None, "r")', 'PlanarMPSDecoder(4, "a")',
           'PlanarRMPSDecoder()', 'PlanarRMPSDecoder(None, "a")']
    sweeps('planar-mps', ['PlanarCode(2,2)', 'PlanarCode(2,3)'] + (['PlanarCode(3,2)', 'PlanarCode(3,3)'] if heavy else []),
           mps, [dep] + (['BiasedDepolarizingErrorModel(10, "Y")'] if heavy else []), ps)
    sweeps('planar-mwpm', ['PlanarCode(2,3)', 'PlanarCode(3,3)'], ['PlanarMWPMDecoder()', 'PlanarCMWPMDecoder()'], [dep], [0.1], cost=2)
    sweeps('planar-y', ['PlanarCode(2,2)', 'PlanarCode(2,3)', 'PlanarCode(3,3)'], ['PlanarYDecoder()'], [bpf], ps[:2], yonly=True, cost=1)
    sweeps('rotatedplanar', ['RotatedPlanarCode(3,3)'] + (['RotatedPlanarCode(3,4)'] if heavy else []),
           ['RotatedPlanarMPSDecoder()', 'RotatedPlanarMPSDecoder(None, "a")', 'RotatedPlanarRMPSDecoder(None, "a")', 'RotatedPlanarSMWPMDecoder()'],
           [dep] + ([bpf] if heavy else []), ps[:2] if not heavy else ps, cap=48 if not heavy else 128, cost=5)
    sweeps('rotatedtoric', ['RotatedToricCode(2,2)', 'RotatedToricCode(2,4)'], ['RotatedToricSMWPMDecoder()'], [dep], [0.1], cap=32, cost=2)
    sweeps('toric', ['ToricCode(2,2)', 'ToricCode(3,3)'], ['ToricMWPMDecoder()'], [dep], [0.1], cap=32, cost=2)
    sweeps('color', ['Color666Code(3)'], ['Color666MPSDecoder()', 'Color666MPSDecoder(4)'], [dep], ps[:2] if not heavy else ps, cost=8)
    sweeps('basic', ['FiveQubitCode()', 'SteaneCode()'], ['NaiveDecoder()'], [dep], [0.1], cost=1)
    # seeded runs: many runs on tiny codes at high p, where coset ties are common
    nr = 200 if not heavy else 400
    for (fam, c, d, em, cost) in [
            ('planar-mps', 'PlanarCode(2,2)', 'PlanarMPSDecoder(None, "a")', dep, 3), ('planar-mps', 'PlanarCode(2,3)', 'PlanarMPSDecoder()', dep, 3),
            ('planar-mps', 'PlanarCode(2,2)', 'PlanarRMPSDecoder(None, "a")', dep, 3), ('planar-mwpm', 'PlanarCode(3,3)', 'PlanarCMWPMDecoder()', dep, 4),
            ('planar-y', 'PlanarCode(2,3)', 'PlanarYDecoder()', bpf, 1),
            ('rotatedplanar', 'RotatedPlanarCode(3,3)', 'RotatedPlanarMPSDecoder(None, "a")', dep, 6),
            ('rotatedplanar', 'RotatedPlanarCode(3,3)', 'RotatedPlanarSMWPMDecoder()', 'BiasedDepolarizingErrorModel(10, "Y")', 6),
            ('rotatedtoric', 'RotatedToricCode(2,2)', 'RotatedToricSMWPMDecoder()', dep, 2), ('toric', 'ToricCode(3,3)', 'ToricMWPMDecoder()', dep, 3),
            ('color', 'Color666Code(3)', 'Color666MPSDecoder()', dep, 9), ('basic', 'FiveQubitCode()', 'NaiveDecoder()', dep, 1)]:
        for p in ([0.3] if not heavy else [0.2, 0.3, 0.45]):
            n_runs = nr if cost <= 4 else nr // 2
            T.append((fam, _run(c, d, em, p, rng.randint(0, 99), n_runs), cost * n_runs))
    T.append(('rotatedplanar', _run('RotatedPlanarCode(3,3)', 'RotatedPlanarSMWPMDecoder()', bpf, 0.1, rng.randint(0, 99), 20, T=3, q=0.1), 400))
    for fam in (0, 1):       # direct decode_ftp calls (arrays before/after, same arrays decoded again) after every prior family
        for _ in range(8 if not heavy else 24):
            T.append((('rotatedplanar', 'rotatedtoric')[fam] + '-ftp', ftp_decode_op(rng, ns, fam), 6))
    return T


def _chunks(T, nchunks):
    """balanced split of the battery (list of (fam, op, cost)) into nchunks lists of indices"""
    order = sorted(range(len(T)), key=lambda i: -T[i][2])
    bins = [[0, []] for _ in range(nchunks)]
    for i in order:
        b = min(bins, key=lambda x: x[0])
        b[0] += T[i][2]
        b[1].append(i)
    return [sorted(b[1]) for b in bins if b[1]]


def _compare_targets(ctx, scen_ops, scen_res, tidx, fresh, T, label, nbad, key='history-dependence-cross-component',
                     after='after another component was used'):
    """scen_ops/scen_res: one scenario; tidx: {position in scenario: target index}."""
    for pos, ti in tidx.items():
        r, exp = scen_res[pos]['result'], fresh[ti]
        ctx.count((label, pos, ti), True, ('repeat-' if label == 'same-target-repeated' else 'matrix-') + T[ti][0] + '-' + T[ti][1]['op'])
        if r == exp:
            continue
        nbad[0] += 1
        if nbad[0] > 4:
            continue
        op = T[ti][1]
        hist = scen_ops[:pos]
        if op['op'] == 'sweep':
            k = _first_diff(exp, r)
            tgt = {k2: v for k2, v in op.items() if k2 != 'syndromes'}
            tgt.update(op='decode', syndrome=op['syndromes'][k])
            # the sweep decoded syndromes[:k] before this one; keep them as the tail of the history
            pre = dict(op, syndromes=op['syndromes'][:k])
            _confirm(ctx, key,
                     'the recovery for a syndrome differs from the recovery in a fresh process ' + after,
                     hist + ([pre] if k else []), tgt, exp.split(',')[k], r.split(',')[k],
                     {'prior': label, 'n_syndromes_differing_in_sweep': sum(a != b for a, b in zip(exp.split(','), r.split(',')))})
        else:
            _confirm(ctx, key,
                     ('the result of a direct decode_ftp call differs from the same call in a fresh process ' if op['op'] == 'decode_ftp' else
                      'the aggregate of a seeded run differs from the same run in a fresh process ') + after,
                     hist, op, exp, r, {'prior': label})


REPEATS = 3


def matrix_block(ctx, extra_priors=(), flagged_elsewhere=()):
    """extra_priors: operations (from any block) observed to change process-global numeric state.
    flagged_elsewhere: (op, k, generators) of operations seen to advance a process-global generator in other blocks."""
    rng = ctx.rng
    ns = W.namespace()
    T = battery(ctx, ns, heavy=not ctx.quick)
    P = priors(rng, ns)
    nch = ctx.pick(2, 4)
    chunks = _chunks(T, nch)
    scen, meta, cost = [], [], []
    for ti, (fam, op, c) in enumerate(T):          # reference: every target first in a pristine fork ...
        scen.append([op] * REPEATS)                # ... and again in the same process, other global-generator states
        meta.append(('fresh', ti))
        cost.append(c * REPEATS)
    for name, pops in P:
        for ch in chunks:
            ch = list(ch)
            rng.shuffle(ch)
            scen.append(list(pops) + [T[i][1] for i in ch])
            meta.append((name, {len(pops) + j: i for j, i in enumerate(ch)}))
            cost.append(sum(T[i][2] for i in ch))
    import time
    t0 = time.time()
    res = serve2(scen, [0 if m[0] == 'fresh' else 1 for m in meta], (ctx.seed + 31, ctx.seed + 3131), cost=cost)
    ctx.extra['matrix_block_seconds'] = round(time.time() - t0, 1)
    fresh = {m[1]: r[0]['result'] for m, r in zip(meta, res) if m[0] == 'fresh'}
    nbad = [0]
    changed = []          # (prior name, ops, state delta)
    flagged = []          # operations of non-documented components that advanced a global generator
    for m, ops, rs in zip(meta, scen, res):
        for i, r in enumerate(rs):
            if 'grng' in r:
                flagged.append((ops[i], r.get('grng_at', 0), r['grng']))
            if ops[i]['op'] == 'decode_ftp':
                report_ftp(ctx, ops[i], r, 'pristine fork, after ' + (m[0] if m[0] != 'fresh' else 'nothing / itself'))
            elif r['mutated']:
                ctx.violation('mutates-' + '-'.join(r['mutated']), 'a call modified the caller\'s arrays or the code matrices',
                              {'op': ops[i], 'mutated': r['mutated']})
            if ops[i]['op'] != 'decode_ftp' and (r['result'].startswith('ERR') or '!syndrome' in r['result']):
                ctx.violation('raises' if 'ERR' in r['result'] else 'recovery-wrong-syndrome', 'operation raised / recovery does not '
                              'reproduce the syndrome', {'op': {k: v for k, v in ops[i].items() if k != 'syndromes'}, 'result': r['result'][:300]})
            if 'gstate' in r:
                changed.append((m[0], ops[i], r['gstate']))
            if 'aliased' in r:
                ctx.violation('returned-array-aliased', 'a recovery array returned by an earlier decode changed during a later call',
                              {'history': [{k: (v[:3] if k == 'syndromes' else v) for k, v in o.items()} for o in ops[:i + 1]],
                               'changed_result_of_op': r['aliased']})
        if m[0] != 'fresh':
            _compare_targets(ctx, ops, rs, m[1], fresh, T, m[0], nbad)
        else:
            _compare_targets(ctx, ops, rs, {j: m[1] for j in range(1, REPEATS)}, fresh, T, 'same-target-repeated', nbad,
                             key='not-reproducible-in-process', after='when the very same operation is repeated in the same process')
    rng_consumers(ctx, list(flagged_elsewhere) + flagged)
    ctx.extra['matrix_priors'] = [n for n, _ in P]
    ctx.extra['matrix_targets'] = len(T)
    ctx.extra['matrix_target_decodes'] = sum(len(t[1].get('syndromes', ())) for t in T)
    ctx.extra['matrix_differences'] = nbad[0]
    ctx.extra['global_numeric_state_changes'] = [{'where': n, 'op': {k: v for k, v in o.items() if k != 'syndromes'}, 'delta': d}
                                                 for n, o, d in changed][:10]
    # ---- directed: operations that left process-global numeric state changed get the heavy battery behind them
    culprits = []
    for n, o, d in list(changed) + [('other-block', o, d) for o, d in extra_priors]:
        key = json.dumps({k: v for k, v in o.items() if k in ('op', 'dec')}, sort_keys=True) + json.dumps(sorted(d))
        if key not in [c[0] for c in culprits]:
            culprits.append((key, n, o, d))
    if culprits and nbad[0] == 0:      # (when results already differ there is nothing left to direct)
        TH = battery(ctx, ns, heavy=True)
        chunks = _chunks(TH, 6)
        scen, meta, cost = [], [], []
        for ti, (fam, op, c) in enumerate(TH):
            scen.append([op])
            meta.append(('fresh', ti))
            cost.append(c)
        for key, n, o, d in culprits[:3]:
            for ch in chunks:
                scen.append([o] + [TH[i][1] for i in ch])
                meta.append(('state-changing:' + n, {1 + j: i for j, i in enumerate(ch)}))
                cost.append(sum(TH[i][2] for i in ch))
        res = serve(scen, hashseed=ctx.seed + 57, cost=cost)
        fresh = {m[1]: r[0]['result'] for m, r in zip(meta, res) if m[0] == 'fresh'}
        nb2 = [nbad[0]]
        for m, ops, rs in zip(meta, scen, res):
            if m[0] != 'fresh':
                _compare_targets(ctx, ops, rs, m[1], fresh, TH, m[0], nb2)
        ctx.extra['directed_heavy_battery'] = {'culprits': len(culprits), 'targets': len(TH), 'differences': nb2[0] - nbad[0]}
