"""C20 — validation decides the code conditions exactly for user-defined codes."""
import itertools
import json

import numpy as np

from harness.common import bitstr, rowsstr, exc_class, coq_bits, coq_list


def letters(b):
    n = len(b) // 2
    return ''.join('IXZY'[int(b[i]) + 2 * int(b[n + i])] for i in range(n))


def anti(a, b):
    """independent ground truth at letter level"""
    return sum(1 for x, y in zip(letters(a), letters(b)) if x != 'I' and y != 'I' and x != y) % 2


def conditions(S, X, Z):
    c1 = all(anti(a, b) == 0 for a in S for b in S)
    c2 = all(anti(a, b) == 0 for a in S for b in list(X) + list(Z))
    c3 = len(X) == len(Z) and all(
        anti(X[i], X[j]) == 0 and anti(Z[i], Z[j]) == 0 and anti(X[i], Z[j]) == (1 if i == j else 0)
        and anti(Z[i], X[j]) == (1 if i == j else 0) for i in range(len(X)) for j in range(len(X)))
    return c1, c2, c3


def make_code_class():
    from qecsim.model import StabilizerCode

    class UserCode(StabilizerCode):
        def __init__(self, S, X, Z):
            self._S, self._X, self._Z = S, X, Z

        @property
        def stabilizers(self):
            return self._S

        @property
        def logical_xs(self):
            return self._X

        @property
        def logical_zs(self):
            return self._Z

        @property
        def n_k_d(self):
            return (self._S.shape[1] // 2, len(self._X), None)

        @property
        def label(self):
            return 'user'

        def __repr__(self):
            return 'UserCode'
    return UserCode


def transvect(M, v):
    n2 = M.shape[1]
    n = n2 // 2
    sw = np.concatenate([v[n:], v[:n]])
    c = (M @ sw) % 2
    return (M + np.outer(c, v)) % 2


def random_valid(rng, n, k):
    S = np.zeros((n - k, 2 * n), dtype=int)
    X = np.zeros((k, 2 * n), dtype=int)
    Z = np.zeros((k, 2 * n), dtype=int)
    for i in range(n - k):
        S[i, n + i] = 1
    for i in range(k):
        X[i, n - k + i] = 1
        Z[i, n + n - k + i] = 1
    M = np.vstack([S, X, Z])
    for _ in range(rng.randint(0, 3 * n)):
        v = np.array([rng.randint(0, 1) for _ in range(2 * n)])
        M = transvect(M, v)
    # also mix the stabilizer generators among themselves (row operations keep the group)
    S = M[:n - k].copy()
    for _ in range(rng.randint(0, n)):
        i, j = rng.randrange(n - k), rng.randrange(n - k)
        if i != j:
            S[i] ^= S[j]
    return S, M[n - k:n].copy(), M[n:].copy()


MSG = {'Stabilizers do not mutually commute.': 'ErrStab', 'Stabilizers do not commute with logicals.': 'ErrStabLog',
       'Logicals do not commute as expected.': 'ErrLog'}


def run(ctx):
    from qecsim.error import QecsimError
    from qecsim.model import DecodeResult
    from qecsim.models.basic import BasicCode, FiveQubitCode, SteaneCode
    from qecsim import paulitools as pt
    rng = ctx.rng
    UserCode = make_code_class()
    ctx.rule = ('valid codes from random symplectic transvections of the trivial [[n,k]] code (n<=%d, k=1..3), every '
                'single-operator single-qubit corruption of a sample, swapped/dropped/duplicated logicals, unequal '
                'X/Z counts, random matrices; nontrivial = k>=2 or a corruption that only the third check detects'
                % ctx.pick(8, 10))
    ctx.props_obligations()
    req, exp = [], []

    def impl_validate(S, X, Z):
        try:
            UserCode(S, X, Z).validate()
            return 'Ok'
        except QecsimError as e:
            return MSG.get(str(e), 'QecsimError:' + str(e))
        except ValueError:
            return 'ErrSplit'
        except Exception as e:  # noqa
            return 'ERR ' + exc_class(e)

    kern = []

    def one(S, X, Z, kind, nontriv):
        r = impl_validate(S, X, Z)
        req.append('validate %s %s %s' % (rowsstr(S), rowsstr(X), rowsstr(Z)))
        exp.append(('validate', r))
        key = req[-1]
        ctx.count(key, nontriv, kind, {'S': pt.bsf_to_pauli(S), 'X': pt.bsf_to_pauli(X), 'Z': pt.bsf_to_pauli(Z),
                                       'validate': r} if kind == 'corrupt-1q' and len(X) == 2 else None)
        if len(X) == len(Z):
            c1, c2, c3 = conditions(S, X, Z)
            want_ok = c1 and c2 and c3
            if want_ok != (r == 'Ok'):
                ctx.violation('validate-iff', 'validate passes/raises against the code conditions',
                              {'S': rowsstr(S), 'X': rowsstr(X), 'Z': rowsstr(Z), 'validate': r,
                               'conditions': [c1, c2, c3]})
            elif not want_ok:
                first = 'ErrStab' if not c1 else ('ErrStabLog' if not c2 else 'ErrLog')
                if r != first:
                    ctx.violation('validate-which', 'wrong check reported', {'S': rowsstr(S), 'X': rowsstr(X),
                                                                             'Z': rowsstr(Z), 'validate': r, 'want': first})
        if len(kern) < 120 and S.shape[1] <= 16:
            kern.append((S, X, Z, r))
        # the same operators through BasicCode (Pauli strings; cached matrices keyed on code equality):
        # equal operator sets in other orders occur throughout this history
        if len(S) and len(X) and len(Z):
            ps, px, pz = (tuple(pt.bsf_to_pauli(M)) for M in (S, X, Z))
            bc = BasicCode(ps, px, pz)
            try:
                bc.validate()
                r2 = 'Ok'
            except QecsimError as e:
                r2 = MSG.get(str(e), 'QecsimError:' + str(e))
            except ValueError:
                r2 = 'ErrSplit'
            except Exception as e:  # noqa
                r2 = 'ERR ' + exc_class(e)
            rep = {'stabilizers': ps, 'logical_xs': px, 'logical_zs': pz, 'BasicCode.validate': r2, 'matrix validate': r}
            if r2 != r:
                ctx.violation('basiccode-validate', 'BasicCode built from the same operators validates differently '
                              '(after the earlier codes of this run)', rep)
            if not (np.array_equal(bc.stabilizers, S) and np.array_equal(bc.logical_xs, X)
                    and np.array_equal(bc.logical_zs, Z) and np.array_equal(bc.logicals, np.vstack([X, Z]))):
                ctx.violation('basiccode-matrices', 'BasicCode matrices are not the bsf of the strings it was given, in order', rep)
        return r

    nmax = ctx.pick(8, 10)
    for it in range(ctx.pick(250, 2500)):
        n = rng.randint(2, nmax)
        k = rng.randint(1, min(3, n - 1))
        S, X, Z = random_valid(rng, n, k)
        one(S, X, Z, 'valid', k >= 2)
        # logicals order
        L = UserCode(S, X, Z).logicals
        if not np.array_equal(L, np.vstack([X, Z])):
            ctx.violation('logicals-order', 'logicals is not Xs stacked above Zs', {'X': rowsstr(X), 'Z': rowsstr(Z)})
        req.append('logicals %s %s' % (rowsstr(X), rowsstr(Z)))
        exp.append(('logicals', rowsstr(L)))
        # every single-operator single-qubit corruption (sampled codes), else a few
        ops = [('S', i) for i in range(n - k)] + [('X', i) for i in range(k)] + [('Z', i) for i in range(k)]
        full = it % 10 == 0
        todo = [(o, q, p) for o in ops for q in range(n) for p in (1, 2, 3)]
        if not full:
            todo = rng.sample(todo, min(len(todo), 6))
        for (o, q, p) in todo:
            S2, X2, Z2 = S.copy(), X.copy(), Z.copy()
            M = {'S': S2, 'X': X2, 'Z': Z2}[o[0]]
            if p & 1:
                M[o[1], q] ^= 1
            if p & 2:
                M[o[1], n + q] ^= 1
            c = conditions(S2, X2, Z2)
            one(S2, X2, Z2, 'corrupt-1q', c[0] and c[1] and not c[2])
        # structural corruptions
        if k >= 2:
            X3 = X.copy()
            X3[[0, 1]] = X3[[1, 0]]
            one(S, X3, Z, 'swap-logical', True)
            one(S, X, np.vstack([Z[0], Z[0], Z[2:]]) if k > 2 else np.vstack([Z[0], Z[0]]), 'dup-logical', True)
        one(S, Z, X, 'xz-exchanged', k >= 2)
        one(np.vstack([S, S[0]]), X, Z, 'dup-stabilizer', False)
        if n - k >= 2:
            one(S[1:], X, Z, 'drop-stabilizer', False)
        if k >= 2:
            one(S, X[:-1], Z, 'unequal-xz', True)       # odd total -> hsplit error
            one(S, X, Z[:0].reshape(0, 2 * n), 'unequal-xz', True)  # even total, k Xs and no Zs
        Sr = np.array([[rng.randint(0, 1) for _ in range(2 * n)] for _ in range(n - k)])
        one(Sr, X, Z, 'random-stabs', False)

    # library basic codes, BasicCode defaults
    for code in (FiveQubitCode(), SteaneCode()):
        r = impl_validate(code.stabilizers, code.logical_xs, code.logical_zs)
        ctx.count(repr(code), True, 'basic')
        if r != 'Ok':
            ctx.violation('basic-valid', 'library basic code does not validate', {'code': repr(code), 'validate': r})
    bc = BasicCode(('XZZXI', 'IXZZX', 'XIXZZ', 'ZXIXZ'), ('XXXXX',), ('ZZZZZ',))
    if bc.n_k_d != (5, 1, None) or bc.label != 'Basic [5,1,None]':
        ctx.violation('basic-defaults', 'BasicCode default n_k_d/label wrong', {'n_k_d': str(bc.n_k_d), 'label': bc.label})
    if not (np.array_equal(bc.stabilizers, pt.pauli_to_bsf(['XZZXI', 'IXZZX', 'XIXZZ', 'ZXIXZ']))
            and np.array_equal(bc.logicals, pt.pauli_to_bsf(['XXXXX', 'ZZZZZ']))):
        ctx.violation('basic-matrices', 'BasicCode matrices are not the bsf of its strings', {})
    ctx.count('basic-defaults', True, 'basic')

    # DecodeResult: all 16 presence patterns
    for pat in itertools.product([False, True], repeat=4):
        kw = {}
        if pat[0]:
            kw['success'] = False
        if pat[1]:
            kw['logical_commutations'] = np.array([0, 1])
        if pat[2]:
            kw['recovery'] = np.array([0, 1, 0, 0])
        if pat[3]:
            kw['custom_values'] = np.array([3])
        try:
            d = DecodeResult(**kw)
            r = '1'
            if (d.success, d.logical_commutations is None, d.recovery is None, d.custom_values is None) != \
                    (kw.get('success'), not pat[1], not pat[2], not pat[3]):
                ctx.violation('decode-result-fields', 'DecodeResult does not store what it is given', {'pattern': pat})
        except QecsimError:
            r = '0'
        req.append('dr_ok %s %s' % ('s' if pat[0] else '_', 'r' if pat[2] else '_'))
        exp.append(('DecodeResult', r))
        ctx.count(('dr', pat), True, 'decode-result')
        if (r == '1') != (pat[0] or pat[2]):
            ctx.violation('decode-result-guard', 'DecodeResult constructible iff success or recovery given fails',
                          {'pattern': pat, 'constructed': r})

    out = ctx.model('c20', req)
    for (fn, impl), m, line in zip(exp, out, req):
        ctx.cmp(fn, line[:600], impl, m)

    items = []
    for (S, X, Z, r) in kern:
        def mat(M):
            return coq_list([coq_bits(row.tolist()) for row in M])
        items.append('(vres_eqb (validate (mkCode %s %s %s)) V%s)' % (mat(S), mat(X), mat(Z), r))
    text = ('From Coq Require Import List Bool Arith NArith.\nFrom QV Require Import Core.Bits Core.Pauli Core.Symp '
            'Core.Code.\nImport ListNotations.\n'
            'Definition vres_eqb (a b : vresult) : bool := match a, b with VOk, VOk | VErrStab, VErrStab | '
            'VErrStabLog, VErrStabLog | VErrSplit, VErrSplit | VErrLog, VErrLog => true | _, _ => false end.\n'
            'Definition checks : list bool :=\n [' + ';\n  '.join(items) + '].\n'
            'Example corr : forallb (fun b => b) checks = true.\nProof. vm_compute. reflexivity. Qed.\n')
    ctx.kernel_cases('sample', text)
    ctx.extra['kernel_cases'] = len(items)


def replay(path):
    print(json.dumps(json.load(open(path)), indent=1))
    return 0
