"""C20 — validation decides the code conditions exactly for user-defined codes."""
import itertools
import json

import numpy as np

from harness.common import bitstr, rowsstr, exc_class, coq_bits, coq_list
from harness import c20_extra as cx
from harness import c20_hist as ch
from harness import c20_dr as cdr


def letters(b):
    n = len(b) // 2
    return ''.join('IXZY'[int(b[i]) + 2 * int(b[n + i])] for i in range(n))


def anti(a, b):
    """independent ground truth at letter level"""
    return sum(1 for x, y in zip(letters(a), letters(b)) if x != 'I' and y != 'I' and x != y) % 2


def conditions(S, X, Z):
    c1 = all(anti(a, b) == 0 for a in S for b in S)
    c2 = all(anti(a, b) == 0 for a in S for b in list(X) + list(Z))
    c3 = len(X) == len(Z) and all(
        anti(X[i], X[j]) == 0 and anti(Z[i], Z[j]) == 0 and anti(X[i], Z[j]) == (1 if i == j else 0)
        and anti(Z[i], X[j]) == (1 if i == j else 0) for i in range(len(X)) for j in range(len(X)))
    return c1, c2, c3


def make_code_class():
    from qecsim.model import StabilizerCode

    class UserCode(StabilizerCode):
        def __init__(self, S, X, Z):
            self._S, self._X, self._Z = S, X, Z

        @property
        def stabilizers(self):
            return self._S

        @property
        def logical_xs(self):
            return self._X

        @property
        def logical_zs(self):
            return self._Z

        @property
        def n_k_d(self):
            return (np.atleast_2d(self._S).shape[1] // 2, len(np.atleast_2d(self._X)), None)

        @property
        def label(self):
            return 'user'

        def __repr__(self):
            return 'UserCode'
    return UserCode


def transvect(M, v):
    n2 = M.shape[1]
    n = n2 // 2
    sw = np.concatenate([v[n:], v[:n]])
    c = (M @ sw) % 2
    return (M + np.outer(c, v)) % 2


def random_valid(rng, n, k):
    S = np.zeros((n - k, 2 * n), dtype=int)
    X = np.zeros((k, 2 * n), dtype=int)
    Z = np.zeros((k, 2 * n), dtype=int)
    for i in range(n - k):
        S[i, n + i] = 1
    for i in range(k):
        X[i, n - k + i] = 1
        Z[i, n + n - k + i] = 1
    M = np.vstack([S, X, Z])
    for _ in range(rng.randint(0, 3 * n)):
        v = np.array([rng.randint(0, 1) for _ in range(2 * n)])
        M = transvect(M, v)
    # also mix the stabilizer generators among themselves (row operations keep the group)
    S = M[:n - k].copy()
    for _ in range(rng.randint(0, n)):
        i, j = rng.randrange(n - k), rng.randrange(n - k)
        if i != j:
            S[i] ^= S[j]
    return S, M[n - k:n].copy(), M[n:].copy()


MSG = {'Stabilizers do not mutually commute.': 'ErrStab', 'Stabilizers do not commute with logicals.': 'ErrStabLog',
       'Logicals do not commute as expected.': 'ErrLog'}


def run(ctx):
    from qecsim.error import QecsimError
    from qecsim.model import DecodeResult
    from qecsim.models.basic import BasicCode, FiveQubitCode, SteaneCode
    from qecsim import paulitools as pt
    rng = ctx.rng
    UserCode = make_code_class()
    ctx.rule = ('valid codes from random symplectic transvections of the trivial [[n,k]] code (n<=%d, k=1..3), every '
                'single-operator single-qubit corruption of a sample, swapped/dropped/duplicated logicals, unequal '
                'X/Z counts, random matrices; the same operators presented as 1-d vectors wherever a property has a '
                'single row (all 1d/2d combinations); medium and large codes from random Clifford circuits '
                '(n up to %d, k up to 6, stabilizer lists of m rows up to %d incl. redundant products, m at and next '
                'to powers of two) with minimal violations (exactly one anticommuting pair) at every pair of position '
                'classes (first/middle/last rows, rows next to powers of two) and the same for stabilizer-logical and '
                'logical-logical pairs; every validate() is repeated on the same object and must not modify its '
                'operands; codes DEFINED BY PAULI STRINGS (BasicCode with varied n_k_d/label, FiveQubitCode, '
                'SteaneCode, random valid codes n<=%d and their corruptions) under caller histories: the caller '
                'converts the same strings with pauli_to_bsf (singly, as list/tuple, all at once) or ibsf, overwrites '
                'its arrays in place (^=, slice/element assignment, writes through hsplit views, row iteration) with '
                'the operators of a corrupted / repaired / other code, reads them back with bsf_to_pauli, before, '
                'between and after building and first reading the codes; validate and the published matrices must be '
                'those of the strings (engine request `basic` = Core/CodeP.code_of); DecodeResult built from every '
                'tuple of None / ordinary / degenerate (False, all-zero) values under every CALL SPELLING of the '
                'documented constructor (success, logical_commutations, recovery, custom_values): positional prefix '
                'of length 0..4 followed by keywords in shuffled order, unset parameters as explicit None or left '
                'out, on the class and on a user subclass; guard, stored attributes, operands untouched, results '
                'collected and re-read at the end; nontrivial = k>=2, a corruption '
                'that only the third check detects, a 1-d presentation, a caller history, a DecodeResult call with >= 2 '
                'positional arguments or on a subclass, '
                'or a code with >= 100 stabilizer rows' % (ctx.pick(8, 10), ctx.pick(600, 620), ctx.pick(513, 1025),
                                                            ctx.pick(8, 10)))
    import time
    tm = {'start': time.time()}
    ctx.props_obligations()
    tm['obligations'] = time.time()
    req, exp = [], []

    def present(M, flag):
        return M[0].copy() if flag == '1' else M

    def impl_validate(S, X, Z):
        """validate() on a fresh user code; twice on the same object; operands must be left alone"""
        before = [np.array(M, copy=True) for M in (S, X, Z)]
        code = UserCode(S, X, Z)
        rs = []
        for _ in range(2):
            try:
                code.validate()
                rs.append('Ok')
            except QecsimError as e:
                rs.append(MSG.get(str(e), 'QecsimError:' + str(e)))
            except ValueError:
                rs.append('ErrSplit')
            except Exception as e:  # noqa
                rs.append('ERR ' + exc_class(e))
        def rep():
            if np.atleast_2d(S).size <= 4000:
                return {'S': rowsstr(np.atleast_2d(before[0])), 'X': rowsstr(np.atleast_2d(before[1])),
                        'Z': rowsstr(np.atleast_2d(before[2]))}
            return {'S_hex': cx.hexrows(before[0]), 'X_hex': cx.hexrows(before[1]), 'Z_hex': cx.hexrows(before[2])}
        if rs[0] != rs[1]:
            ctx.violation('validate-repeat', 'validate() twice on the same code object gives different outcomes',
                          dict(rep(), first=rs[0], second=rs[1]))
        if not all(a.shape == np.shape(b) and np.array_equal(a, b) for a, b in zip(before, (S, X, Z))):
            ctx.violation('validate-pure', 'validate() modified the operators of the code', rep())
        return rs[0]

    kern = []
    kern1d = []
    state = {'big_replays': 0}

    def one(S, X, Z, kind, nontriv, shape='222', big=None):
        """S, X, Z: 2-d matrices (the operator lists); shape: per property '1' = handed to validate() as a 1-d
        vector (needs exactly one row), '2' = as a matrix; big: dict(n, k, m, how) for medium/large codes"""
        r = impl_validate(present(S, shape[0]), present(X, shape[1]), present(Z, shape[2]))
        if big is not None:
            req.append('vfast %s %s %s' % (rowsstr(S), rowsstr(X), rowsstr(Z)))
            key = ('big', big['n'], big['k'], big['m'], len(req), kind)
        elif shape == '222':
            req.append('validate %s %s %s' % (rowsstr(S), rowsstr(X), rowsstr(Z)))
            key = req[-1]
        else:
            req.append('validate_nd %s %s %s %s' % (shape, rowsstr(S), rowsstr(X), rowsstr(Z)))
            key = req[-1]
        exp.append(('validate', r))
        ctx.count(key, nontriv, kind, {'S': pt.bsf_to_pauli(S), 'X': pt.bsf_to_pauli(X), 'Z': pt.bsf_to_pauli(Z),
                                       'validate': r} if kind == 'corrupt-1q' and len(X) == 2 else None)

        def replay(**kw):
            if big is None:
                d = {'S': rowsstr(S), 'X': rowsstr(X), 'Z': rowsstr(Z), 'presented (S,X,Z) 1d/2d': shape}
            else:
                d = {'n': big['n'], 'k': big['k'], 'stabilizer rows': big['m'], 'how': big['how'], 'kind': kind}
                if state['big_replays'] < 6:   # full operators for the first few, to keep replays small
                    state['big_replays'] += 1
                    d.update({'encoding': 'one hex number per row, most significant bit = column 0 of the bsf row',
                              'S_hex': cx.hexrows(S), 'X_hex': cx.hexrows(X), 'Z_hex': cx.hexrows(Z)})
            d.update(kw)
            return d
        if len(X) == len(Z):
            c1, c2, c3 = cx.conditions_fast(S, X, Z)
            if big is None and (c1, c2, c3) != conditions(S, X, Z):
                raise RuntimeError('harness: the two letter-level evaluations of the code conditions disagree')
            want_ok = c1 and c2 and c3
            if want_ok != (r == 'Ok'):
                ctx.violation('validate-iff', 'validate passes/raises against the code conditions',
                              replay(validate=r, conditions=[c1, c2, c3]))
            elif not want_ok:
                first = 'ErrStab' if not c1 else ('ErrStabLog' if not c2 else 'ErrLog')
                if r != first:
                    ctx.violation('validate-which', 'wrong check reported', replay(validate=r, want=first))
        if shape == '222' and big is None and len(kern) < 120 and S.shape[1] <= 16:
            kern.append((S, X, Z, r))
        if shape != '222' and len(kern1d) < 40 and S.shape[1] <= 16:
            kern1d.append((shape, S, X, Z, r))
        # the same operators through BasicCode (Pauli strings; cached matrices keyed on code equality):
        # equal operator sets in other orders occur throughout this history
        if shape == '222' and len(S) and len(X) and len(Z):
            ps, px, pz = (tuple(pt.bsf_to_pauli(M)) for M in (S, X, Z))
            bc = BasicCode(ps, px, pz)
            try:
                bc.validate()
                r2 = 'Ok'
            except QecsimError as e:
                r2 = MSG.get(str(e), 'QecsimError:' + str(e))
            except ValueError:
                r2 = 'ErrSplit'
            except Exception as e:  # noqa
                r2 = 'ERR ' + exc_class(e)
            def rep():
                if big is None:
                    return {'stabilizers': ps, 'logical_xs': px, 'logical_zs': pz, 'BasicCode.validate': r2,
                            'matrix validate': r}
                return replay(**{'BasicCode.validate': r2, 'matrix validate': r})
            if r2 != r:
                ctx.violation('basiccode-validate', 'BasicCode built from the same operators validates differently '
                              '(after the earlier codes of this run)', rep())
            if not (np.array_equal(bc.stabilizers, S) and np.array_equal(bc.logical_xs, X)
                    and np.array_equal(bc.logical_zs, Z) and np.array_equal(bc.logicals, np.vstack([X, Z]))):
                ctx.violation('basiccode-matrices', 'BasicCode matrices are not the bsf of the strings it was given, in order', rep())
        return r

    def shapes_for(S, X, Z):
        """all 1d/2d presentations other than all-2d"""
        opts = [('12' if len(M) == 1 else '2') for M in (S, X, Z)]
        return [a + b + c for a in opts[0] for b in opts[1] for c in opts[2] if a + b + c != '222']

    # ---- medium and large codes first: their model requests run in parallel engine processes meanwhile
    import concurrent.futures
    big_specs = []   # (n, k, m, lite)

    def near(b):
        return rng.choice((b - 1, b, b + 1))
    for _ in range(ctx.pick(12, 60)):
        n = rng.randint(12, 64)
        k = rng.randint(1, min(6, n - 4))
        m = rng.choice((n - k, near(16), near(32), near(64), near(128), rng.randint(2, 160)))
        big_specs.append((n, k, m, False))
    if ctx.quick:
        big_specs += [(rng.randint(100, 140), rng.randint(1, 3), m, False) for m in (255, 256, 257)]
        big_specs += [(rng.randint(100, 160), rng.randint(1, 4), rng.randint(258, 400), False),
                      (rng.randint(100, 120), rng.randint(1, 2), 513, True),
                      (rng.randint(100, 120), rng.randint(1, 2), rng.choice((511, 512)), True)]
        n = rng.randint(280, 320)
        k = rng.randint(1, 4)
        big_specs.append((n, k, n - k, False))
        n = rng.randint(560, 600)
        k = rng.randint(1, 4)
        big_specs.append((n, k, n - k, True))
    else:
        for b in (128, 256, 512):
            big_specs += [(rng.randint(100, 160), rng.randint(1, 4), m, False) for m in (b - 1, b, b + 1)]
        big_specs += [(rng.randint(100, 110), rng.randint(1, 2), m, True) for m in (1023, 1024, 1025)]
        for _ in range(14):
            n = rng.randint(100, 200)
            k = rng.randint(1, 6)
            big_specs.append((n, k, rng.choice((n - k, rng.randint(130, 700), near(256), rng.randint(258, 511))), False))
        for _ in range(4):
            n = rng.randint(200, 400)
            k = rng.randint(1, 6)
            big_specs.append((n, k, n - k, False))
        for i in range(3):
            n = rng.randint(450, 620)
            k = rng.randint(1, 6)
            big_specs.append((n, k, n - k, i > 0))
    big_lo = len(req)
    for (n, k, m, lite) in big_specs:
        bc_ = cx.BigCode(rng, n, k, m)
        for (kind, S2, X2, Z2, how) in bc_.variants(rng, lite):
            one(S2, X2, Z2, kind if m >= 100 else kind.replace('big-', 'medium-'), m >= 100 or k >= 2,
                big={'n': n, 'k': k, 'm': m, 'how': how})
    big_hi = len(req)
    tm['big impl'] = time.time()
    ctx.extra['big_codes'] = {'codes': len(big_specs), 'validate_calls': big_hi - big_lo,
                              'max_n': max(s[0] for s in big_specs), 'max_rows': max(s[2] for s in big_specs)}
    # longest-first distribution of the large requests over engine processes
    nworkers = ctx.pick(6, 8)
    order = sorted(range(big_lo, big_hi), key=lambda i: -len(req[i]) * req[i].count(','))
    loads, bins = [0] * nworkers, [[] for _ in range(nworkers)]
    for i in order:
        w = loads.index(min(loads))
        bins[w].append(i)
        loads[w] += len(req[i]) * (req[i].count(',') + 1)
    pool = concurrent.futures.ThreadPoolExecutor(max_workers=nworkers)
    futures = [(b, pool.submit(ctx.model, 'c20', [req[i] for i in b], 3000)) for b in bins if b]

    nmax = ctx.pick(8, 10)
    for it in range(ctx.pick(250, 2500)):
        n = rng.randint(2, nmax)
        k = rng.randint(1, min(3, n - 1))
        S, X, Z = random_valid(rng, n, k)
        one(S, X, Z, 'valid', k >= 2)
        shapes = shapes_for(S, X, Z)
        for sh in shapes:
            one(S, X, Z, 'valid-1d', True, shape=sh)
        # logicals order (also when the logical operators are handed over as vectors)
        for sh in ['222'] + [s for s in shapes if s[0] == '2']:
            L = UserCode(S, present(X, sh[1]), present(Z, sh[2])).logicals
            if not (L.shape == (2 * k, 2 * n) and np.array_equal(L, np.vstack([X, Z]))):
                ctx.violation('logicals-order', 'logicals is not Xs stacked above Zs',
                              {'X': rowsstr(X), 'Z': rowsstr(Z), 'presented (S,X,Z) 1d/2d': sh})
            req.append('logicals %s %s' % (rowsstr(X), rowsstr(Z)))
            exp.append(('logicals', rowsstr(L)))
            ctx.count(('logicals', req[-1], sh), sh != '222', 'logicals')
        # every single-operator single-qubit corruption (sampled codes), else a few
        ops = [('S', i) for i in range(n - k)] + [('X', i) for i in range(k)] + [('Z', i) for i in range(k)]
        full = it % 10 == 0
        todo = [(o, q, p) for o in ops for q in range(n) for p in (1, 2, 3)]
        if not full:
            todo = rng.sample(todo, min(len(todo), 6))
        for (o, q, p) in todo:
            S2, X2, Z2 = S.copy(), X.copy(), Z.copy()
            M = {'S': S2, 'X': X2, 'Z': Z2}[o[0]]
            if p & 1:
                M[o[1], q] ^= 1
            if p & 2:
                M[o[1], n + q] ^= 1
            c = conditions(S2, X2, Z2)
            one(S2, X2, Z2, 'corrupt-1q', c[0] and c[1] and not c[2])
            if shapes and (full or rng.random() < 0.5):
                one(S2, X2, Z2, 'corrupt-1q-1d', True, shape=rng.choice(shapes))
        # structural corruptions
        if k >= 2:
            X3 = X.copy()
            X3[[0, 1]] = X3[[1, 0]]
            one(S, X3, Z, 'swap-logical', True)
            one(S, X, np.vstack([Z[0], Z[0], Z[2:]]) if k > 2 else np.vstack([Z[0], Z[0]]), 'dup-logical', True)
        one(S, Z, X, 'xz-exchanged', k >= 2)
        if shapes:
            one(S, Z, X, 'xz-exchanged-1d', True, shape=rng.choice(shapes))
            one(S, X, X, 'same-logical-1d', True, shape=rng.choice(shapes))
            one(S, np.zeros_like(X), Z, 'identity-logical-1d', True, shape=rng.choice(shapes))
        one(np.vstack([S, S[0]]), X, Z, 'dup-stabilizer', False)
        if n - k >= 2:
            one(S[1:], X, Z, 'drop-stabilizer', False)
        if k >= 2:
            one(S, X[:-1], Z, 'unequal-xz', True)       # odd total -> hsplit error
            one(S, X, Z[:0].reshape(0, 2 * n), 'unequal-xz', True)  # even total, k Xs and no Zs
        Sr = np.array([[rng.randint(0, 1) for _ in range(2 * n)] for _ in range(n - k)])
        one(Sr, X, Z, 'random-stabs', False)
        if shapes:
            one(Sr, X, Z, 'random-stabs-1d', True, shape=rng.choice(shapes))

    # codes defined by Pauli strings under caller histories (the caller converts the same strings with
    # pt.pauli_to_bsf / ibsf and overwrites ITS arrays in place before, between and after building the codes);
    # placed before the first FiveQubitCode() / SteaneCode() of this process
    tm['small impl (matrices)'] = time.time()
    kern_hist = []
    ch.run(ctx, req, exp, random_valid, exc_class, kern_hist)
    tm['caller histories'] = time.time()

    # library basic codes, BasicCode defaults
    for code in (FiveQubitCode(), SteaneCode()):
        r = impl_validate(code.stabilizers, code.logical_xs, code.logical_zs)
        ctx.count(repr(code), True, 'basic')
        if r != 'Ok':
            ctx.violation('basic-valid', 'library basic code does not validate', {'code': repr(code), 'validate': r})
    bc = BasicCode(('XZZXI', 'IXZZX', 'XIXZZ', 'ZXIXZ'), ('XXXXX',), ('ZZZZZ',))
    if bc.n_k_d != (5, 1, None) or bc.label != 'Basic [5,1,None]':
        ctx.violation('basic-defaults', 'BasicCode default n_k_d/label wrong', {'n_k_d': str(bc.n_k_d), 'label': bc.label})
    if not (np.array_equal(bc.stabilizers, pt.pauli_to_bsf(['XZZXI', 'IXZZX', 'XIXZZ', 'ZXIXZ']))
            and np.array_equal(bc.logicals, pt.pauli_to_bsf(['XXXXX', 'ZZZZZ']))):
        ctx.violation('basic-matrices', 'BasicCode matrices are not the bsf of its strings', {})
    ctx.count('basic-defaults', True, 'basic')

    # DecodeResult: every value tuple (None / ordinary / degenerate values) under every call spelling of the
    # documented constructor (positional, keyword, mixed; on the class and on a user subclass); results are kept
    # and re-read at the end
    cdr.run(ctx, req, exp)

    tm['small impl'] = time.time()
    rest = [i for i in range(len(req)) if not big_lo <= i < big_hi]
    out = [None] * len(req)
    for i, o in zip(rest, ctx.model('c20', [req[i] for i in rest])):
        out[i] = o
    for b, f in futures:
        for i, o in zip(b, f.result()):
            out[i] = o
    pool.shutdown()
    tm['model'] = time.time()
    for (fn, impl), m, line in zip(exp, out, req):
        ctx.cmp(fn, line[:600], impl, m)

    items = []
    for (S, X, Z, r) in kern:
        def mat(M):
            return coq_list([coq_bits(row.tolist()) for row in M])
        items.append('(vres_eqb (validate (mkCode %s %s %s)) V%s)' % (mat(S), mat(X), mat(Z), r))
    for (sh, S, X, Z, r) in kern1d:
        def arr(M, f):
            return '(A1 %s)' % coq_bits(M[0].tolist()) if f == '1' else '(A2 %s)' % coq_list([coq_bits(row.tolist()) for row in M])
        items.append('(vres_eqb (validate_nd %s %s %s) V%s)' % (arr(S, sh[0]), arr(X, sh[1]), arr(Z, sh[2]), r))
    for (C, r) in kern_hist:
        def ps(g):
            return coq_list([coq_list(['p' + c for c in s]) for s in g])
        items.append('(vres_eqb (validate (code_of %s %s %s)) V%s)' % (ps(C[0]), ps(C[1]), ps(C[2]), r))
    text = ('From Coq Require Import List Bool Arith NArith.\nFrom QV Require Import Core.Bits Core.Pauli Core.Symp '
            'Core.Code Core.CodeP Core.CodeNd.\nImport ListNotations.\n'
            'Definition vres_eqb (a b : vresult) : bool := match a, b with VOk, VOk | VErrStab, VErrStab | '
            'VErrStabLog, VErrStabLog | VErrSplit, VErrSplit | VErrLog, VErrLog => true | _, _ => false end.\n'
            'Definition checks : list bool :=\n [' + ';\n  '.join(items) + '].\n'
            'Example corr : forallb (fun b => b) checks = true.\nProof. vm_compute. reflexivity. Qed.\n')
    ctx.kernel_cases('sample', text)
    ctx.extra['kernel_cases'] = len(items)
    tm['kernel shard'] = time.time()
    ks = list(tm)
    ctx.extra['phase_seconds'] = {b: round(tm[b] - tm[a], 1) for a, b in zip(ks, ks[1:])}


def replay(path):
    print(json.dumps(json.load(open(path)), indent=1))
    return 0
