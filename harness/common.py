"""Shared machinery of the /verif checks: model drivers, obligations, violations,
known findings and the evidence writer.  See DESIGN.md section 2."""
import collections
import fcntl
import json
import os
import random
import re
import subprocess
import sys
import time

VERIF = os.path.dirname(os.path.dirname(os.path.abspath(__file__)))
REPO = os.environ.get('VERIF_REPO', '/repo')
BUILD = os.path.join(VERIF, 'build')
COQ = os.path.join(VERIF, 'coq')
PY = '/venv/bin/python'

TRUSTED_BASE_COMMON = [
    'Coq 8.16.1 kernel and vm_compute (no native_compute)',
    'extraction with ExtrOcamlBasic only (bool/option/list/prod/unit/sumbool -> OCaml natives; nat, N, Z, positive, Q stay extracted inductives); OCaml 4.13.1',
    'hand-written OCaml line-protocol drivers coq/extract/drv*.ml',
    'the Python harness under /verif/harness (generators, canonicalisation, comparison)',
    'hand-written Gallina model; tied to /repo by differential correspondence on this run (plus in-kernel vm_compute shards for a sample)',
]


def hexbits(bits):
    """bit list -> (len, 0x.. literal)"""
    v = 0
    for b in bits:
        v = (v << 1) | (1 if b else 0)
    return len(bits), hex(v)


def coq_bits(bits):
    n, h = hexbits(bits)
    return '(bits_of_N %d %s%%N)' % (n, h)


def coq_list(items):
    return '[' + '; '.join(items) + ']'


def bitstr(arr):
    s = ''.join('1' if int(x) else '0' for x in arr)
    return s if s else '-'


def rowsstr(mat):
    rows = [bitstr(r) for r in mat]
    return ','.join(rows) if rows else '-'


def exc_class(e):
    for cls in ('ValueError', 'TypeError', 'QecsimError', 'EOFError', 'IndexError', 'AssertionError', 'KeyError',
                'ZeroDivisionError', 'FloatingPointError'):
        if type(e).__name__ == cls:
            return cls
    return 'Other:' + type(e).__name__


class Ctx:
    def __init__(self, pid, tier, seed):
        self.pid, self.tier, self.seed = pid, tier, seed
        self.rng = random.Random((seed << 8) ^ int(pid[1:]))
        self.t0 = time.time()
        self.evals = 0
        self.nontrivial = set()
        self.samples = []
        self.hist = collections.Counter()
        self.mismatches = []
        self.violations = []
        self.obligations = []
        self.notes = []
        self.exhaustive = False
        self.extra = {}
        self.trusted = list(TRUSTED_BASE_COMMON)
        self.assumptions = []
        self.rule = ''
        os.makedirs(os.path.join(VERIF, 'replays'), exist_ok=True)
        os.makedirs(os.path.join(VERIF, 'evidence'), exist_ok=True)
        os.makedirs(os.path.join(BUILD, 'cases'), exist_ok=True)
        import glob
        for f in glob.glob(os.path.join(VERIF, 'replays', pid + '_*.json')):
            os.remove(f)

    @property
    def quick(self):
        return self.tier == 'quick'

    def pick(self, q, t):
        return q if self.quick else t

    # ---- model engines -------------------------------------------------
    def model(self, engine, lines, timeout=600):
        """Run the extracted model `engine` on request lines; one reply per line."""
        exe = os.path.join(BUILD, 'qmodel_' + engine)
        if not lines:
            return []
        if not os.path.exists(exe):
            raise RuntimeError('model engine %s not built (run ./setup.sh)' % exe)
        p = subprocess.run(['bash', '-c', 'ulimit -s unlimited 2>/dev/null; exec "$0"', exe],
                           input='\n'.join(lines) + '\n', capture_output=True, text=True, timeout=timeout)
        out = p.stdout.split('\n')
        if out and out[-1] == '':
            out.pop()
        if len(out) != len(lines):
            raise RuntimeError('model engine %s returned %d replies for %d requests (rc=%s, stderr=%s)'
                               % (engine, len(out), len(lines), p.returncode, p.stderr[:300]))
        return out

    # ---- bookkeeping ----------------------------------------------------
    def count(self, key=None, nontrivial=False, kind=None, sample=None, n=1):
        self.evals += n
        if kind is not None:
            self.hist[kind] += n
        if nontrivial and key is not None:
            self.nontrivial.add(key if isinstance(key, (str, int, tuple)) else repr(key))
        if sample is not None and len(self.samples) < 6:
            self.samples.append(sample)

    def cmp(self, fn, inp, impl, model):
        """Correspondence: implementation output vs model output (canonical strings)."""
        if impl != model:
            if len(self.mismatches) < 200:
                self.mismatches.append({'function': fn, 'input': inp, 'impl': impl, 'model': model})
            return False
        return True

    def violation(self, key, what, replay):
        """A concrete input on which the property fails on the implementation."""
        if len(self.violations) < 200:
            self.violations.append({'key': key, 'what': what, 'replay': replay})

    def obligation(self, name, ok, detail=''):
        self.obligations.append({'name': name, 'ok': bool(ok), 'detail': detail[-2000:] if detail else ''})

    # ---- proof obligations ----------------------------------------------
    def coq_make(self, timeout=3000, keep_going=False, target=None):
        """Incremental build of the whole development (no-op when up to date)."""
        lock = open(os.path.join(BUILD, '.make.lock'), 'w')
        fcntl.flock(lock, fcntl.LOCK_EX)
        try:
            if not os.path.exists(os.path.join(COQ, 'Makefile')):
                subprocess.run(['coq_makefile', '-f', '_CoqProject', '-o', 'Makefile'], cwd=COQ, capture_output=True)
            p = subprocess.run(['timeout', str(timeout), 'make', '-j16'] + (['-k'] if keep_going else []) +
                               ([target] if target else []), cwd=COQ, capture_output=True, text=True)
            return p.returncode == 0, (p.stdout + p.stderr)
        finally:
            fcntl.flock(lock, fcntl.LOCK_UN)
            lock.close()

    def props_obligations(self, extra_files=()):
        """One obligation per Theorem of Props/<pid>.v: the file must compile (full .vo) and the
        Print Assumptions output must be captured."""
        ok, log = self.coq_make(target='theories/Props/%s.vo' % self.pid)
        src = os.path.join(COQ, 'theories', 'Props', self.pid + '.v')
        vo = src[:-2] + '.vo'
        text = open(src).read()
        names = re.findall(r'^\s*Theorem\s+(\w+)', text, flags=re.M)
        built = ok and os.path.exists(vo) and os.path.getmtime(vo) >= os.path.getmtime(src)
        broken = ''
        if not ok:
            m = re.findall(r'File "([^"]+)", line (\d+).*?\n(?:.*\n){0,6}?.*?Error:?(.*)', log)
            broken = log[-1500:]
        for n in names:
            self.obligation('theorem ' + n, built, broken)
        # assumptions
        af = os.path.join(BUILD, 'assumptions', self.pid + '.txt')
        if built:
            p = subprocess.run(['timeout', '600', 'coqc', '-Q', 'theories', 'QV', os.path.relpath(src, COQ)],
                               cwd=COQ, capture_output=True, text=True)
            os.makedirs(os.path.dirname(af), exist_ok=True)
            open(af, 'w').write(p.stdout)
            axioms = sorted(set(m.group(1) for m in re.finditer(r'^([A-Za-z_][\w.\']*)(?:\s*:|\s*$)', p.stdout, flags=re.M)
                                if m.group(1) not in ('Axioms', 'Closed')))
            closed = p.stdout.count('Closed under the global context')
            self.assumptions.append('Print Assumptions: %d theorems closed under the global context; axioms named: %s'
                                    % (closed, ', '.join(axioms) or 'none'))
            self.extra['print_assumptions'] = {'closed': closed, 'axioms': axioms}
        return built

    def kernel_cases(self, name, coq_text, timeout=600):
        """In-kernel correspondence shard: coq_text must end in a closed Example proved by vm_compute."""
        d = os.path.join(BUILD, 'cases')
        path = os.path.join(d, '%s_%s.v' % (self.pid, name))
        open(path, 'w').write(coq_text)
        p = subprocess.run(['timeout', str(timeout), 'coqc', '-Q', os.path.join(COQ, 'theories'), 'QV', path],
                           cwd=d, capture_output=True, text=True)
        ok = p.returncode == 0
        self.obligation('in-kernel correspondence shard ' + name, ok, (p.stdout + p.stderr))
        return ok

    # ---- finish ------------------------------------------------------------
    def finish(self):
        known = []
        kf = os.path.join(VERIF, 'known_findings', self.pid + '.json')
        if os.path.exists(kf):
            known = [e for e in json.load(open(kf)).get('findings', []) if e.get('property') == self.pid
                     and e.get('status', 'open') == 'open']
        known_keys = {e['key']: e for e in known}
        lines = []
        nviol = 0
        printed_known = set()
        for v in self.violations:
            if v['key'] in known_keys:
                if v['key'] not in printed_known:
                    printed_known.add(v['key'])
                    print('KNOWN-FINDING: property=%s %s' % (self.pid, known_keys[v['key']]['text']))
                continue
            nviol += 1
            path = os.path.join(VERIF, 'replays', '%s_%d.json' % (self.pid, nviol))
            json.dump({'property': self.pid, 'kind': 'failing-input', **v}, open(path, 'w'), indent=1, default=str)
            lines.append('VIOLATION property=%s replay=%s' % (self.pid, path))
            if nviol >= 5:
                break
        failed_obl = [o for o in self.obligations if not o['ok']]
        if nviol == 0 and (self.mismatches or failed_obl):
            # the property is no longer shown to hold, but no failing input was found
            path = os.path.join(VERIF, 'replays', '%s_unproved.json' % self.pid)
            json.dump({'property': self.pid, 'kind': 'no-failing-input-found',
                       'broken_obligations': failed_obl[:20],
                       'correspondence_mismatches': self.mismatches[:20]}, open(path, 'w'), indent=1, default=str)
            lines.append('VIOLATION property=%s replay=%s no-failing-input-found' % (self.pid, path))
            nviol = 1
        elif nviol and (self.mismatches or failed_obl):
            path = os.path.join(VERIF, 'replays', '%s_context.json' % self.pid)
            json.dump({'property': self.pid, 'broken_obligations': failed_obl[:20],
                       'correspondence_mismatches': self.mismatches[:20]}, open(path, 'w'), indent=1, default=str)
        n_obl = len(self.obligations)
        n_ok = sum(1 for o in self.obligations if o['ok'])
        cov = {
            'obligations': n_obl, 'discharged': n_ok,
            'checker_cmd': 'cd /verif/coq && coq_makefile -f _CoqProject -o Makefile && make (full .vo build; coqc per Props file for Print Assumptions); coqc on build/cases/%s_*.v' % self.pid,
            'trusted_base': self.trusted,
            'evaluations': self.evals, 'distinct_nontrivial': len(self.nontrivial), 'rule': self.rule,
            'samples': self.samples or [{'note': 'no sample recorded'}],
            'exhaustive': bool(self.exhaustive),
            'input_distribution': dict(self.hist),
            'obligation_list': [{'name': o['name'], 'ok': o['ok']} for o in self.obligations],
            'correspondence_mismatches': len(self.mismatches),
            'known_findings_seen': sorted(printed_known),
        }
        cov.update(self.extra)
        ev = {'property_id': self.pid, 'tier': self.tier, 'seed': self.seed, 'level': 'proof',
              'coverage': cov, 'assumptions': self.assumptions + self.notes,
              'wall_s': round(time.time() - self.t0, 2), 'violations': nviol}
        json.dump(ev, open(os.path.join(VERIF, 'evidence', self.pid + '.json'), 'w'), indent=1, default=str)
        for l in lines:
            print(l)
        print('%s tier=%s seed=%d evaluations=%d nontrivial=%d obligations=%d/%d mismatches=%d violations=%d wall=%.1fs'
              % (self.pid, self.tier, self.seed, self.evals, len(self.nontrivial), n_ok, n_obl,
                 len(self.mismatches), nviol, time.time() - self.t0))
        sys.stdout.flush()
        return 1 if nviol else 0
