"""Shared driver for the lattice properties C07 / C08 / C15: regenerate the translated integer kernels from the
current source, rebuild dependants when they changed, then run every family module's check function."""
import importlib
import json
import os
import subprocess
import traceback

import numpy as np

from harness.common import VERIF, BUILD
from harness import latarith_check

FAMILIES = [('planar', 'lat_planar'), ('toric', 'lat_toric'), ('rotplanar', 'lat_rotplanar'),
            ('rottoric', 'lat_rottoric'), ('color', 'lat_color')]


def prepare(ctx):
    ok, msg = latarith_check.regenerate(ctx)
    changed = False
    try:
        changed = json.load(open(os.path.join(BUILD, 'translator_meta.json'))).get('changed', False)
    except Exception:
        pass
    stamp = os.path.join(BUILD, 'qmodel_latpt')
    gen = os.path.join(VERIF, 'coq', 'theories', 'Generated', 'LatticeArith.v')
    stale = os.path.exists(stamp) and os.path.exists(gen) and os.path.getmtime(gen) > os.path.getmtime(stamp)
    if ok and (changed or stale):
        # the code's formulas changed: rebuild the Coq development (proofs may now fail) and the model engines
        ctx.notes.append('translated lattice kernels changed: development and engines rebuilt from the new definitions')
        ctx.coq_make(keep_going=True)
        p = subprocess.run(['bash', '-c', './build_engines.sh latpt & ./build_engines.sh latrc & wait'], cwd=VERIF,
                           capture_output=True, text=True)
        for e in ('latpt', 'latrc'):
            exe = os.path.join(BUILD, 'qmodel_' + e)
            fresh = os.path.exists(exe) and os.path.getmtime(exe) >= os.path.getmtime(gen)
            ctx.obligation('model engine %s rebuilt from regenerated kernels' % e, fresh, p.stdout + p.stderr)
    ctx.props_obligations()
    return ok


def run_families(ctx, fn_name, translator_families=None):
    fams = []
    for fam, modname in FAMILIES:
        try:
            mod = importlib.import_module('harness.' + modname)
        except ImportError:
            continue
        fn = getattr(mod, fn_name, None)
        if fn is None:
            continue
        fams.append(fam)
        try:
            fn(ctx)
        except Exception:
            ctx.obligation('family %s %s completed' % (fam, fn_name), False, traceback.format_exc())
    latarith_check.check(ctx, translator_families or fams)
    return fams


def _families():
    from qecsim.models.planar import PlanarCode
    from qecsim.models.toric import ToricCode
    from qecsim.models.rotatedplanar import RotatedPlanarCode
    from qecsim.models.rotatedtoric import RotatedToricCode
    from qecsim.models.color import Color666Code
    return PlanarCode, ToricCode, RotatedPlanarCode, RotatedToricCode, Color666Code


FAMILY_OF = {'PlanarCode': 'planar', 'ToricCode': 'toric', 'RotatedPlanarCode': 'rotplanar',
             'RotatedToricCode': 'rottoric', 'Color666Code': 'color'}
MATRIX_ATTRS = ('stabilizers', 'logical_xs', 'logical_zs', 'logicals')


def family_sizes(ctx, per_family=False):
    """Every (class, args) in the size ranges the family checks of C07 / C08 decide (quick: planar, toric <= 10x10,
    rotated planar <= 11x11, rotated toric <= 12x12, colour <= 13; thorough 16 / 17 / 18 / 21)."""
    PlanarCode, ToricCode, RotatedPlanarCode, RotatedToricCode, Color666Code = _families()
    pt, rp, rt, co = ctx.pick((10, 11, 12, 13), (16, 17, 18, 21))
    fams = [[(PlanarCode, (r, c)) for r in range(2, pt + 1) for c in range(2, pt + 1)],
            [(ToricCode, (r, c)) for r in range(2, pt + 1) for c in range(2, pt + 1)],
            [(RotatedPlanarCode, (r, c)) for r in range(3, rp + 1) for c in range(3, rp + 1)],
            [(RotatedToricCode, (r, c)) for r in range(2, rt + 1, 2) for c in range(2, rt + 1, 2)],
            [(Color666Code, (s,)) for s in range(3, co + 1, 2)]]
    return fams if per_family else [x for f in fams for x in f]


def _rep(cls, args, **kw):
    return dict({'family': FAMILY_OF.get(cls.__name__, cls.__name__), 'class': cls.__name__, 'size': list(args)}, **kw)


def rank_gf2(M):
    """GF(2) rank of a 0/1 matrix (rows packed into Python ints, elimination on leading bits)"""
    M = np.asarray(M).astype(np.uint8) & 1
    basis = {}
    for row in np.packbits(M, axis=1) if M.size else []:
        v = int.from_bytes(row.tobytes(), 'big')
        while v:
            h = v.bit_length()
            b = basis.get(h)
            if b is None:
                basis[h] = v
                break
            v ^= b
    return len(basis)


def symplectic_product(A, B, n):
    """(i, j) = 1 iff row i of A anticommutes with row j of B (binary symplectic form, own arithmetic)"""
    A, B = np.asarray(A).astype(np.float64), np.asarray(B).astype(np.float64)
    return np.rint(A[:, :n] @ B[:, n:].T + A[:, n:] @ B[:, :n].T).astype(np.int64) % 2


def validity_problems(nkd, S, X, Z, L=None):
    """The C07 statement evaluated directly on a set of published matrices: list of (short key, text, details);
    empty when stabilizers commute mutually and with the logicals, X_i/Z_j anticommute iff i = j, rank S = n-k, the 2k
    logicals are independent of S, and n, k agree with the shapes."""
    out = []
    try:
        n, k, d = (int(v) for v in nkd)
    except Exception:  # noqa
        return [('n_k_d', 'n_k_d is not a triple of integers', {'n_k_d': repr(nkd)})]
    S, X, Z = np.asarray(S), np.asarray(X), np.asarray(Z)
    if S.ndim != 2 or S.shape[1] != 2 * n or X.shape != (k, 2 * n) or Z.shape != (k, 2 * n) or S.shape[0] < n - k:
        return [('shapes', 'n, k disagree with the matrix shapes',
                 {'n_k_d': [n, k, d], 'shapes': [list(S.shape), list(X.shape), list(Z.shape)]})]
    for nm, M in (('stabilizers', S), ('logical_xs', X), ('logical_zs', Z)):
        if not np.issubdtype(M.dtype, np.integer) or not np.array_equal(M, M % 2):
            return [('binary', nm + ' is not a binary integer matrix', {})]
    XZ = np.vstack([X, Z])
    if L is not None and not np.array_equal(np.asarray(L), XZ):
        out.append(('logicals', 'logicals is not logical_xs stacked on logical_zs', {}))
    a = symplectic_product(S, S, n)
    if a.any():
        out.append(('stab-commute', 'two published stabilizers anticommute', {'rows': [int(v) for v in np.argwhere(a)[0]]}))
    a = symplectic_product(S, XZ, n)
    if a.any():
        i, j = (int(v) for v in np.argwhere(a)[0])
        out.append(('stab-logical', 'a published stabilizer anticommutes with a logical', {'stabilizer': i, 'logical': j}))
    a = symplectic_product(XZ, XZ, n)
    want = np.zeros((2 * k, 2 * k), dtype=np.int64)
    for i in range(k):
        want[i, k + i] = want[k + i, i] = 1
    if not np.array_equal(a, want):
        out.append(('logical-commute', 'logical X_i / Z_j do not anticommute exactly when i = j',
                    {'logicals': [int(v) for v in np.argwhere(a != want)[0]]}))
    rs = rank_gf2(S)
    if rs != n - k:
        out.append(('rank', 'stabilizer matrix has GF(2) rank %d, n-k = %d' % (rs, n - k), {}))
    else:
        rl = rank_gf2(np.vstack([S, XZ]))
        if rl != n + k:
            out.append(('rank-logicals', 'stabilizers + logicals have GF(2) rank %d, n+k = %d' % (rl, n + k), {}))
    return out


def _viol(ctx, key, what, rep, cap=4):
    """ctx.violation, at most `cap` per (key, family): one faulty family must not crowd out the others' replays"""
    seen = ctx.__dict__.setdefault('_lat_viol_count', {})
    k = (key, rep.get('family'), rep.get('check'))
    seen[k] = seen.get(k, 0) + 1
    if seen[k] <= cap:
        ctx.violation(key, what, rep)


def read_attr(ctx, code, attr, rep):
    """One read of a published attribute ('validate()' = the call) on an ACCEPTED size; an exception is itself a
    concrete failing input (key matrices-raise).  Returns (ok, value)."""
    try:
        if attr == 'validate()':
            return True, code.validate()
        return True, getattr(code, attr)
    except Exception as e:  # noqa
        if attr == 'validate()' and type(e).__name__ == 'QecsimError':
            _viol(ctx, 'validate-fails', 'validate() of a code of an accepted size reports an invalid code: %s' % e,
                  dict(rep, attribute=attr, exception='%s: %s' % (type(e).__name__, str(e)[:200])))
        else:
            _viol(ctx, 'matrices-raise', '%s of a code of an accepted size raises %s' % (attr, type(e).__name__),
                  dict(rep, attribute=attr, exception='%s: %s' % (type(e).__name__, str(e)[:200])))
        return False, None


def _snapshot(vals):
    return {a: np.array(vals[a]).copy() for a in MATRIX_ATTRS if vals.get(a) is not None}


def _same(a, b):
    a, b = np.asarray(a), np.asarray(b)
    return a.shape == b.shape and np.array_equal(a, b)


def _canonical_reads(ctx, cls, args, rep):
    """a fresh equal object read in the usual order (stabilizers, logical_xs, logical_zs, logicals, n_k_d)"""
    code = cls(*args)
    vals = {}
    for a in ('stabilizers', 'logical_xs', 'logical_zs', 'logicals', 'n_k_d'):
        ok, v = read_attr(ctx, code, a, dict(rep, object='fresh equal object, usual read order'))
        vals[a] = v if ok else None
    return vals


def _index_query(rng, cls, code, pauli, preds, hi, hist):
    Color666Code = _families()[4]
    ToricCode = _families()[1]
    idx = (rng.randint(-3, hi), rng.randint(-3, hi))
    if cls is ToricCode:
        idx = (rng.randint(-1, 2),) + idx
    try:
        r = rng.random()
        if r < 0.7 and preds:
            nm = rng.choice(preds)
            hist.append('%s%s' % (nm, idx))
            getattr(code, nm)(idx)
        elif r < 0.85:
            if cls is Color666Code:
                op = rng.choice('XZ')
                hist.append('pauli.plaquette(%s, %s)' % (op, idx))
                pauli.plaquette(op, idx)
            else:
                hist.append('pauli.plaquette(%s)' % (idx,))
                pauli.plaquette(idx)
        else:
            op = rng.choice('XYZ')
            hist.append('pauli.site(%s, %s)' % (op, idx))
            pauli.site(op, idx)
        return 1
    except Exception:  # noqa  (out-of-lattice indices may be refused; only the later matrices matter here)
        hist[-1] += ' -> raised'
        return 0


def cold_queries(ctx, sizes=None, on_difference=None):
    """A cold history on a FRESH code object of every size of the family checks' range, BEFORE that size's matrices are
    first computed in this process:
      * read-only index queries (in range, on the boundary, outside the lattice) and documented no-op Pauli calls, random order;
      * then the FIRST reads of stabilizers / logical_xs / logical_zs / logicals / n_k_d / validate() in a RANDOM order, some
        twice, with further index queries in between.
    An exception from a read is a violation (matrices-raise).  The matrices read on that object are then judged directly
    (commutation, ranks, shapes: cold-history-matrices), must be stable between reads, and must equal those of a fresh
    equal object read in the usual order (matrices-history-dependent).  Everything the family checks decide afterwards
    (rows against the model) is decided on matrices first computed under such a history; the snapshots are compared
    again at the end of the run (final_recheck)."""
    import inspect
    rng = ctx.rng
    if sizes is None:
        sizes = family_sizes(ctx)
    snaps = ctx.__dict__.setdefault('_cold_snapshots', {})
    ncalls = nreads = 0
    for cls, args in sizes:
        rep = _rep(cls, args, check='cold-history')
        hist = []
        try:
            code = cls(*args)
        except Exception as e:  # noqa
            _viol(ctx, 'matrices-raise', 'constructor raises on an accepted size', dict(rep, attribute='__init__',
                                                                                           exception=repr(e)[:200]))
            continue
        hi = 2 * max(args) + 3
        preds = [nm for nm, f in inspect.getmembers(cls, predicate=inspect.isfunction)
                 if nm.startswith('is_') and len(inspect.signature(f).parameters) == 2]
        pauli = code.new_pauli()
        for _ in range(rng.randint(0, 24)):
            ncalls += _index_query(rng, cls, code, pauli, preds, hi, hist)
        order = list(MATRIX_ATTRS) + ['n_k_d', 'validate()']
        rng.shuffle(order)
        for _ in range(rng.randint(0, 3)):
            order.insert(rng.randint(1, len(order)), rng.choice(order))
        vals = {}
        for a in order:
            if rng.random() < 0.25:
                ncalls += _index_query(rng, cls, code, pauli, preds, hi, hist)
            hist.append(a)
            ok, v = read_attr(ctx, code, a, dict(rep, history=list(hist)))
            nreads += 1
            if not ok or a == 'validate()':
                continue
            if a in vals and not (_same(vals[a], v) if a != 'n_k_d' else tuple(vals[a]) == tuple(v)):
                _viol(ctx, 'matrices-unstable', 'two reads of %s on one code object differ' % a, dict(rep, history=list(hist)))
            if a not in vals:
                vals[a] = np.array(v).copy() if a != 'n_k_d' else v
        ctx.count(('cold', cls.__name__, args), True, 'cold-history/' + rep['family'],
                  dict(rep, history=list(hist)) if cls.__name__ == 'RotatedToricCode' and args == (2, 4) else None)
        if any(a not in vals for a in MATRIX_ATTRS + ('n_k_d',)):
            continue
        probs = validity_problems(vals['n_k_d'], vals['stabilizers'], vals['logical_xs'], vals['logical_zs'], vals['logicals'])
        for key, what, det in probs:
            _viol(ctx, 'cold-history-matrices', 'matrices first read in an unusual order on a fresh code object: ' + what,
                          dict(rep, problem=key, history=list(hist), **det))
        fresh = _canonical_reads(ctx, cls, args, rep)
        diff = [a for a in MATRIX_ATTRS if fresh.get(a) is not None and not _same(fresh[a], vals[a])]
        if fresh.get('n_k_d') is not None and tuple(fresh['n_k_d']) != tuple(vals['n_k_d']):
            diff.append('n_k_d')
        if diff:
            _viol(ctx, 'matrices-history-dependent', '%s of a code object depend on the order of the first reads (differ '
                          'from a fresh equal object read in the usual order)' % ', '.join(diff), dict(rep, history=list(hist)))
        if (diff or probs) and on_difference is not None:
            on_difference(dict(rep, history=list(hist)), vals['n_k_d'], vals['stabilizers'])
        snaps[(cls, args)] = {a: np.packbits(np.asarray(vals[a]).astype(np.uint8)) for a in MATRIX_ATTRS}
    ctx.notes.append('cold histories: on a fresh object of each of %d sizes, index queries then the first reads of the '
                     'published attributes in random order (some twice); matrices judged directly and against a fresh '
                     'equal object read in the usual order' % len(sizes))
    d = ctx.extra.setdefault('cold_queries', {'code_objects': 0, 'calls': 0, 'first_reads': 0})
    d['code_objects'] += len(sizes)
    d['calls'] += ncalls
    d['first_reads'] += nreads


def final_recheck(ctx):
    """End of the run: a fresh equal object of every size with a cold history still publishes the same matrices."""
    snaps = ctx.__dict__.pop('_cold_snapshots', {})
    for (cls, args), snap in snaps.items():
        rep = _rep(cls, args, check='end-of-run')
        code = cls(*args)
        for a in MATRIX_ATTRS:
            ok, v = read_attr(ctx, code, a, dict(rep, stage='end of run'))
            if ok and not np.array_equal(np.packbits(np.asarray(v).astype(np.uint8)), snap[a]):
                _viol(ctx, 'matrices-changed-during-run', '%s published at the end of the run differ from those first '
                              'published for this size' % a, rep)
    ctx.count(('final-recheck',), True, 'final-recheck', None, n=len(snaps))


class _Interrupt(Exception):
    """private exception injected into a lazy evaluation"""


def _inject(exc_type, k, root):
    """profile hook raising exc_type at the k-th Python-level call into code under `root`"""
    state = {'calls': 0, 'fired': False}

    def hook(frame, event, arg):
        if event == 'call' and not state['fired'] and frame.f_code.co_filename.startswith(root) \
                and frame.f_code.co_name != '<module>':
            state['calls'] += 1
            if state['calls'] == k:
                state['fired'] = True
                raise exc_type('injected by the harness at qecsim call %d' % k)
    return hook, state


def interrupted_evaluations(ctx, on_difference=None):
    """CRASH POINTS during lazy evaluation.  On a few not-yet-evaluated sizes of every family: several fresh equal
    objects; on each, the FIRST evaluation of one matrix attribute is aborted by an exception (a private Exception class,
    KeyboardInterrupt or MemoryError) raised at a random k-th call inside qecsim code; then the attribute is read again ON
    THE SAME OBJECT, followed by the other attributes.  What that object publishes must satisfy the property directly and
    equal the matrices of a fresh equal object read in the usual order (which the family checks tie to the model)."""
    import sys
    import qecsim
    rng = ctx.rng
    root = os.path.dirname(os.path.abspath(qecsim.__file__)) + os.sep
    per = ctx.pick(3, 6)
    nobj = ctx.pick(4, 6)
    chosen = []
    for fam in family_sizes(ctx, per_family=True):
        small = [s for s in fam if max(s[1]) <= 7]
        pool = [s for s in fam if s not in small]
        chosen += rng.sample(small, min(per - 1, len(small))) + rng.sample(pool, min(1, len(pool)))
    fired = 0
    for cls, args in chosen:
        rep = _rep(cls, args, check='interrupted-evaluation')
        try:
            n = int(cls(*args).n_k_d[0])
        except Exception:  # noqa  (reported by cold_queries)
            continue
        objs = []
        for j in range(nobj):
            code = cls(*args)
            attr = rng.choice(MATRIX_ATTRS + ('stabilizers', 'validate()'))
            exc_type = rng.choice([_Interrupt, KeyboardInterrupt, MemoryError])
            k = 1 + int((10 * n) ** rng.random()) if rng.random() < 0.5 else rng.randint(1, 6 * n)
            hook, state = _inject(exc_type, k, root)
            outcome = 'completed'
            try:
                sys.setprofile(hook)
                try:
                    code.validate() if attr == 'validate()' else getattr(code, attr)
                finally:
                    sys.setprofile(None)
            except (_Interrupt, KeyboardInterrupt, MemoryError) as e:
                outcome = 'interrupted' if state['fired'] else 'raised ' + type(e).__name__
            except Exception as e:  # noqa  (the injected exception re-wrapped by the implementation)
                outcome = 'interrupted (surfaced as %s)' % type(e).__name__ if state['fired'] else 'raised ' + type(e).__name__
            fired += state['fired']
            objs.append((code, '%s first evaluated with %s injected at qecsim call %d: %s'
                         % (attr, exc_type.__name__, k, outcome), attr, state['fired']))
            ctx.count(('interrupt', cls.__name__, args, attr, k), state['fired'], 'interrupted-evaluation/' + rep['family'],
                      dict(rep, history=objs[-1][1]) if len(objs) == 1 and cls.__name__ == 'ToricCode' else None)
        results = []
        for code, what, attr, was_fired in objs:
            hist = [what]
            order = [a for a in MATRIX_ATTRS if a != attr]
            rng.shuffle(order)
            order = ([attr] if attr != 'validate()' else []) + order + ['n_k_d', 'validate()']
            vals = {}
            for a in order:
                hist.append(a)
                ok, v = read_attr(ctx, code, a, dict(rep, history=list(hist)))
                if ok and a != 'validate()':
                    vals[a] = v
            if any(a not in vals for a in MATRIX_ATTRS + ('n_k_d',)):
                continue
            results.append((hist, vals))
        fresh = _canonical_reads(ctx, cls, args, rep)
        for hist, vals in results:
            diff = [a for a in MATRIX_ATTRS if fresh.get(a) is not None and not _same(fresh[a], vals[a])]
            if diff:
                _viol(ctx, 'matrices-after-interrupt', 'after an aborted first evaluation the same code object publishes %s '
                              'different from a fresh equal object' % ', '.join(diff), dict(rep, history=hist))
            probs = validity_problems(vals['n_k_d'], vals['stabilizers'], vals['logical_xs'], vals['logical_zs'], vals['logicals'])
            for key, what, det in probs:
                _viol(ctx, 'matrices-after-interrupt', 'after an aborted first evaluation the same code object publishes '
                              'invalid matrices: ' + what, dict(rep, problem=key, history=hist, **det))
            if (diff or probs) and on_difference is not None:
                on_difference(dict(rep, history=hist), vals['n_k_d'], vals['stabilizers'])
    ctx.notes.append('crash points: %d first evaluations aborted by an injected exception at a random qecsim call, then '
                     're-read on the same object (%d sizes, all five families)' % (fired, len(chosen)))
    ctx.extra['interrupted_evaluations'] = {'sizes': len(chosen), 'objects': len(chosen) * nobj, 'interrupts_fired': fired}


def _child(ctx, pyflags, codes, rows, timeout=600, logging_cfg=None, env_extra=None):
    """run harness/lat_child.py in a child interpreter with the given interpreter options / logging configuration;
    list of records"""
    import sys
    env = dict(os.environ)
    env.pop('PYTHONOPTIMIZE', None)
    env.pop('QECSIM_CFG', None)
    env['PYTHONPATH'] = os.path.join(os.environ.get('VERIF_REPO', '/repo'), 'src')
    env.setdefault('PYTHONHASHSEED', '0')
    env['PYTHONDONTWRITEBYTECODE'] = '1'
    env.update(env_extra or {})
    p = subprocess.run([sys.executable] + list(pyflags) + ['-W', 'ignore', os.path.join(VERIF, 'harness', 'lat_child.py')],
                       input=json.dumps({'rows': rows, 'codes': codes, 'logging': logging_cfg}), capture_output=True, text=True,
                       timeout=timeout, env=env, cwd=BUILD)
    lines = [json.loads(l) for l in p.stdout.split('\n') if l.startswith('{')]
    lines = [l for l in lines if 'log_records' not in l]
    return p.returncode, lines, p.stderr[-1500:]


LOGGING_INI = """[loggers]
keys=root,qecsim
[handlers]
keys=sink
[formatters]
keys=plain
[logger_root]
level=WARNING
handlers=sink
[logger_qecsim]
level=%s
handlers=sink
qualname=qecsim
propagate=0
[handler_sink]
class=FileHandler
args=(os.devnull,)
formatter=plain
[formatter_plain]
format=%%(asctime)s %%(name)s %%(levelname)s %%(message)s
"""


def _here_matrices(ctx):
    """what THIS (normal, default logging) interpreter publishes for every family size and the basic codes"""
    from harness.lat_child import matrix_digest
    from qecsim.models.basic import FiveQubitCode, SteaneCode
    codes, here = [], {}
    fam_of = dict(FAMILY_OF, FiveQubitCode='five', SteaneCode='steane')
    cls_of = {fam_of[c.__name__]: c for c in _families() + (FiveQubitCode, SteaneCode)}
    for cls, args in family_sizes(ctx) + [(FiveQubitCode, ()), (SteaneCode, ())]:
        fam = fam_of[cls.__name__]
        codes.append([fam, list(args)])
        try:
            code = cls(*args)
            here[(fam, tuple(args))] = ([int(v) for v in code.n_k_d],
                                        matrix_digest((code.stabilizers, code.logical_xs, code.logical_zs)))
        except Exception:  # noqa  (reported as matrices-raise by the cold histories / family checks)
            here[(fam, tuple(args))] = None
    return codes, here, cls_of


def _configurations(ctx, configs, on_difference=None):
    """Each configuration = dict(mode (text), flags (interpreter options), logging (None | dict for lat_child), ini (None |
    level for a logging_qecsim.ini under $QECSIM_CFG), key (violation key), head_ok (predicate on the child's first line)).
    The children run concurrently; every one recomputes stabilizers / logical_xs / logical_zs / logicals / n_k_d /
    validate() of every family size of the checks' range and of the basic codes; they must equal what this interpreter
    publishes (which the family checks compare with the model row by row).  on_difference(replay, n_k_d, S) gets the
    child's stabilizers of a differing size."""
    import shutil
    import tempfile
    from concurrent.futures import ThreadPoolExecutor
    codes, here, cls_of = _here_matrices(ctx)
    tmp = tempfile.mkdtemp(prefix='verif_latcfg_')
    try:
        for k, cfg in enumerate(configs):
            cfg['env'] = {}
            if cfg.get('ini'):
                d = os.path.join(tmp, 'cfg%d' % k)
                os.makedirs(d)
                with open(os.path.join(d, 'logging_qecsim.ini'), 'w') as f:
                    f.write(LOGGING_INI % cfg['ini'])
                cfg['env'] = {'QECSIM_CFG': d}

        def first(cfg):
            try:
                return _child(ctx, cfg['flags'], codes, False, logging_cfg=cfg.get('logging'), env_extra=cfg['env'])
            except Exception as e:  # noqa
                return -1, [], repr(e)[:500]
        with ThreadPoolExecutor(max_workers=min(6, len(configs))) as ex:
            results = list(ex.map(first, configs))
        for cfg, (rc, recs, err) in zip(configs, results):
            mode, key = cfg['mode'], cfg['key']
            head = recs[0].get('flags', {}) if recs else {}
            ok = rc == 0 and len(recs) == len(codes) + 1 and bool(cfg['head_ok'](head))
            ctx.obligation('child interpreter (%s) returned the matrices of all %d codes' % (mode, len(codes)), ok,
                           err + ' ' + json.dumps(head))
            ctx.notes.append('run configuration: matrices of %d codes recomputed under %s and compared' % (len(codes), mode))
            differing = []
            for rec in recs[1:]:
                ckey = (rec['family'], tuple(rec['args']))
                rep = {'family': rec['family'], 'size': rec['args'], 'configuration': mode}
                ctx.count((key, mode, ckey), True, key.replace('-matrices', '') + '/' + rec['family'],
                          rep if ckey == ('rotplanar', (3, 4)) else None)
                if here.get(ckey) is None:
                    continue
                if 'error' in rec:
                    _viol(ctx, key, 'under %s the matrices of an accepted size raise %s' % (mode, rec['error']), rep)
                elif (rec['n_k_d'], rec['digest']) != here[ckey] or rec.get('validate') != 'ok':
                    differing.append(ckey)
            if not differing:
                continue
            # one representative set per family (smallest sizes first), with the rows
            differing.sort(key=lambda t: (t[0], sum(t[1]), t[1]))
            chosen, per = [], {}
            for f, a in differing:
                per[f] = per.get(f, 0) + 1
                if per[f] <= 4:
                    chosen.append((f, a))
            rc, recs, err = _child(ctx, cfg['flags'], [[f, list(a)] for f, a in chosen[:16]], True,
                                   logging_cfg=cfg.get('logging'), env_extra=cfg['env'])
            for rec in recs[1:]:
                if 'rows' not in rec:
                    continue
                fam, args = rec['family'], tuple(rec['args'])
                code = cls_of[fam](*args)
                n = int(code.n_k_d[0])
                mats = {nm: np.array([[int(ch) for ch in bin(int(h, 16))[2:].zfill(2 * n)] for h in rows],
                                     dtype=np.int64).reshape(len(rows), 2 * n)
                        for nm, rows in rec['rows'].items()}
                first_diff = {}
                for nm in ('stabilizers', 'logical_xs', 'logical_zs'):
                    mine = np.asarray(getattr(code, nm))
                    if mine.shape != mats[nm].shape:
                        first_diff[nm] = 'shape %s vs %s' % (list(mats[nm].shape), list(mine.shape))
                    elif not np.array_equal(mine, mats[nm]):
                        i = int(np.flatnonzero((mine != mats[nm]).any(axis=1))[0])
                        first_diff[nm] = {'row': i, 'configured': rec['rows'][nm][i], 'normal': ''.join(str(int(v)) for v in mine[i])}
                probs = [p[0] + ': ' + p[1] for p in validity_problems(rec['n_k_d'], mats['stabilizers'], mats['logical_xs'], mats['logical_zs'])]
                rep = {'family': fam, 'size': list(args), 'configuration': mode}
                _viol(ctx, key, 'under %s the code publishes matrices / n_k_d different from the normal interpreter with default '
                      'logging' % mode, dict(rep, n_k_d=rec['n_k_d'], n_k_d_normal=[int(v) for v in code.n_k_d],
                                             validate=rec.get('validate'), first_difference=first_diff,
                                             property_on_configured_matrices=probs[:4]))
                if on_difference is not None:
                    on_difference(rep, rec['n_k_d'], mats['stabilizers'])
    finally:
        shutil.rmtree(tmp, ignore_errors=True)


def logging_configurations(ctx, on_difference=None):
    """LOGGING CONFIGURATION as part of the run configuration of code construction.  Child interpreters with the root
    logger at DEBUG / at INFO, the `qecsim` logger at DEBUG (root left alone), and the documented route ($QECSIM_CFG/
    logging_qecsim.ini with level DEBUG, loaded by qecsim.util.init_logging() as the command line does); thorough tier
    also `python -O` combined with DEBUG and INFO on the `qecsim` logger.  Records are formatted, nothing is printed.
    A difference from what this interpreter publishes is a violation (logging-config-matrices)."""
    def enabled(head):
        lg = head.get('logging') or {}
        return lg.get('enabled_for_level') is True

    def ini_ok(head):
        return (head.get('logging') or {}).get('enabled_for_level') is True
    configs = [
        {'mode': 'logging: root logger at DEBUG (logging.basicConfig(level=DEBUG) equivalent)', 'flags': [],
         'logging': {'target': 'root', 'level': 'DEBUG'}, 'head_ok': enabled},
        {'mode': 'logging: logger qecsim at DEBUG, root unchanged', 'flags': [],
         'logging': {'target': 'qecsim', 'level': 'DEBUG'}, 'head_ok': enabled},
        {'mode': 'logging: root logger at INFO', 'flags': [], 'logging': {'target': 'root', 'level': 'INFO'}, 'head_ok': enabled},
        {'mode': 'logging: $QECSIM_CFG/logging_qecsim.ini with logger qecsim at DEBUG, qecsim.util.init_logging()', 'flags': [],
         'logging': {'target': 'ini', 'level': 'DEBUG'}, 'ini': 'DEBUG', 'head_ok': ini_ok},
    ]
    if not ctx.quick:
        configs += [
            {'mode': 'python -O with logging: root logger at DEBUG', 'flags': ['-O'],
             'logging': {'target': 'root', 'level': 'DEBUG'},
             'head_ok': lambda h: enabled(h) and h.get('optimize', 0) >= 1 and h.get('debug') is False},
            {'mode': 'python -OO with logging: logger qecsim at DEBUG', 'flags': ['-OO'],
             'logging': {'target': 'qecsim', 'level': 'DEBUG'},
             'head_ok': lambda h: enabled(h) and h.get('optimize', 0) >= 2},
            {'mode': 'logging: logger qecsim at INFO, root unchanged', 'flags': [],
             'logging': {'target': 'qecsim', 'level': 'INFO'}, 'head_ok': enabled},
            {'mode': 'logging: $QECSIM_CFG/logging_qecsim.ini with logger qecsim at INFO, qecsim.util.init_logging()', 'flags': [],
             'logging': {'target': 'ini', 'level': 'INFO'}, 'ini': 'INFO', 'head_ok': ini_ok},
        ]
    for c in configs:
        c['key'] = 'logging-config-matrices'
    _configurations(ctx, configs, on_difference)


def optimised_mode(ctx, on_difference=None, include_logging=True):
    """INTERPRETER CONFIGURATION.  The documented optimised mode (`python -O`, thorough tier also -OO): a child interpreter
    computes stabilizers / logical_xs / logical_zs / logicals / n_k_d / validate() of every family size of the checks'
    range and of the basic codes; they must equal what this (normal) interpreter publishes, which the family checks compare
    with the model row by row.  on_difference(replay, n_k_d, S) is called with the child's stabilizers of a differing size.
    include_logging: also the logging configurations (logging_configurations), unless the caller runs them itself."""
    configs = [{'mode': 'python ' + ' '.join(flags), 'flags': flags, 'logging': None, 'key': 'optimised-mode-matrices',
                'head_ok': lambda h: h.get('optimize', 0) >= 1 and h.get('debug') is False}
               for flags in ctx.pick((['-O'],), (['-O'], ['-OO']))]
    _configurations(ctx, configs, on_difference)
    if include_logging:
        logging_configurations(ctx, on_difference)


def extreme_sizes(ctx):
    """C15 at sizes whose coordinates cross small-integer widths (beyond 127 / 255): syndrome bit i maps back to the
    plaquette that produced stabilizer i, multi-bit syndromes map to the set of flagged plaquettes, and sampled
    same-type paths (near the far edges included) have exactly their end points as syndrome."""
    from qecsim import paulitools as pt
    rng = ctx.rng
    PlanarCode, ToricCode, RotatedPlanarCode, RotatedToricCode, Color666Code = _families()
    cases = [(PlanarCode, (2, 131)), (PlanarCode, (131, 2)), (PlanarCode, (3, 140)), (PlanarCode, (2, 260)),
             (ToricCode, (2, 131)), (ToricCode, (131, 2)), (ToricCode, (2, 260)),
             (RotatedPlanarCode, (3, 131)), (RotatedPlanarCode, (131, 3)), (RotatedPlanarCode, (3, 259)),
             (RotatedToricCode, (2, 130)), (RotatedToricCode, (130, 2)), (RotatedToricCode, (2, 258))]
    if not ctx.quick:
        cases += [(PlanarCode, (260, 2)), (PlanarCode, (4, 200)), (ToricCode, (260, 2)), (RotatedPlanarCode, (259, 3)),
                  (RotatedToricCode, (258, 2)), (RotatedToricCode, (4, 132))]
    for cls, args in cases:
        code = cls(*args)
        fam = cls.__name__
        rep = {'family': fam, 'size': list(args)}
        n = int(code.n_k_d[0])
        S = np.array(code.stabilizers, dtype=np.uint8)
        m = len(S)
        pidx = []
        bad = False
        for i in range(m):
            e = np.zeros(m, dtype=int)
            e[i] = 1
            g = [tuple(int(v) for v in t) for t in code.syndrome_to_plaquette_indices(e)]
            ok = len(g) == 1
            if ok:
                row = code.new_pauli().plaquette(g[0]).to_bsf()
                ok = np.array_equal(row, S[i])
            if not ok:
                ctx.violation('extreme-size-syndrome-map', 'syndrome bit i does not map back to the plaquette whose operator is '
                              'stabilizer i', dict(rep, bit=i, got=[list(t) for t in g]))
                bad = True
                break
            pidx.append(g[0])
        ctx.count(('extreme', fam, args), True, 'extreme-size/' + fam, None, n=m)
        if bad:
            continue
        for _ in range(4):
            syn = np.array([1 if rng.random() < 0.1 else 0 for _ in range(m)])
            got = set(tuple(int(v) for v in t) for t in code.syndrome_to_plaquette_indices(syn))
            if got != {pidx[i] for i in range(m) if syn[i]}:
                ctx.violation('extreme-size-syndrome-map', 'syndrome_to_plaquette_indices is not the set of flagged plaquettes',
                              dict(rep, syndrome_weight=int(syn.sum())))
        if not hasattr(code.new_pauli(), 'path'):
            continue
        xtype = S[:, :n].any(axis=1)
        St = S.T.astype(np.int64)
        edge = [i for i in range(m) if max(pidx[i]) >= 120]
        for _ in range(ctx.pick(60, 400)):
            i = rng.choice(edge) if edge and rng.random() < 0.6 else rng.randrange(m)
            same = [j for j in (rng.randrange(m) for _ in range(12)) if xtype[j] == xtype[i]]
            if cls is ToricCode:
                same = [j for j in same if pidx[j][0] == pidx[i][0]]
            if not same:
                continue
            j = same[0]
            a, b = pidx[i], pidx[j]
            path = code.new_pauli().path(a, b).to_bsf()
            syn = pt.bsp(path, St) % 2
            want = np.zeros(m, dtype=int)
            want[i] ^= 1
            want[j] ^= 1
            ctx.count(('extreme-path', fam, args, a, b), a != b, 'extreme-size-path/' + fam, None)
            if not np.array_equal(syn, want):
                ctx.violation('extreme-size-path-syndrome', 'syndrome of path(a, b) is not exactly {a, b}',
                              dict(rep, a=list(a), b=list(b)))
                break


def stage(ctx, name, fn, *a, **kw):
    """run one pass of a lattice check; a crash of the pass itself is a broken obligation, the other passes still run"""
    try:
        fn(ctx, *a, **kw)
    except Exception:  # noqa
        ctx.obligation('harness pass %s completed' % name, False, traceback.format_exc())
