"""Shared driver for the lattice properties C07 / C08 / C15: regenerate the translated integer kernels from the
current source, rebuild dependants when they changed, then run every family module's check function."""
import importlib
import json
import os
import subprocess
import traceback

import numpy as np

from harness.common import VERIF, BUILD
from harness import latarith_check

FAMILIES = [('planar', 'lat_planar'), ('toric', 'lat_toric'), ('rotplanar', 'lat_rotplanar'),
            ('rottoric', 'lat_rottoric'), ('color', 'lat_color')]


def prepare(ctx):
    ok, msg = latarith_check.regenerate(ctx)
    changed = False
    try:
        changed = json.load(open(os.path.join(BUILD, 'translator_meta.json'))).get('changed', False)
    except Exception:
        pass
    stamp = os.path.join(BUILD, 'qmodel_latpt')
    gen = os.path.join(VERIF, 'coq', 'theories', 'Generated', 'LatticeArith.v')
    stale = os.path.exists(stamp) and os.path.exists(gen) and os.path.getmtime(gen) > os.path.getmtime(stamp)
    if ok and (changed or stale):
        # the code's formulas changed: rebuild the Coq development (proofs may now fail) and the model engines
        ctx.notes.append('translated lattice kernels changed: development and engines rebuilt from the new definitions')
        ctx.coq_make(keep_going=True)
        p = subprocess.run(['bash', '-c', './build_engines.sh latpt & ./build_engines.sh latrc & wait'], cwd=VERIF,
                           capture_output=True, text=True)
        for e in ('latpt', 'latrc'):
            exe = os.path.join(BUILD, 'qmodel_' + e)
            fresh = os.path.exists(exe) and os.path.getmtime(exe) >= os.path.getmtime(gen)
            ctx.obligation('model engine %s rebuilt from regenerated kernels' % e, fresh, p.stdout + p.stderr)
    ctx.props_obligations()
    return ok


def run_families(ctx, fn_name, translator_families=None):
    fams = []
    for fam, modname in FAMILIES:
        try:
            mod = importlib.import_module('harness.' + modname)
        except ImportError:
            continue
        fn = getattr(mod, fn_name, None)
        if fn is None:
            continue
        fams.append(fam)
        try:
            fn(ctx)
        except Exception:
            ctx.obligation('family %s %s completed' % (fam, fn_name), False, traceback.format_exc())
    latarith_check.check(ctx, translator_families or fams)
    return fams


def _families():
    from qecsim.models.planar import PlanarCode
    from qecsim.models.toric import ToricCode
    from qecsim.models.rotatedplanar import RotatedPlanarCode
    from qecsim.models.rotatedtoric import RotatedToricCode
    from qecsim.models.color import Color666Code
    return PlanarCode, ToricCode, RotatedPlanarCode, RotatedToricCode, Color666Code


def cold_queries(ctx):
    """Read-only index queries (in range, on the boundary and outside the lattice) and documented no-op Pauli calls on a
    FRESH code object of every size, in random order, BEFORE its matrices are first computed in this process; the
    matrices are then computed on that same object.  Everything the family checks decide afterwards (rows against the
    model, validity, ranks) is therefore decided on matrices computed after such a history."""
    import inspect
    rng = ctx.rng
    PlanarCode, ToricCode, RotatedPlanarCode, RotatedToricCode, Color666Code = _families()
    top = ctx.pick(9, 13)
    sizes = [(PlanarCode, (r, c)) for r in range(2, top) for c in range(2, top)]
    sizes += [(ToricCode, (r, c)) for r in range(2, top) for c in range(2, top)]
    sizes += [(RotatedPlanarCode, (r, c)) for r in range(3, top + 1) for c in range(3, top + 1)]
    sizes += [(RotatedToricCode, (r, c)) for r in range(2, top + 2, 2) for c in range(2, top + 2, 2)]
    sizes += [(Color666Code, (s,)) for s in range(3, top + 6, 2)]
    ncalls = 0
    for cls, args in sizes:
        code = cls(*args)
        hi = 2 * max(args) + 3
        preds = [nm for nm, f in inspect.getmembers(cls, predicate=inspect.isfunction)
                 if nm.startswith('is_') and len(inspect.signature(f).parameters) == 2]
        pauli = code.new_pauli()
        for _ in range(rng.randint(0, 24)):
            idx = (rng.randint(-3, hi), rng.randint(-3, hi))
            if cls is ToricCode:
                idx = (rng.randint(-1, 2),) + idx
            try:
                r = rng.random()
                if r < 0.7 and preds:
                    getattr(code, rng.choice(preds))(idx)
                elif r < 0.85:
                    if cls is Color666Code:
                        pauli.plaquette(rng.choice('XZ'), idx)
                    else:
                        pauli.plaquette(idx)
                else:
                    pauli.site(rng.choice('XYZ'), idx)
                ncalls += 1
            except Exception:  # noqa  (out-of-lattice indices may be refused; only the later matrices matter here)
                pass
        code.stabilizers, code.logicals, code.n_k_d
    ctx.extra['cold_queries'] = {'code_objects': len(sizes), 'calls': ncalls}
    ctx.count(('cold-queries',), True, 'cold-query-history', None, n=len(sizes))


def extreme_sizes(ctx):
    """C15 at sizes whose coordinates cross small-integer widths (beyond 127 / 255): syndrome bit i maps back to the
    plaquette that produced stabilizer i, multi-bit syndromes map to the set of flagged plaquettes, and sampled
    same-type paths (near the far edges included) have exactly their end points as syndrome."""
    from qecsim import paulitools as pt
    rng = ctx.rng
    PlanarCode, ToricCode, RotatedPlanarCode, RotatedToricCode, Color666Code = _families()
    cases = [(PlanarCode, (2, 131)), (PlanarCode, (131, 2)), (PlanarCode, (3, 140)), (PlanarCode, (2, 260)),
             (ToricCode, (2, 131)), (ToricCode, (131, 2)), (ToricCode, (2, 260)),
             (RotatedPlanarCode, (3, 131)), (RotatedPlanarCode, (131, 3)), (RotatedPlanarCode, (3, 259)),
             (RotatedToricCode, (2, 130)), (RotatedToricCode, (130, 2)), (RotatedToricCode, (2, 258))]
    if not ctx.quick:
        cases += [(PlanarCode, (260, 2)), (PlanarCode, (4, 200)), (ToricCode, (260, 2)), (RotatedPlanarCode, (259, 3)),
                  (RotatedToricCode, (258, 2)), (RotatedToricCode, (4, 132))]
    for cls, args in cases:
        code = cls(*args)
        fam = cls.__name__
        rep = {'family': fam, 'size': list(args)}
        n = int(code.n_k_d[0])
        S = np.array(code.stabilizers, dtype=np.uint8)
        m = len(S)
        pidx = []
        bad = False
        for i in range(m):
            e = np.zeros(m, dtype=int)
            e[i] = 1
            g = [tuple(int(v) for v in t) for t in code.syndrome_to_plaquette_indices(e)]
            ok = len(g) == 1
            if ok:
                row = code.new_pauli().plaquette(g[0]).to_bsf()
                ok = np.array_equal(row, S[i])
            if not ok:
                ctx.violation('extreme-size-syndrome-map', 'syndrome bit i does not map back to the plaquette whose operator is '
                              'stabilizer i', dict(rep, bit=i, got=[list(t) for t in g]))
                bad = True
                break
            pidx.append(g[0])
        ctx.count(('extreme', fam, args), True, 'extreme-size/' + fam, None, n=m)
        if bad:
            continue
        for _ in range(4):
            syn = np.array([1 if rng.random() < 0.1 else 0 for _ in range(m)])
            got = set(tuple(int(v) for v in t) for t in code.syndrome_to_plaquette_indices(syn))
            if got != {pidx[i] for i in range(m) if syn[i]}:
                ctx.violation('extreme-size-syndrome-map', 'syndrome_to_plaquette_indices is not the set of flagged plaquettes',
                              dict(rep, syndrome_weight=int(syn.sum())))
        if not hasattr(code.new_pauli(), 'path'):
            continue
        xtype = S[:, :n].any(axis=1)
        St = S.T.astype(np.int64)
        edge = [i for i in range(m) if max(pidx[i]) >= 120]
        for _ in range(ctx.pick(60, 400)):
            i = rng.choice(edge) if edge and rng.random() < 0.6 else rng.randrange(m)
            same = [j for j in (rng.randrange(m) for _ in range(12)) if xtype[j] == xtype[i]]
            if cls is ToricCode:
                same = [j for j in same if pidx[j][0] == pidx[i][0]]
            if not same:
                continue
            j = same[0]
            a, b = pidx[i], pidx[j]
            path = code.new_pauli().path(a, b).to_bsf()
            syn = pt.bsp(path, St) % 2
            want = np.zeros(m, dtype=int)
            want[i] ^= 1
            want[j] ^= 1
            ctx.count(('extreme-path', fam, args, a, b), a != b, 'extreme-size-path/' + fam, None)
            if not np.array_equal(syn, want):
                ctx.violation('extreme-size-path-syndrome', 'syndrome of path(a, b) is not exactly {a, b}',
                              dict(rep, a=list(a), b=list(b)))
                break
