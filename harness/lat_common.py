"""Shared driver for the lattice properties C07 / C08 / C15: regenerate the translated integer kernels from the
current source, rebuild dependants when they changed, then run every family module's check function."""
import importlib
import json
import os
import subprocess
import traceback

from harness.common import VERIF, BUILD
from harness import latarith_check

FAMILIES = [('planar', 'lat_planar'), ('toric', 'lat_toric'), ('rotplanar', 'lat_rotplanar'),
            ('rottoric', 'lat_rottoric'), ('color', 'lat_color')]


def prepare(ctx):
    ok, msg = latarith_check.regenerate(ctx)
    changed = False
    try:
        changed = json.load(open(os.path.join(BUILD, 'translator_meta.json'))).get('changed', False)
    except Exception:
        pass
    stamp = os.path.join(BUILD, 'qmodel_latpt')
    gen = os.path.join(VERIF, 'coq', 'theories', 'Generated', 'LatticeArith.v')
    stale = os.path.exists(stamp) and os.path.exists(gen) and os.path.getmtime(gen) > os.path.getmtime(stamp)
    if ok and (changed or stale):
        # the code's formulas changed: rebuild the Coq development (proofs may now fail) and the model engines
        ctx.notes.append('translated lattice kernels changed: development and engines rebuilt from the new definitions')
        ctx.coq_make(keep_going=True)
        p = subprocess.run(['bash', '-c', './build_engines.sh latpt & ./build_engines.sh latrc & wait'], cwd=VERIF,
                           capture_output=True, text=True)
        for e in ('latpt', 'latrc'):
            exe = os.path.join(BUILD, 'qmodel_' + e)
            fresh = os.path.exists(exe) and os.path.getmtime(exe) >= os.path.getmtime(gen)
            ctx.obligation('model engine %s rebuilt from regenerated kernels' % e, fresh, p.stdout + p.stderr)
    ctx.props_obligations()
    return ok


def run_families(ctx, fn_name, translator_families=None):
    fams = []
    for fam, modname in FAMILIES:
        try:
            mod = importlib.import_module('harness.' + modname)
        except ImportError:
            continue
        fn = getattr(mod, fn_name, None)
        if fn is None:
            continue
        fams.append(fam)
        try:
            fn(ctx)
        except Exception:
            ctx.obligation('family %s %s completed' % (fam, fn_name), False, traceback.format_exc())
    latarith_check.check(ctx, translator_families or fams)
    return fams
