"""C09 — integer storage types x counts crossing the limits of those types, for every public function taking an array.

The property speaks of binary vectors and stackings; it does not fix how the 0/1 entries are stored.  A function that
COUNTS or SUMS entries (weights: non-identity factors; bsp: positions where the X part of one operand meets the Z part
of the other; pack: bits) may carry the running total in the storage type of its argument, and a total that crosses
the limit of that type (127/128, 255/256, 32767/32768, 65535/65536) wraps.  Small exhaustive checks in any type and
large checks in the default type cannot see that.  This module therefore sweeps

    storage type  x  which total is driven over a limit  x  shape of the argument  x  function

with operands built letter by letter so that the driven total is EXACTLY limit-1, limit, limit+1:
  * the number of Y factors, of X factors, of Z factors, of non-identity factors, in a vector (the operator made of
    that letter only, and the letter scattered / packed to the front among other letters on more qubits) and over a
    whole stacking (many short rows, a few long rows) - the total over the stack crosses the limit although no row does;
  * for bsp, the number of positions where the two operators hold distinct non-identity letters (the rest of the
    positions hold an identity on one side, or equal letters on both sides - Y against Y adds two to the sum that
    bsp forms, so the all-Y operator against itself crosses at half the size), for vector x vector and stacked forms;
  * for pack, the number of set bits and the length.

Every case goes through `Sweep.unary_case` / `Sweep.bsp_case` of c09_shapes (value, shape, integer-ness against the
extracted model's shape-carrying protocol, and against the independent letter count / anticommutation parity) and
`pack_case` below (model `pack`, and unpack(pack(v)) = v).  Expected values: model and letter-level truth only.

bool arrays are not swept: numpy's `dot` on bool is a logical or-of-ands, so bsp of the unchanged tree on bool operands
is not the symplectic product (recorded in ctx.notes); the documented operand is an array 'with elements 0 or 1'."""
import numpy as np

from harness.c09_shapes import Sweep, guard, describe, int_problem, array_problem, spec

DTYPES = ('int8', 'uint8', 'int16', 'uint16', 'int32', 'uint32', 'int64', 'uint64')
XZ = {'I': (0, 0), 'X': (1, 0), 'Z': (0, 1), 'Y': (1, 1)}
OTHERS = {'Y': 'IXZ', 'X': 'IYZ', 'Z': 'IXY', 'N': 'I'}


def from_letters(rows, dtype, vector=False):
    """letters -> binary symplectic array, independently of the implementation"""
    m = [[XZ[ch][0] for ch in r] + [XZ[ch][1] for ch in r] for r in rows]
    a = np.array(m, dtype=dtype).reshape(len(rows), 2 * len(rows[0]) if rows else 0)
    return a[0] if vector else a


def exact_cells(rng, cells, total, letter, place):
    """`cells` letters of which exactly `total` are `letter` ('N': any non-identity letter)"""
    assert cells >= total
    if place == 'front':
        pos = set(range(total))
    elif place == 'back':
        pos = set(range(cells - total, cells))
    else:
        pos = set(rng.sample(range(cells), total))
    bg = OTHERS[letter]
    sparse_bg = rng.random() < 0.5
    out = []
    for i in range(cells):
        if i in pos:
            out.append(letter if letter != 'N' else rng.choice('XYZ'))
        else:
            out.append('I' if (sparse_bg and rng.random() < 0.8) else rng.choice(bg))
    return ''.join(out)


def chop(cells, n):
    return [cells[i:i + n] for i in range(0, len(cells), n)]


def unary_operands(rng, total, letter, thorough, big):
    """(tag, rows, vector?) with exactly `total` factors `letter` in the whole argument"""
    out = []
    pure = (letter if letter != 'N' else 'Y') * total
    if letter != 'N':
        out.append(('pure-vector', [pure], True))
    pad = rng.randint(1, 40)
    out.append(('scattered-vector', [exact_cells(rng, total + pad, total, letter, 'scatter')], True))
    if thorough or rng.random() < 0.5:
        out.append(('front-vector', [exact_cells(rng, total + pad, total, letter, rng.choice(('front', 'back')))], True))
    out.append(('one-row', [exact_cells(rng, total + rng.randint(0, 3), total, letter, 'scatter')], False))
    widths = (64,) if big else ((1, 5, 13) if thorough else (rng.choice((1, 2, 3)), 5, rng.choice((7, 13, 25))))
    for n in widths:
        rows = -(-total // n) + rng.choice((0, 0, 1, 3))
        place = rng.choice(('front', 'scatter')) if rows * n > total else 'front'
        out.append(('stack-%dx%d' % (rows, n), chop(exact_cells(rng, rows * n, total, letter, place), n), False))
    for r in (2, 3):
        n = -(-total // r) + rng.randint(0, 5)
        out.append(('stack-%dx%d' % (r, n), chop(exact_cells(rng, r * n, total, letter, 'scatter'), n), False))
    return out


def anti_pair(rng, n, total, background):
    """two operators on n qubits with distinct non-identity letters on exactly `total` positions"""
    pos = set(rng.sample(range(n), total))
    a, k = [], []
    for i in range(n):
        if i in pos:
            x, y = rng.sample('XYZ', 2)
        elif background == 'same':
            x = y = rng.choice('XYZ' if rng.random() < 0.8 else 'I')
        elif background == 'yy':
            x = y = 'Y'
        else:
            x, y = rng.choice('IXYZ'), 'I'
            if rng.random() < 0.5:
                x, y = y, x
        a.append(x)
        k.append(y)
    return ''.join(a), ''.join(k)


def rand_letters(rng, n):
    return ''.join(rng.choice('IXYZ') for _ in range(n))


class Dt:
    def __init__(self, ctx, pt):
        self.ctx, self.pt = ctx, pt
        self.sw = Sweep(ctx, pt)
        self.lines, self.pending = [], []

    def pack_case(self, v, tag):
        ctx, pt = self.ctx, self.pt
        bits = ''.join('1' if int(x) else '0' for x in v) or '-'
        rep = {'fn': 'pack/unpack', 'bits': bits, 'length': int(v.shape[0]), 'dtype': str(v.dtype), 'family': tag}
        ctx.count(('dt-pack', tag, str(v.dtype), len(bits)), bool(v.any()) and len(v) % 8 != 0, 'dtype-pack')

        def body():
            r = pt.pack(v)
            if not (isinstance(r, tuple) and len(r) == 2 and isinstance(r[0], str) and int_problem(r[1]) is None):
                ctx.violation('pack-shape', 'pack does not return (hex string, length): ' + describe(r), rep)
                return
            h, ln = r
            self.lines.append('pack ' + bits)
            self.pending.append(('pack', 'pack ' + bits[:300], '%s %d' % (h if h else '-', ln), rep))
            if ln != len(v) or len(h) != 2 * ((len(v) + 7) // 8):
                ctx.violation('pack-shape', 'packed length fields wrong', dict(rep, packed=[h[:80], ln]))
            u = pt.unpack((h, ln))
            prob = array_problem(u, (len(v),))
            if prob or ''.join('1' if int(x) else '0' for x in u) != (bits if bits != '-' else ''):
                ctx.violation('pack-roundtrip', 'unpack(pack(v)) != v: %s' % (prob or describe(u)),
                              dict(rep, packed=[h[:80], ln]))
            if ''.join('1' if int(x) else '0' for x in v) != (bits if bits != '-' else ''):
                ctx.violation('input-mutated', 'pack changed its argument', rep)
        guard(ctx, rep, body)

    def settle(self):
        ctx = self.ctx
        self.sw.settle()
        out = ctx.model('c09', self.lines)
        for (fn, line, got, rep), m in zip(self.pending, out):
            if not ctx.cmp(fn + '[dtype]', line, got, m):
                ctx.violation('model-' + fn, 'the answer is not the model\'s answer',
                              dict(rep, got=got[:400], expected_by_model=m[:400]))
        self.lines, self.pending = [], []

    # ---- weights / conversions / pack ------------------------------------------------------------------------------
    def unary(self, total, letter, dtypes, big=False):
        ctx, rng = self.ctx, self.ctx.rng
        for tag, rows, vector in unary_operands(rng, total, letter, not ctx.quick, big):
            for dt in dtypes:
                A = from_letters(rows, dt, vector)
                fam = 'dtype %s, exactly %d %s factors in the argument, %s' % (
                    dt, total, 'non-identity' if letter == 'N' else letter, tag)
                ctx.count(('dt-unary', total, letter, tag.split('-')[0], dt), True, 'dtype-unary')
                self.sw.unary_case(A, fam)
                if vector and (not big or tag == 'pure-vector'):
                    self.pack_case(A, fam)
                    # a binary array of odd / arbitrary length with the same number of set bits
                    cut = rng.randint(1, 7)
                    if A.shape[0] > cut:
                        self.pack_case(A[:-cut].copy(), fam + ', %d entries dropped' % cut)

    # ---- bsp ---------------------------------------------------------------------------------------------------------
    def products(self, total, dtypes, big=False):
        ctx, rng = self.ctx, self.ctx.rng
        layouts = ('view', 'copy', 'fortran')
        fams = []
        for bgd in ('identity', 'same', 'yy'):
            n = total + rng.randint(0, 30)
            fams.append(('exactly %d anticommuting positions, %s elsewhere' % (total, bgd),) + anti_pair(rng, n, total, bgd))
        fams.append(('all X against all Z on %d qubits' % total, 'X' * total, 'Z' * total))
        fams.append(('all Y against all X on %d qubits' % total, 'Y' * total, 'X' * total))
        h = (total + 1) // 2
        fams.append(('all Y against itself on %d qubits (sum of products %d)' % (h, 2 * h), 'Y' * h, 'Y' * h))
        fams.append(('all Y against itself on %d qubits' % total, 'Y' * total, 'Y' * total))
        for what, a, k in fams:
            n = len(a)
            for dt in dtypes:
                dk = dt if rng.random() < 0.75 else rng.choice(DTYPES)
                if np.result_type(np.dtype(dt), np.dtype(dk)).kind not in 'iu':
                    dk = dt  # numpy promotes uint64 mixed with a signed type to float64: no integer type holds both
                tag = 'dtype %s/%s, %s' % (dt, dk, what)
                shapes = [(None, None)]
                if not big:
                    shapes += [(rng.choice((1, 2, 3)), None), (None, rng.choice((1, 2, 3))),
                               (rng.choice((1, 2, 3)), rng.choice((1, 2, 3)))]
                for ra, rb in shapes:
                    ar = [a] + [rng.choice((a, k, rand_letters(rng, n))) for _ in range((ra or 1) - 1)]
                    kr = [k] + [rng.choice((a, k, rand_letters(rng, n))) for _ in range((rb or 1) - 1)]
                    rng.shuffle(ar)
                    rng.shuffle(kr)
                    A = from_letters(ar, dt, ra is None)
                    K = from_letters(kr, dk, rb is None)
                    self.sw.bsp_case(A, K, layouts[rng.randrange(3)], tag, ('dt-bsp', total, what.split(',')[0][:24], dt,
                                                                            ra, rb))


def run(ctx, pt):
    rng = ctx.rng
    d = Dt(ctx, pt)
    ctx.notes.append('storage types swept: %s; bool operands are outside the sweep (numpy dot on bool is logical, so bsp of '
                     'bool operands is not a product mod 2 on the unchanged tree either; the documented operand has '
                     '"elements 0 or 1"); the limits of 32- and 64-bit types are out of reach of any sweep; '
                     'the two operands of bsp are given the same type, or two types that numpy promotes to an integer type '
                     '(uint64 with a signed type promotes to float64: bsp then returns the right values as floats, on the '
                     'unchanged tree too - observed, not counted)'
                     % ', '.join(DTYPES))
    # 8-bit limits: every type, every driven total, every shape
    for limit in (128, 256):
        for total in (limit - 1, limit, limit + 1):
            for letter in ('Y', 'X', 'Z', 'N'):
                d.unary(total, letter, DTYPES)
            d.products(total, DTYPES)
        d.settle()
    # far side of the 8-bit limits (a total that wrapped once or twice)
    for total in sorted(set([rng.randint(258, 520), rng.randint(521, 1100)] + ([384, 512, 513, 768] if not ctx.quick else [512]))):
        for letter in ('Y', 'N'):
            d.unary(total, letter, ('int8', 'uint8', rng.choice(DTYPES[2:])))
        d.products(total, ('int8', 'uint8', rng.choice(DTYPES[2:])))
    d.settle()
    # 16-bit limits
    if ctx.quick:
        plan = [(32768, 'Y', ('int16',)), (65536, 'Y', ('uint16',)), (32768, 'N', ('uint8',)), (65536, 'X', ('int16',))]
        for total, letter, dts in plan:
            ops = unary_operands(rng, total, letter, False, True)
            vecs = [o for o in ops if o[2]]
            stacks = [o for o in ops if not o[2] and len(o[1]) > 1]
            for (tg, rw, vec) in (vecs[0], rng.choice(stacks)):
                A = from_letters(rw, dts[0], vec)
                ctx.count(('dt-unary', total, letter, tg.split('-')[0], dts[0]), True, 'dtype-unary')
                d.sw.unary_case(A, 'dtype %s, exactly %d %s factors in the argument, %s' % (dts[0], total, letter, tg))
        d.products(32768, ('int16',), big=True)
    else:
        for limit in (32768, 65536):
            for total in (limit - 1, limit, limit + 1):
                for letter in ('Y', 'N') if total != limit else ('Y', 'X', 'Z', 'N'):
                    d.unary(total, letter, ('int8', 'uint8', 'int16', 'uint16', rng.choice(DTYPES[4:])), big=True)
                d.products(total, ('int16', 'uint16', rng.choice(('int8', 'uint8'))), big=True)
            d.settle()
    d.settle()
