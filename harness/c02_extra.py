"""Extra C02 sweeps added after seeded changes were missed: (1) PlanarYDecoder over every planar size (co-prime,
non-co-prime, multiples, 2*gcd) with all single-qubit and random multi-qubit Y errors; (2) symmetry-MWPM decoders at
extreme finite bias (eta given, or derived from the context model) on lattices with even and odd dimensions and
errors with X / Z components; (3) the symmetry-MWPM decoders on the whole GRID eta x error_probability of the documented
positive range (see run_grid)."""
import numpy as np


def letter_syndrome(S, e):
    n = len(e) // 2
    ex, ez = e[:n], e[n:]
    return ((S[:, :n] @ ez) + (S[:, n:] @ ex)) % 2


def run(ctx):
    from qecsim import paulitools as pt  # noqa
    from qecsim.models.planar import PlanarCode, PlanarYDecoder
    from qecsim.models.rotatedplanar import RotatedPlanarCode, RotatedPlanarSMWPMDecoder
    from qecsim.models.rotatedtoric import RotatedToricCode, RotatedToricSMWPMDecoder
    from qecsim.models.generic import BitPhaseFlipErrorModel, DepolarizingErrorModel, BiasedDepolarizingErrorModel
    rng = ctx.rng
    # ---- (1) Y decoder, all sizes -----------------------------------------------------------------
    em = BitPhaseFlipErrorModel()
    R, C = ctx.pick((9, 10), (12, 15))
    shared_y = PlanarYDecoder()      # ONE decoder object over all sizes (every other error), next to a fresh one per size
    for r in range(2, R + 1):
        for c in range(2, C + 1):
            code = PlanarCode(r, c)
            S = code.stabilizers
            n = code.n_k_d[0]
            fresh_y = PlanarYDecoder()
            errs = []
            for q in range(n):
                e = np.zeros(2 * n, dtype=int)
                e[q] = e[n + q] = 1
                errs.append(e)
            for _ in range(ctx.pick(6, 30)):
                e = np.zeros(2 * n, dtype=int)
                for q in rng.sample(range(n), rng.randint(2, min(n, 6))):
                    e[q] = e[n + q] = 1
                errs.append(e)
            for i_e, e in enumerate(errs):
                dec = shared_y if i_e % 2 == 0 else fresh_y
                s = letter_syndrome(S, e)
                key = ('y-sweep', r, c, e.tobytes())
                try:
                    rec = dec.decode(code, s, error_model=em, error_probability=rng.choice([0.05, 0.2, 0.45]))
                    rec = getattr(rec, 'recovery', rec)
                except Exception as ex:  # noqa
                    ctx.count(key, True, 'y-sweep')
                    ctx.violation('raises', 'PlanarYDecoder raised %s on a Y-only error' % type(ex).__name__,
                                  {'code': repr(code), 'error': pt.bsf_to_pauli(e),
                                   'decoder_object': 'ONE object over all sizes 2x2..' if dec is shared_y else 'fresh for this size'})
                    continue
                ctx.count(key, r != c, 'y-sweep', {'code': repr(code), 'error_qubits': np.flatnonzero(e[:n]).tolist()}
                          if len(ctx.samples) < 7 else None)
                rec = None if rec is None else np.array(rec)
                if rec is None or rec.shape != (2 * n,) or not np.array_equal(rec % 2, rec) or \
                        not np.array_equal(letter_syndrome(S, rec), s):
                    ctx.violation('syndrome', 'PlanarYDecoder recovery does not reproduce the syndrome of a Y-only error',
                                  {'code': repr(code), 'error': pt.bsf_to_pauli(e),
                                   'decoder_object': 'ONE object over all sizes 2x2..' if dec is shared_y else 'fresh for this size',
                                   'recovery': None if rec is None else pt.bsf_to_pauli(rec % 2)})
    # ---- (2) symmetry decoders at extreme finite bias ----------------------------------------------
    etas = [1e-300, 1e-12, 1e-6, 1e6, 1e12, 9e15, 1e16, 1e17, 1e100, 1e300]
    codes = [(RotatedPlanarCode(4, 5), lambda eta: RotatedPlanarSMWPMDecoder(eta)),
             (RotatedPlanarCode(4, 4), lambda eta: RotatedPlanarSMWPMDecoder(eta)),
             (RotatedPlanarCode(3, 5), lambda eta: RotatedPlanarSMWPMDecoder(eta)),
             (RotatedToricCode(4, 4), lambda eta: RotatedToricSMWPMDecoder(rng.choice([False, True]), eta)),
             (RotatedToricCode(2, 4), lambda eta: RotatedToricSMWPMDecoder(False, eta))]
    for eta in etas:
        shared = {}      # ONE decoder object per class and eta over all its codes (every other error), next to fresh ones
        for code, mk in codes:
            S = code.stabilizers
            n = code.n_k_d[0]
            for given in (True, False):
                fresh = mk(eta if given else None)
                cem = DepolarizingErrorModel() if given else BiasedDepolarizingErrorModel(eta, 'Y')
                for i_e in range(ctx.pick(10, 60)):
                    dec = shared.setdefault((type(fresh), given), fresh) if i_e % 2 == 0 else fresh
                    e = np.zeros(2 * n, dtype=int)
                    for q in rng.sample(range(n), rng.randint(1, 3)):
                        pl = rng.randint(1, 3)
                        e[q], e[n + q] = pl & 1, pl >> 1
                    s = letter_syndrome(S, e)
                    key = ('smwpm-bias', repr(code), eta, given, e.tobytes())
                    rep = {'code': repr(code), 'decoder': repr(dec), 'context_error_model': repr(cem), 'error': pt.bsf_to_pauli(e),
                           'decoder_object': 'fresh for this code' if dec is fresh and i_e % 2 else
                           'ONE object for all codes of this class at this eta (codes in the order 4x5, 4x4, 3x5 / 4x4, 2x4)'}
                    ctx.count(key, True, 'smwpm-extreme-bias', rep if len(ctx.samples) < 8 else None)
                    try:
                        rec = dec.decode(code, s, error_model=cem, error_probability=rng.choice([0.01, 0.1, 0.4]))
                        rec = getattr(rec, 'recovery', rec)
                    except Exception as ex:  # noqa
                        ctx.violation('raises', 'symmetry decoder raised %s: %s at finite bias' % (type(ex).__name__, ex), rep)
                        continue
                    rec = None if rec is None else np.array(rec)
                    if rec is None or rec.shape != (2 * n,) or not np.array_equal(letter_syndrome(S, rec % 2), s):
                        ctx.violation('syndrome', 'symmetry decoder recovery does not reproduce the syndrome at finite bias', rep)
    run_grid(ctx)


# ---- (3) symmetry decoders: bias x context probability, the whole documented positive range, on a grid --------------
GRID_ETAS = (1e-300, 1e-200, 1e-100, 1e-10, 0.5, 1, 10, 1e10, 1e100, 1e300)
GRID_PS = (5e-324, 1e-320, 1e-300, 1e-130, 1e-30, 1e-3, 0.1, 0.5, 0.9, 1 - 2 ** -53)


def run_grid(ctx):
    """'Decoding never raises whatever eta and whatever context probability': every pair (eta, p) of GRID_ETAS x GRID_PS -
    smallest denormal to 1 - 2^-53, bias 1e-300 to 1e300, so also the corners where BOTH are extreme - for both
    rotated SMWPM decoders, eta given as the decoder parameter or derived from a BiasedDepolarizingErrorModel(eta, 'Y')
    context, on small codes with a few non-trivial syndromes.  All of the grid is inside the documented domain (eta a
    positive finite number, p in (0, 1)).  Decided by the verified checker (engine dec) and the letter-level syndrome;
    replay dicts are in the format of the main sweep."""
    from harness import decoder_zoo as zoo
    from harness.common import bitstr, rowsstr
    rng = ctx.rng
    specs = [(('rotatedplanar', (3, 3)), 'RotatedPlanarSMWPMDecoder', None), (('rotatedplanar', (4, 5)), 'RotatedPlanarSMWPMDecoder', None),
             (('rotatedtoric', (2, 4)), 'RotatedToricSMWPMDecoder', False), (('rotatedtoric', (4, 4)), 'RotatedToricSMWPMDecoder', True)]
    if not ctx.quick:
        specs += [(('rotatedplanar', (4, 4)), 'RotatedPlanarSMWPMDecoder', None), (('rotatedplanar', (5, 5)), 'RotatedPlanarSMWPMDecoder', None),
                  (('rotatedtoric', (4, 6)), 'RotatedToricSMWPMDecoder', False), (('rotatedtoric', (6, 4)), 'RotatedToricSMWPMDecoder', True)]
    per_cell = ctx.pick(2, 5)
    jobs, codes, mat_lines = [], {}, []
    for cs, dname, itp in specs:
        code = zoo.make_code(cs)
        n = code.n_k_d[0]
        codes[cs] = (code, n, 'G' + zoo.code_name(cs), zoo.stab_letter_codes(code.stabilizers))
        mat_lines.append('mat %s %s' % (codes[cs][2], rowsstr(code.stabilizers)))
        for eta in GRID_ETAS:
            for given in (True, False):
                arg = eta if given else None
                ds = (dname, (arg,)) if itp is None else (dname, (itp, arg))
                ems = ('DepolarizingErrorModel', ()) if given else ('BiasedDepolarizingErrorModel', (eta, 'Y'))
                errs, ctxs = [], []
                for p in GRID_PS:
                    for _ in range(per_cell):
                        e = np.zeros(2 * n, dtype=int)
                        for q in rng.sample(range(n), rng.randint(1, 3)):
                            pl = rng.randint(1, 3)
                            e[q], e[n + q] = pl & 1, pl >> 1
                        errs.append(bitstr(e))
                        ctxs.append((ems, p))
                jobs.append({'id': len(jobs), 'code': cs, 'decoder': ds, 'errors': errs, 'contexts': ctxs, 'eta': eta, 'given': given})
    results = zoo.run_pool(zoo.run_decode_job, jobs)
    req, look = [], {}
    for job, res in zip(jobs, results):
        code, n, cname, _ = codes[job['code']]
        for k, r in enumerate(res['results']):
            if r.get('recovery') is not None:
                look[(job['id'], k)] = len(req)
                req.append('rok %s %d %s %s' % (cname, n, r['recovery'] or '-', r['syndrome']))
    out = zoo.model_parallel(ctx, 'dec', req, prefix=mat_lines)
    for job, res in zip(jobs, results):
        cs, ds = job['code'], job['decoder']
        code, n, cname, scodes = codes[cs]
        dn = zoo.dec_name(ds)
        if res.get('ctor_error'):
            ctx.violation('constructor', 'decoder constructor raised on a positive finite eta: ' + res['ctor_error'], {'decoder': list(ds)})
            continue
        for k, r in enumerate(res['results']):
            es = job['errors'][k]
            ems, p = job['contexts'][k]
            e = np.array([int(c) for c in es])
            rep = {'check': 'c02_grid', 'code': [cs[0], list(cs[1])], 'decoder': [ds[0], list(ds[1])], 'error': zoo.bsf_to_letters(e),
                   'error_model': [ems[0], list(ems[1])], 'error_probability': p, 'syndrome': r['syndrome'], 'outcome': r['outcome'],
                   'app_context': False, 'eta': job['eta'], 'eta_given_as': 'decoder parameter' if job['given'] else 'context model bias'}
            ctx.count(('smwpm-grid', cname, job['eta'], job['given'], p, es), '1' in r['syndrome'], 'smwpm-grid/%s' % ds[0],
                      {'code': cname[1:], 'decoder': dn, 'context': '%s%r p=%r' % (ems[0], tuple(ems[1]), p), 'error': rep['error']}
                      if (not job['given'] and p < 1e-100 and len(ctx.samples) < 5) else None)
            ctx.hist['smwpm-grid/eta=%r' % job['eta']] += 1
            where = '%s on %s at eta=%r (%s), error_probability=%r' % (dn, cname[1:], job['eta'], rep['eta_given_as'], p)
            if r['outcome'].startswith('ERR'):
                ctx.violation('raised', where + ' raised: ' + r['outcome'], rep)
                continue
            if r['outcome'] == 'None' or r.get('recovery') is None:
                ctx.violation('none' if r['outcome'] == 'None' else 'shape', where + ' returned %s' % (r['outcome'] if r['outcome'] == 'None'
                              else 'an array of shape %s dtype %s' % (r.get('shape'), r.get('dtype'))), rep)
                continue
            rec = r['recovery']
            v = out[look[(job['id'], k)]]
            ok = len(rec) == 2 * n and set(rec) <= {'0', '1'} and \
                bitstr(zoo.letter_syndrome(scodes, np.array([int(c) for c in rec]))) == r['syndrome']
            ctx.cmp('recovery_ok vs independent letter-level', '%s %s %s' % (cname, rec, r['syndrome']), '1' if ok else '0', v)
            if v != '1' or not ok:
                ctx.violation('syndrome', where + ': recovery does not reproduce the syndrome (verified checker recovery_ok = %s)' % v,
                              dict(rep, recovery=rec))
    ctx.extra['smwpm_grid_decodes'] = sum(len(j['errors']) for j in jobs)
