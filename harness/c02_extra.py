"""Extra C02 sweeps added after seeded changes were missed: (1) PlanarYDecoder over every planar size (co-prime,
non-co-prime, multiples, 2*gcd) with all single-qubit and random multi-qubit Y errors; (2) symmetry-MWPM decoders at
extreme finite bias (eta given, or derived from the context model) on lattices with even and odd dimensions and
errors with X / Z components."""
import numpy as np


def letter_syndrome(S, e):
    n = len(e) // 2
    ex, ez = e[:n], e[n:]
    return ((S[:, :n] @ ez) + (S[:, n:] @ ex)) % 2


def run(ctx):
    from qecsim import paulitools as pt  # noqa
    from qecsim.models.planar import PlanarCode, PlanarYDecoder
    from qecsim.models.rotatedplanar import RotatedPlanarCode, RotatedPlanarSMWPMDecoder
    from qecsim.models.rotatedtoric import RotatedToricCode, RotatedToricSMWPMDecoder
    from qecsim.models.generic import BitPhaseFlipErrorModel, DepolarizingErrorModel, BiasedDepolarizingErrorModel
    rng = ctx.rng
    # ---- (1) Y decoder, all sizes -----------------------------------------------------------------
    em = BitPhaseFlipErrorModel()
    R, C = ctx.pick((9, 10), (12, 15))
    for r in range(2, R + 1):
        for c in range(2, C + 1):
            code = PlanarCode(r, c)
            S = code.stabilizers
            n = code.n_k_d[0]
            dec = PlanarYDecoder()
            errs = []
            for q in range(n):
                e = np.zeros(2 * n, dtype=int)
                e[q] = e[n + q] = 1
                errs.append(e)
            for _ in range(ctx.pick(6, 30)):
                e = np.zeros(2 * n, dtype=int)
                for q in rng.sample(range(n), rng.randint(2, min(n, 6))):
                    e[q] = e[n + q] = 1
                errs.append(e)
            for e in errs:
                s = letter_syndrome(S, e)
                key = ('y-sweep', r, c, e.tobytes())
                try:
                    rec = dec.decode(code, s, error_model=em, error_probability=rng.choice([0.05, 0.2, 0.45]))
                    rec = getattr(rec, 'recovery', rec)
                except Exception as ex:  # noqa
                    ctx.count(key, True, 'y-sweep')
                    ctx.violation('raises', 'PlanarYDecoder raised %s on a Y-only error' % type(ex).__name__,
                                  {'code': repr(code), 'error': pt.bsf_to_pauli(e)})
                    continue
                ctx.count(key, r != c, 'y-sweep', {'code': repr(code), 'error_qubits': np.flatnonzero(e[:n]).tolist()}
                          if len(ctx.samples) < 7 else None)
                rec = None if rec is None else np.array(rec)
                if rec is None or rec.shape != (2 * n,) or not np.array_equal(rec % 2, rec) or \
                        not np.array_equal(letter_syndrome(S, rec), s):
                    ctx.violation('syndrome', 'PlanarYDecoder recovery does not reproduce the syndrome of a Y-only error',
                                  {'code': repr(code), 'error': pt.bsf_to_pauli(e),
                                   'recovery': None if rec is None else pt.bsf_to_pauli(rec % 2)})
    # ---- (2) symmetry decoders at extreme finite bias ----------------------------------------------
    etas = [1e-300, 1e-12, 1e-6, 1e6, 1e12, 9e15, 1e16, 1e17, 1e100, 1e300]
    codes = [(RotatedPlanarCode(4, 5), lambda eta: RotatedPlanarSMWPMDecoder(eta)),
             (RotatedPlanarCode(4, 4), lambda eta: RotatedPlanarSMWPMDecoder(eta)),
             (RotatedPlanarCode(3, 5), lambda eta: RotatedPlanarSMWPMDecoder(eta)),
             (RotatedToricCode(4, 4), lambda eta: RotatedToricSMWPMDecoder(rng.choice([False, True]), eta)),
             (RotatedToricCode(2, 4), lambda eta: RotatedToricSMWPMDecoder(False, eta))]
    for eta in etas:
        for code, mk in codes:
            S = code.stabilizers
            n = code.n_k_d[0]
            for given in (True, False):
                dec = mk(eta if given else None)
                cem = DepolarizingErrorModel() if given else BiasedDepolarizingErrorModel(eta, 'Y')
                for _ in range(ctx.pick(10, 60)):
                    e = np.zeros(2 * n, dtype=int)
                    for q in rng.sample(range(n), rng.randint(1, 3)):
                        pl = rng.randint(1, 3)
                        e[q], e[n + q] = pl & 1, pl >> 1
                    s = letter_syndrome(S, e)
                    key = ('smwpm-bias', repr(code), eta, given, e.tobytes())
                    rep = {'code': repr(code), 'decoder': repr(dec), 'context_error_model': repr(cem), 'error': pt.bsf_to_pauli(e)}
                    ctx.count(key, True, 'smwpm-extreme-bias', rep if len(ctx.samples) < 8 else None)
                    try:
                        rec = dec.decode(code, s, error_model=cem, error_probability=rng.choice([0.01, 0.1, 0.4]))
                        rec = getattr(rec, 'recovery', rec)
                    except Exception as ex:  # noqa
                        ctx.violation('raises', 'symmetry decoder raised %s: %s at finite bias' % (type(ex).__name__, ex), rep)
                        continue
                    rec = None if rec is None else np.array(rec)
                    if rec is None or rec.shape != (2 * n,) or not np.array_equal(letter_syndrome(S, rec % 2), s):
                        ctx.violation('syndrome', 'symmetry decoder recovery does not reproduce the syndrome at finite bias', rep)
