"""C14 helpers: (1) structured worst-case errors — every self-avoiding plaquette-lattice walk ("chain") with at most t
steps from every start plaquette (including the virtual boundary plaquettes), straight / L-shaped / any shape, own
geometry (not the implementation's path code); (2) a worker that decodes an operation HISTORY with ONE decoder object
(several codes and sizes, in a given order, the caller scribbling on every returned array and on the syndrome it passed
in) and optionally records the graph handed to qecsim.graphtools.mwpm; (3) canonical forms of the recorded graph and of
the model graph (Decoders/MwpmGraph.v, engine c14g)."""
import functools
import signal

import numpy as np

from harness import decoder_zoo as zoo

DIRS = [(0, 1), (0, -1), (1, 0), (-1, 0)]


# ---------------------------------------------------------------------------------------------
# chains
# ---------------------------------------------------------------------------------------------
def planar_cross(R, C, p, d):
    """plaquette p = (r, c), r + c odd (the virtual plaquettes one step outside the lattice included), unit step d:
    (next plaquette, flat qubit index of the site crossed, or None when that site is outside the lattice)"""
    r, c = p
    m = (r + d[0], c + d[1])
    q = (r + 2 * d[0], c + 2 * d[1])
    if not (0 <= m[0] <= 2 * R - 2 and 0 <= m[1] <= 2 * C - 2):
        return q, None
    return q, (m[0] // 2) * (C - m[1] % 2) + m[1] // 2 + (m[0] % 2) * R * C


def toric_cross(R, C, p, d):
    """plaquette p = (lattice, r, c) on the periodic lattice: the site shared with the neighbouring plaquette"""
    l, r, c = p
    q = (l, (r + d[0]) % R, (c + d[1]) % C)
    if d == (1, 0):
        s = (l, r + 1, c)
    elif d == (-1, 0):
        s = (l, r, c)
    elif d == (0, 1):
        s = (1 - l, r + l, c - l + 1)
    else:
        s = (1 - l, r + l, c - l)
    return q, (s[0] * R + s[1] % R) * C + s[2] % C


@functools.lru_cache(maxsize=None)
def chains(fam, R, C, t, max_turns):
    """{frozenset of qubits: (turns, length)} for the self-avoiding walks with 1..t steps and <= max_turns turns"""
    if fam == 'planar':
        starts = [(r, c) for r in range(-1, 2 * R) for c in range(-1, 2 * C) if (r + c) % 2 == 1]
        cross = planar_cross
    else:
        starts = [(l, r, c) for l in (0, 1) for r in range(R) for c in range(C)]
        cross = toric_cross
    out = {}

    def ext(p, visited, qs, last, turns):
        if qs:
            key = frozenset(qs)
            if len(key) == len(qs):
                out.setdefault(key, (turns, len(qs)))
        if len(qs) == t:
            return
        for d in DIRS:
            if last is not None and d == (-last[0], -last[1]):
                continue
            tn = turns + (1 if (last is not None and d != last) else 0)
            if tn > max_turns:
                continue
            q, s = cross(R, C, p, d)
            if s is None or q in visited:
                continue
            ext(q, visited | {q}, qs + [s], d, tn)
    for p in starts:
        ext(p, {p}, [], None, 0)
    return out


def chain_errors(fam, sz, t, max_turns, min_len=1):
    """both Pauli types on every chain (one of them is the string with two end defects, the other a ladder of defects),
    as bit strings"""
    R, C = sz
    n = 2 * R * C if fam == 'toric' else R * C + (R - 1) * (C - 1)
    out = []
    for qs, (turns, ln) in sorted(chains(fam, R, C, t, max_turns).items(), key=lambda kv: sorted(kv[0])):
        if ln < min_len:
            continue
        for off in (0, n):
            e = ['0'] * (2 * n)
            for q in qs:
                e[off + q] = '1'
            out.append(''.join(e))
    return out


def multi_chain_errors(rng, fam, sz, t, count):
    """`count` errors made of 2 or 3 separate straight / L-shaped chains of ONE Pauli type with total weight <= t: four or
    six defects on one lattice, the smallest inputs on which the edge weights decide the matching"""
    R, C = sz
    n = 2 * R * C if fam == 'toric' else R * C + (R - 1) * (C - 1)
    if t < 2:
        return []
    by_len = {}
    for qs, (turns, ln) in sorted(chains(fam, R, C, t, 1).items(), key=lambda kv: sorted(kv[0])):
        by_len.setdefault(ln, []).append(sorted(qs))
    out = []
    for _ in range(count):
        k = rng.choice((2, 2, 3)) if t >= 3 else 2
        lens = [1] * k
        for _ in range(rng.randint(0, t - k)):
            lens[rng.randrange(k)] += 1
        off = rng.choice((0, n))
        e = ['0'] * (2 * n)
        for ln in lens:
            for q in rng.choice(by_len[ln]):
                e[off + q] = '1'
        out.append(''.join(e))
    return out


def spread_errors(rng, fam, sz, t, count):
    """`count` planar errors of ONE Pauli type made of t isolated single-qubit errors: one in the band next to a boundary,
    one in the band next to the OPPOSITE boundary, the rest anywhere - several boundary chains plus interior chains at
    once, the inputs on which the connectivity among the virtual boundary nodes decides the matching"""
    R, C = sz
    if fam != 'planar' or t < 2:
        return []
    n = R * C + (R - 1) * (C - 1)
    idx = {}
    for m0 in range(2 * R - 1):
        for m1 in range(2 * C - 1):
            if (m0 + m1) % 2 == 0:
                idx[(m0, m1)] = (m0 // 2) * (C - m1 % 2) + m1 // 2 + (m0 % 2) * R * C
    allq = sorted(idx)
    bands = {'N': [q for q in allq if q[0] <= 1], 'S': [q for q in allq if q[0] >= 2 * R - 3],
             'W': [q for q in allq if q[1] <= 1], 'E': [q for q in allq if q[1] >= 2 * C - 3]}
    out = []
    for _ in range(count):
        a, b = rng.choice((('N', 'S'), ('W', 'E')))
        qs = {rng.choice(bands[a]), rng.choice(bands[b])}
        while len(qs) < t:
            qs.add(rng.choice(allq))
        off = rng.choice((0, n))
        e = ['0'] * (2 * n)
        for q in qs:
            e[off + idx[q]] = '1'
        out.append(''.join(e))
    return out


# ---------------------------------------------------------------------------------------------
# canonical graphs
# ---------------------------------------------------------------------------------------------
def _node(x):
    return tuple(int(v) for v in x)


def _w(w):
    if isinstance(w, (int, np.integer)) and not isinstance(w, bool):
        return str(int(w))
    return 'w' + repr(w)


def canon_graph(graph):
    """recorded {(a, b): weight} -> sorted undirected 'a>b=w' entries"""
    ent = []
    for (a, b), w in graph.items():
        a, b = _node(a), _node(b)
        if b < a:
            a, b = b, a
        ent.append('%s>%s=%s' % (':'.join(map(str, a)), ':'.join(map(str, b)), _w(w)))
    return ';'.join(sorted(ent)) or '-'


def canon_model_graph(s):
    """engine reply 'a>b=w;...' (add_edge order; a later edge on the same pair replaces the earlier one, as
    SimpleGraph.add_edge does) -> the same canonical form"""
    if s == '-':
        return '-'
    d = {}
    for ent in s.split(';'):
        ab, w = ent.split('=')
        a, b = ab.split('>')
        a, b = tuple(int(v) for v in a.split(':')), tuple(int(v) for v in b.split(':'))
        if b < a:
            a, b = b, a
        d[(a, b)] = w
    return ';'.join(sorted('%s>%s=%s' % (':'.join(map(str, a)), ':'.join(map(str, b)), w) for (a, b), w in d.items()))


# ---------------------------------------------------------------------------------------------
# worker: one decoder object, a sequence of (code, error)
# ---------------------------------------------------------------------------------------------
def run_job(job):
    """job = dict(id, decoder=spec, items=[(code_spec, error bit string)], graph_every=k (0: never), scribble=bool,
    no_alarm=bool (no per-decode timeout: for use outside the worker processes)).
    ONE decoder object decodes the items in order.  Every result is copied to a digit string first; then, when
    `scribble` is set, the caller's arrays (the returned recovery and the syndrome that was passed in) are overwritten,
    as a caller owning them may do.  -> dict(id, results=[dict(syndrome, outcome, recovery, graphs)])"""
    from qecsim import paulitools as pt
    import qecsim.graphtools as gt
    from qecsim.model import DecodeResult
    res = []
    try:
        decoder = zoo.make_decoder(job['decoder'])
    except Exception as e:  # noqa
        return {'id': job['id'], 'ctor_error': '%s: %s' % (type(e).__name__, e), 'results': []}
    ge = job.get('graph_every', 0)
    calls = []
    orig = gt.mwpm

    def rec(graph):
        calls.append(dict(graph))
        return orig(graph)
    em = zoo.make_error_model(('DepolarizingErrorModel', ()))
    gt.mwpm = rec
    try:
        for k, (cs, es) in enumerate(job['items']):
            code = zoo._code(cs)
            e = np.array([int(c) for c in es], dtype=int)
            s = pt.bsp(e, code.stabilizers.T)
            out = {'syndrome': ''.join(map(str, s.tolist()))}
            del calls[:]
            try:
                arg = s.copy()
                if not job.get('no_alarm'):
                    signal.alarm(zoo.DECODE_TIMEOUT)
                try:
                    r = decoder.decode(code, arg, error_model=em, error_probability=0.1)
                finally:
                    if not job.get('no_alarm'):
                        signal.alarm(0)
                if r is None:
                    out['outcome'] = 'None'
                else:
                    if isinstance(r, DecodeResult):
                        r = r.recovery
                    a = np.asarray(r)
                    out['outcome'] = 'ok'
                    out['recovery'] = zoo.digits(a) if a.ndim == 1 and a.dtype != object else None
                    if job.get('scribble'):
                        try:
                            a[...] = 1 - a
                            arg[...] = 1 - arg
                        except (ValueError, TypeError):
                            pass
                if ge and k % ge == 0:
                    out['graphs'] = [canon_graph(g) for g in calls]
            except zoo._Timeout:
                out['outcome'] = 'ERR Timeout after %ds' % zoo.DECODE_TIMEOUT
            except MemoryError:
                out['outcome'] = 'ERR MemoryError'
            except Exception as ex:  # noqa
                out['outcome'] = 'ERR %s: %s' % (type(ex).__name__, str(ex)[:160])
            res.append(out)
    finally:
        gt.mwpm = orig
    return {'id': job['id'], 'results': res}


# ---------------------------------------------------------------------------------------------
# histories
# ---------------------------------------------------------------------------------------------
def orders(rng, per_code):
    """per_code = [(code_spec, [error strings])] sorted by size: the operation histories of one decoder object"""
    asc = [(cs, e) for cs, es in per_code for e in es]
    desc = [(cs, e) for cs, es in reversed(per_code) for e in es]
    inter = []
    longest = max((len(es) for _, es in per_code), default=0)
    for i in range(longest):
        for cs, es in per_code:
            if i < len(es):
                inter.append((cs, es[i]))
    # every decode repeated at once (a result cached per syndrome and handed out again would be the scribbled one)
    twice = [it for cs, es in per_code for e in es[:max(1, len(es) // 3)] for it in ((cs, e), (cs, e))]
    shuf = list(asc)
    rng.shuffle(shuf)
    # ping-pong between the smallest and each larger code
    ping = []
    if len(per_code) >= 2:
        cs0, es0 = per_code[0]
        for cs, es in per_code[1:]:
            m = max(1, len(es) // 4)
            ping += [(cs0, e) for e in es0[:m]] + [(cs, e) for e in es[:m]]
    return [('ascending', asc), ('descending', desc), ('interleaved', inter), ('shuffled', shuf), ('each-twice', twice),
            ('ping-pong', ping)]
