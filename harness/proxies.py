"""Recording proxies for the app-layer checks (C01, C04, C06, ...): a user-defined code built from
arbitrary matrices, a scripted error model, a scripted rng and a scripted decoder."""
import numpy as np

from qecsim.model import StabilizerCode, ErrorModel, Decoder, DecoderFTP


class UserCode(StabilizerCode):
    def __init__(self, S, X, Z, n_k_d=None, label='user'):
        self._S, self._X, self._Z = np.array(S, dtype=int), np.array(X, dtype=int), np.array(Z, dtype=int)
        self._nkd = n_k_d if n_k_d is not None else (self._S.shape[1] // 2, len(self._X), None)
        self._label = label

    @property
    def stabilizers(self):
        return self._S

    @property
    def logical_xs(self):
        return self._X

    @property
    def logical_zs(self):
        return self._Z

    @property
    def n_k_d(self):
        return self._nkd

    @property
    def label(self):
        return self._label

    def __repr__(self):
        return 'UserCode(%r)' % (self._label,)


class ScriptedErrorModel(ErrorModel):
    """generate() returns the prepared errors in order and records its arguments"""

    def __init__(self, errors, label='scripted-errors'):
        self.errors = [np.array(e, dtype=int) for e in errors]
        self.calls = []
        self._label = label

    def generate(self, code, probability, rng=None):
        i = len(self.calls)
        self.calls.append((code, probability, rng))
        return self.errors[i % len(self.errors)].copy()

    def probability_distribution(self, probability):
        return (1 - probability, probability / 3, probability / 3, probability / 3)

    @property
    def label(self):
        return self._label

    def __repr__(self):
        return 'ScriptedErrorModel()'


class ScriptedRng:
    """choice() returns the prepared flip rows in order and records (a, size, p)"""

    def __init__(self, rows):
        self.rows = [np.array(r, dtype=int) for r in rows]
        self.calls = []

    def choice(self, a, size=None, p=None, **kw):
        i = len(self.calls)
        self.calls.append((tuple(a), size, tuple(p) if p is not None else None))
        return self.rows[i % len(self.rows)].copy()

    def random(self, *a, **k):
        raise AssertionError('scripted rng: unexpected random()')


class ScriptedDecoder(Decoder, DecoderFTP):
    """returns prepared answers in order; records the syndrome and context it was given"""

    def __init__(self, answers, label='scripted-decoder'):
        self.answers = answers
        self.calls = []
        self._label = label

    def _next(self, kind, code, time_steps, syndrome, kwargs):
        i = len(self.calls)
        self.calls.append({'kind': kind, 'code': code, 'time_steps': time_steps,
                           'syndrome': np.array(syndrome).copy(), 'kwargs': kwargs})
        a = self.answers[i % len(self.answers)]
        return a() if callable(a) else a

    def decode(self, code, syndrome, **kwargs):
        return self._next('decode', code, None, syndrome, kwargs)

    def decode_ftp(self, code, time_steps, syndrome, **kwargs):
        return self._next('decode_ftp', code, time_steps, syndrome, kwargs)

    @property
    def label(self):
        return self._label

    def __repr__(self):
        return 'ScriptedDecoder()'
