"""C02 — every decoder's recovery reproduces the syndrome.
Every supported code/decoder pairing (harness/decoder_zoo.py) is run through the real `decode`; the verified
checker `recovery_ok` (Decoders/Checker.v, extracted) and an independent letter-level computation are applied
to what came back: did not raise, not None, 1-d, binary, length 2n, syndrome reproduced."""
import json
import shutil
import tempfile

import numpy as np

from harness import decoder_zoo as zoo
from harness.common import bitstr, rowsstr, coq_bits, coq_list, Ctx

KNOWN_F5 = 'cmwpm-max-iterations-0'


def context_pool(rng, code, dec_spec, tmpdir):
    """[(em_spec, fixed_p or None, domain)] with domain in any / Y / reject for this decoder"""
    specs = zoo.error_model_specs(rng)
    pool = []
    n = code.n_k_d[0]
    name = dec_spec[0]
    dec = zoo.make_decoder(dec_spec) if 'SMWPM' in name else None
    for s in specs:
        dom = 'any'
        if name == 'PlanarYDecoder':
            dom = 'Y'
        elif dec is not None:
            try:
                b = dec._bias(zoo.make_error_model(s))
                dom = 'Y' if b is None else 'any'
            except ValueError:
                dom = 'reject'   # documented: bias of the context model is not positive finite / None
        pool.append((s, None, dom))
    # a file error model as context (its header fixes the probability)
    p = rng.choice([0.1, 0.25])
    fs = zoo.file_error_model_spec(tmpdir, p, (1 - p, p / 3, p / 3, p / 3), n)
    dom = 'Y' if name == 'PlanarYDecoder' else 'any'
    if dec is not None:
        try:
            dom = 'Y' if dec._bias(zoo.make_error_model(fs)) is None else 'any'
        except ValueError:
            dom = 'reject'   # probability_distribution(1) does not match the file header
    pool.append((fs, p, dom))
    return pool


def run(ctx):
    from qecsim import paulitools as pt
    import logging
    logging.getLogger('qecsim').setLevel(logging.CRITICAL)
    rng = ctx.rng
    quick = ctx.quick
    cap = ctx.pick(9, 12)
    ctx.rule = ('every code/decoder pairing of the library; sizes square, non-square, minimal, odd/even; ALL syndromes '
                '(one error per syndrome) when the syndrome space has <= 2^%d elements, errors of every weight 0..n '
                'beyond; decoder parameters drawn from their whole domain; context error model of every class with p in '
                '(0,1) incl. 1e-9 and 1-1e-9; Y-only errors for the Y decoder and for SMWPM at infinite bias. '
                'nontrivial = non-zero syndrome on a non-square or minimal lattice, or a non-default parameter' % cap)
    ctx.props_obligations()
    tmpdir = tempfile.mkdtemp(prefix='verif_c02_')
    try:
        _run(ctx, pt, rng, quick, cap, tmpdir)
    finally:
        shutil.rmtree(tmpdir, ignore_errors=True)


def ds_name(ds):
    return zoo.dec_name(ds)


def special(cs):
    """non-square or minimal lattice (twins of such count as well)"""
    if cs[0] == 'twin':
        return special(cs[1][0])
    a = cs[1]
    return len(a) == 2 and (a[0] != a[1] or a == tuple(zoo.sizes(cs[0], True)[0]))


def _run(ctx, pt, rng, quick, cap, tmpdir):
    jobs = []
    meta = {}      # job id -> (family, code_spec, dec_spec, errors, contexts, mode)
    codes = {}
    mat_lines = []
    per_weight = ctx.pick(2, 3)
    nparam = ctx.pick(3, 5)
    for family, cs in zoo.family_codes(quick):
        code = zoo.make_code(cs)
        n = code.n_k_d[0]
        cname = zoo.code_name(cs)
        codes[cs] = (code, n, cname, zoo.stab_letter_codes(code.stabilizers))
        mat_lines.append('mat %s %s' % (cname, rowsstr(code.stabilizers)))
        bases = {}
        for ds in zoo.decoder_specs(rng, family if family != 'basic' else 'basic', cs, n, nparam):
            pool = context_pool(rng, code, ds, tmpdir)
            doms = ['Y'] if zoo.y_only(ds) else (['any', 'Y'] if any(d == 'Y' for _, _, d in pool) else ['any'])
            for dom in doms:
                letters = 'Y' if dom == 'Y' else 'XZ'
                if letters not in bases:
                    bases[letters] = zoo.syndrome_space(code, letters)
                basis = bases[letters]
                if len(basis) <= cap:
                    errs = zoo.all_syndrome_errors(basis)
                    mode = 'all-syndromes'
                    if dom == 'Y' and not zoo.y_only(ds) and len(errs) > 64:
                        errs = rng.sample(errs, 64)      # SMWPM infinite-bias sub-sweep
                        mode = 'sampled-syndromes'
                else:
                    errs = zoo.weighted_errors(rng, n, per_weight, 'Y' if dom == 'Y' else 'XYZ')
                    mode = 'every-weight'
                ok_ctx = [(s, p) for s, p, d in pool if d == dom or (dom == 'Y' and d == 'any')]
                if dom == 'Y' and not zoo.y_only(ds):
                    ok_ctx = [(s, p) for s, p, d in pool if d == 'Y']   # the infinite-bias contexts themselves
                if not ok_ctx:
                    continue
                ctxs = []
                for _ in errs:
                    s, p = rng.choice(ok_ctx)
                    ctxs.append((s, p if p is not None else rng.choice(zoo.PROBS)))
                es = [bitstr(e) for e in errs]
                for ch_e, ch_c in zip(zoo.chunks(es, 256), zoo.chunks(ctxs, 256)):
                    jid = len(jobs)
                    jobs.append({'id': jid, 'code': cs, 'decoder': ds, 'errors': ch_e, 'contexts': ch_c,
                                 'app_context': jid % 3 == 0})
                    meta[jid] = (family, cs, ds, mode, dom)
            # documented rejections (SMWPM, eta=None, context model without a positive finite / infinite bias)
            rej = [(s, p) for s, p, d in pool if d == 'reject']
            if rej:
                jid = len(jobs)
                es = [bitstr(e) for e in zoo.weighted_errors(rng, n, 1)[:3]]
                jobs.append({'id': jid, 'code': cs, 'decoder': ds, 'errors': es,
                             'contexts': [(rej[i % len(rej)][0], 0.1) for i in range(len(es))]})
                meta[jid] = (family, cs, ds, 'documented-reject', 'reject')
    # ---- known finding F5, probed individually ------------------------------------------------
    for cs in (('planar', (3, 3)), ('planar', (2, 4))):
        code = zoo.make_code(cs)
        if cs not in codes:
            codes[cs] = (code, code.n_k_d[0], zoo.code_name(cs), zoo.stab_letter_codes(code.stabilizers))
            mat_lines.append('mat %s %s' % (zoo.code_name(cs), rowsstr(code.stabilizers)))
        es = [bitstr(e) for e in zoo.weighted_errors(rng, code.n_k_d[0], 1)[1:4]]
        jid = len(jobs)
        jobs.append({'id': jid, 'code': cs, 'decoder': ('PlanarCMWPMDecoder', (3, 0, 't', 4)), 'errors': es,
                     'contexts': [(('DepolarizingErrorModel', ()), 0.1)] * len(es)})
        meta[jid] = ('planar', cs, ('PlanarCMWPMDecoder', (3, 0, 't', 4)), 'known-F5', 'any')

    # ---- operation histories: ONE decoder object per class and parameter set over all small codes (c02_reuse) ----
    from harness import c02_reuse as cr
    streams, _ = cr.build_streams(ctx, tmpdir, context_pool)
    sjobs = [{'id': 's%d' % i, 'decoder': st['decoder'], 'items': st['items'], 'scribble': True} for i, st in enumerate(streams)]
    # the streams first (each is sequential by nature), then the fresh-object jobs, in one pool
    import time
    t0 = time.time()
    allres = zoo.run_pool(cr.run_any, sjobs + jobs)
    ctx.extra.setdefault('phase_seconds', {})['main+reuse pool'] = round(time.time() - t0, 1)
    sres, results = allres[:len(sjobs)], list(allres[len(sjobs):])
    # a stream's results regrouped per (code, mode, domain), stream order kept, and evaluated like the fresh-object jobs
    for h, (st, res) in enumerate(zip(streams, sres)):
        ds = st['decoder']
        if res.get('ctor_error') or len(res['results']) != len(st['items']):
            ctx.violation('constructor', '%s: decoder constructor raised on parameters of its documented domain: %s'
                          % (zoo.dec_name(ds), res.get('ctor_error')), {'decoder': list(ds)})
            continue
        groups = {}
        for pos, ((cs, es, c, fresh), tag, r) in enumerate(zip(st['items'], st['tags'], res['results'])):
            groups.setdefault((cs,) + tag, []).append((pos, es, c, r))
        for (cs, mode, dom), lst in groups.items():
            if cs not in codes:
                code = cr.make_code(cs)
                codes[cs] = (code, code.n_k_d[0], cr.code_name(cs), zoo.stab_letter_codes(code.stabilizers))
                mat_lines.append('mat %s %s' % (cr.code_name(cs), rowsstr(code.stabilizers)))
            jid = len(jobs)
            jobs.append({'id': jid, 'code': cs, 'decoder': ds, 'errors': [es for _, es, _, _ in lst],
                         'contexts': [c for _, _, c, _ in lst], 'hist': (h, st['order'], [pos for pos, _, _, _ in lst])})
            results.append({'id': jid, 'results': [r for _, _, _, r in lst]})
            meta[jid] = (st['family'], cs, ds, mode, dom)
    ctx.rule += ('; plus (c02_reuse) OPERATION HISTORIES: one decoder object per class and parameter set (%d streams) decodes all '
                 'small codes of its family in one stream - codes with equal n_k_d adjacent (Steane / Color666(3) / qubit-permuted '
                 'twins with equal label, r x c / c x r of every lattice family, Toric 2x2 / RotatedToric 4x2), every syndrome of '
                 'the codes with <= 2^%d syndromes and spread-weight errors plus the previous code\'s syndrome bit patterns on '
                 'larger ones, context model and probability changing per item, documented rejections in between, orders '
                 'blocks-there-and-back / interleaved / shuffled with immediate repeats, the caller overwriting every returned '
                 'recovery; NaiveDecoder answers (fresh objects and streams) compared exactly with naive_decode'
                 % (len(streams), ctx.pick(7, 8)))
    ctx.extra['reuse_streams'] = len(streams)
    ctx.extra['reuse_stream_seconds'] = {'sum': round(sum(r.get('seconds', 0) for r in sres), 1),
                                         'max': max([r.get('seconds', 0) for r in sres] or [0])}
    ctx.extra['reuse_decodes'] = sum(len(st['items']) for st in streams)

    # ---- verified checker + independent evaluation ------------------------------------------------
    req = []
    idx = []
    nidx = {}
    for job, res in zip(jobs, results):
        family, cs, ds, mode, dom = meta[job['id']]
        code, n, cname, _ = codes[cs]
        for k, r in enumerate(res['results']):
            if r.get('recovery') is not None:
                idx.append((job['id'], k, len(req)))
                req.append('rok %s %d %s %s' % (cname, n, r['recovery'] or '-', r['syndrome']))
            if ds[0] == 'NaiveDecoder' and n <= 10:
                # the whole decoder is modelled (Decoders/Naive.v naive_decode): the exact answer, None, or the guard's ValueError
                mq = ds[1][0] if ds[1] else 10
                nidx[(job['id'], k)] = len(req)
                req.append('naive %s %d %s %s' % (cname, n, '_' if mq is None else str(mq), r['syndrome']))
    out = zoo.model_parallel(ctx, 'dec', req, prefix=mat_lines)
    verdict = {(j, k): out[i] for j, k, i in idx}

    shrunk = [0]

    def viol(job, k, key, what, rep):
        """ctx.violation; an item of a stream gets its history: a short list of earlier decodes by the same object"""
        hist = job.get('hist')
        if hist is not None and len(ctx.violations) < 200:     # (beyond 200 nothing is recorded any more)
            h, order, poss = hist
            st = streams[h]
            pos = poss[k]
            reject = meta[job['id']][3] == 'documented-reject'
            shrunk[0] += 1
            prior = cr.shrink_history(st['decoder'], st['items'], pos, reject, budget=40 if shrunk[0] <= 6 else 0,
                                      full_check=shrunk[0] <= 6)
            note = 'ONE decoder object decoded the `prior` items (other codes, sizes, contexts) in order, then this one'
            if prior is None:
                prior = list(st['items'][:pos])
                note += '; history not shrunk (the whole stream up to the item is recorded)'
            elif not prior:
                note = 'fails on a fresh decoder object too (found as an item of a stream of one decoder object)'
            rep = dict(rep, check=cr.CHECK, prior=cr.items_to_json(prior), fresh_code_object=bool(st['items'][pos][3]),
                       history={'stream': h, 'order': order, 'index': pos, 'note': note})
            what += ' [item %d of the %s stream of ONE %s object reused across codes; %d earlier decode(s) suffice]' % (
                pos, order, ds_name(st['decoder']), len(prior))
        ctx.violation(key, what, rep)

    kern = []
    defaults = {'PlanarCMWPMDecoder': ((), (3, 4, 't', 4)), 'NaiveDecoder': ((10,),)}
    for job, res in zip(jobs, results):
        family, cs, ds, mode, dom = meta[job['id']]
        code, n, cname, scodes = codes[cs]
        dn = zoo.dec_name(ds)
        if res.get('ctor_error'):
            ctx.violation('constructor', 'decoder constructor raised on parameters of its documented domain: '
                          + res['ctor_error'], {'decoder': list(ds)})
            continue
        nondefault = len(ds[1]) > 0 and ds[1] not in defaults.get(ds[0], ())
        special_lattice = special(cs)
        hist = job.get('hist')
        for k, r in enumerate(res['results']):
            es = job['errors'][k]
            ems, p = job['contexts'][k]
            e = np.array([int(c) for c in es])
            rep = {'code': cr.spec_to_json(cs), 'decoder': [ds[0], list(ds[1])], 'error': zoo.bsf_to_letters(e),
                   'error_model': [ems[0], [list(x) if isinstance(x, tuple) else x for x in ems[1]]],
                   'error_probability': p, 'syndrome': r['syndrome'], 'outcome': r['outcome'],
                   'app_context': bool(job.get('app_context')) if hist is None else hist[2][k] % 3 == 0}
            kind = '%s%s/%s/%s' % ('' if hist is None else 'reuse:', ds[0], cs[0], mode)
            nonzero = '1' in r['syndrome']
            if hist is not None:
                ctx.hist['reuse-order/' + hist[1]] += 1
            if (job['id'], k) in nidx:
                # NaiveDecoder is modelled as a whole: its answer must be the model's, whatever the object decoded before
                mo = out[nidx[(job['id'], k)]]
                io = ('ERR ValueError' if r['outcome'].startswith('ERR ValueError') else '_' if r['outcome'] == 'None'
                      else r['recovery'] if r['outcome'] == 'ok' and r.get('recovery') is not None else r['outcome'])
                ctx.cmp('NaiveDecoder.decode vs naive_decode (Decoders/Naive.v)', '%s %s %s' % (cname, dn, r['syndrome']), io, mo)
            if mode == 'documented-reject':
                ctx.count(None, False, kind)
                if not (r['outcome'].startswith('ERR ValueError') or r['outcome'] == 'ok'):
                    viol(job, k, 'raised', 'out-of-domain call (context model without usable bias / code above max_qubits): '
                         'expected the documented ValueError, got ' + r['outcome'], rep)
                continue
            key = (cname, dn, es) if hist is None else (cname, dn, es, 'reuse', hist[1])
            ctx.count(key, nonzero and (special_lattice or nondefault), kind,
                      {'code': cname, 'decoder': dn, 'error': rep['error'], 'context': '%s p=%r' % (ems[0], p),
                       'recovery': r.get('recovery')} if (n <= 13 and nonzero and nondefault) else None)
            ctx.hist['context/' + ems[0]] += 1
            ctx.hist['p=%r' % p] += 1
            vkey = KNOWN_F5 if mode == 'known-F5' else None
            if r['outcome'].startswith('ERR'):
                viol(job, k, vkey or 'raised', '%s on %s raised: %s' % (dn, cname, r['outcome']), rep)
                continue
            if r['outcome'] == 'None':
                viol(job, k, vkey or 'none', '%s on %s returned None' % (dn, cname), rep)
                continue
            if r.get('recovery') is None:
                viol(job, k, vkey or 'shape', '%s on %s returned an array of shape %s dtype %s (want 1-d integer)'
                     % (dn, cname, r.get('shape'), r.get('dtype')), rep)
                continue
            rec = r['recovery']
            v = verdict[(job['id'], k)]
            # independent letter-level evaluation
            ok_len = len(rec) == 2 * n
            ok_bin = set(rec) <= {'0', '1'}
            ok_syn = False
            if ok_len and ok_bin:
                ra = np.array([int(c) for c in rec])
                ok_syn = ''.join(map(str, zoo.letter_syndrome(scodes, ra).tolist())) == r['syndrome']
                # and the syndrome handed to the decoder was the letter-level syndrome of the error
                if ''.join(map(str, zoo.letter_syndrome(scodes, e).tolist())) != r['syndrome']:
                    ctx.cmp('paulitools.bsp syndrome vs letter-level', rep['error'], r['syndrome'], 'letter-level differs')
            indep = '1' if (ok_len and ok_bin and ok_syn) else '0'
            ctx.cmp('recovery_ok vs independent letter-level', '%s %s %s' % (cname, rec, r['syndrome']), indep, v)
            rep['recovery'] = rec
            if v != '1' or indep != '1':
                what = ('wrong length %d (want %d)' % (len(rec), 2 * n) if not ok_len else
                        'non-binary entries' if not ok_bin else 'recovery does not reproduce the syndrome')
                viol(job, k, vkey or 'syndrome', '%s on %s: %s (verified checker recovery_ok = %s)' % (dn, cname, what, v), rep)
            if r.get('dtype', '').startswith(('float', 'bool', 'complex', 'object')):
                viol(job, k, vkey or 'shape', '%s on %s returned dtype %s' % (dn, cname, r['dtype']), rep)
            if len(kern) < 60 and n <= 13 and nonzero and v == '1' and (job['id'] + k) % 7 == 0:
                kern.append((cs, rec, r['syndrome']))
    ctx.extra['decodes'] = ctx.evals
    ctx.extra['jobs'] = len(jobs)
    ctx.notes.append('Blossom V backend absent (blossom5.available() is False): all matching decoders ran on NetworkX')
    ctx.notes.append('SMWPM decoders with eta=None and a context model of zero Y-bias raise the documented ValueError '
                     '(outside the stated noise domain): counted as documented-reject, not as violations')
    ctx.trusted.append('decoders run in forked worker processes with RLIMIT_AS 12 GB; chi=None only where exact '
                       'contraction was measured cheap (never Color666 size >= 7)')

    # ---- in-kernel shard ---------------------------------------------------------------------------
    items = []
    for cs, rec, syn in kern:
        code, n, cname, _ = codes[cs]
        st = coq_list([coq_bits(row.tolist()) for row in code.stabilizers])
        items.append('(recovery_ok %s %d %s %s)' % (st, n, coq_list(['%s%%Z' % c for c in rec]),
                                                    coq_bits([c == '1' for c in syn])))
    text = ('From Coq Require Import List Bool Arith NArith ZArith.\nFrom QV Require Import Core.Bits Core.Pauli Core.Symp '
            'Decoders.Checker.\nImport ListNotations.\n'
            'Definition checks : list bool :=\n [' + ';\n  '.join(items) + '].\n'
            'Example corr : forallb (fun b => b) checks = true.\nProof. vm_compute. reflexivity. Qed.\n')
    ctx.kernel_cases('sample', text)
    ctx.extra['kernel_cases'] = len(items)



_run_main = run


def _timed(ctx, name, fn):
    import time
    t0 = time.time()
    try:
        return fn(ctx)
    finally:
        ctx.extra.setdefault('phase_seconds', {})[name] = round(time.time() - t0, 1)


def run(ctx):   # noqa: F811
    _timed(ctx, 'main+reuse', _run_main)
    from harness import c02_extra
    import logging
    logging.getLogger('qecsim').setLevel(logging.CRITICAL)
    _timed(ctx, 'extra', c02_extra.run)

def replay(path):
    """re-run the recorded decode and re-apply the verified checker"""
    from qecsim import paulitools as pt
    d = json.load(open(path))
    r = d.get('replay', {})
    print(json.dumps(d, indent=1)[:2500])
    if 'code' not in r:
        return 0
    if r.get('check') == 'c02_sample':     # sample-recovery / MPS decode cases
        from harness import c02_sample
        return c02_sample.replay_dict(r)
    if r.get('check') == 'c02_reuse':      # an item of a stream decoded by ONE decoder object (history in `prior`)
        from harness import c02_reuse
        return c02_reuse.replay_dict(r)
    if r.get('check') == 'c02_dense':      # a syndrome that was handed to decode directly
        from harness import c02_dense
        return c02_dense.replay_one(r)
    cs = (r['code'][0], tuple(r['code'][1]))
    ds = (r['decoder'][0], tuple(r['decoder'][1]))
    ems = (r['error_model'][0], tuple(tuple(x) if isinstance(x, list) else x for x in r['error_model'][1]))
    if cs[0] == 'twin':
        print('twin codes are only decoded in streams (c02_reuse)')
        return 0
    job = {'id': 0, 'code': cs, 'decoder': ds, 'errors': [bitstr(zoo.letters_to_bsf(r['error']))],
           'contexts': [(ems, r['error_probability'])], 'app_context': r.get('app_context', False)}
    zoo._init_worker()
    res = zoo.run_decode_job(job)['results'][0]
    print('outcome now:', res)
    code = zoo.make_code(cs)
    bad = 1
    if res.get('recovery') is not None:
        ctx = Ctx('C02', 'quick', 0)
        o = ctx.model('dec', ['mat c ' + rowsstr(code.stabilizers),
                              'rok c %d %s %s' % (code.n_k_d[0], res['recovery'] or '-', res['syndrome'])])
        print('recovery_ok =', o[1])
        bad = 0 if o[1] == '1' else 1
    print('REPRODUCED' if bad else 'not reproduced')
    return bad


_run_with_extra = run


def run(ctx):   # noqa: F811
    """... then the MWPM model correspondence (Decoders/PlanarMwpm.v, ToricMwpm.v; engine build/qmodel_mwpm)"""
    _run_with_extra(ctx)
    from harness import c02_mwpm
    _timed(ctx, 'mwpm', c02_mwpm.run)


_run_with_mwpm = run


def run(ctx):   # noqa: F811
    """... then syndromes with many defects in structured arrangements on larger lattices, decoded directly
    (harness/c02_dense.py: matching-family decoders; graph / node set / recovery against MwpmGraph.v, PlanarMwpm.v, ToricMwpm.v)"""
    _run_with_mwpm(ctx)
    from harness import c02_dense
    _timed(ctx, 'dense', c02_dense.run)
    ctx.rule += ('; plus (c02_dense) matching-family decoders on lattices up to 16x16 (thorough 18x18) handed VALID syndromes directly: '
                 '2-4 separated clusters of 9..15 defects, dense random, far pairs, full lines, all-ones; plus (c02_extra.run_grid) both '
                 'symmetry decoders on the grid eta in 1e-300..1e300 x error_probability in 5e-324..1-2^-53')


_run_with_dense = run


def run(ctx):   # noqa: F811
    """... then the tensor-network decoders' recovery construction (sample recovery xor a logical class) against
    Decoders/SampleRecovery.v / SampleRecoveryColor.v (engine build/qmodel_samp; harness/c02_sample.py)"""
    _run_with_dense(ctx)
    from harness import c02_sample
    _timed(ctx, 'sample', c02_sample.run_extra)
    ctx.rule += ('; plus (c02_sample) sample_recovery of the five tensor-network decoder classes on every syndrome of small '
                 'codes and unit / dense / sparse / reachable syndromes of larger ones, and decode() = sample xor one of the '
                 'four logical classes')
