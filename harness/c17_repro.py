"""C17, third part: "the same supplied generator state reproduces the same error" as a DIRECT clause.

The property makes every generated error (and, in fault-tolerant runs, every step error and every vector of measurement
flips) a function of the STATE of the generator that the caller supplies -- not of the generator object, of the way the
object was constructed, of the history of the process, or of the interpreter process it happens to run in.  A job is a
self-contained, replayable description of a short history of calls on one generator:

    job = {api: generate | run_once | run_once_ftp, model, code, p, [T, q], bitgen, seed, burn, calls}

    g = Generator(bitgen(seed)); g.random(burn)          # the caller has already used its generator
    S = g.bit_generator.state                            # checkpoint (the documented way)
    out1 = `calls` consecutive calls drawing from g      # errors / (step errors, flips) seen by a recording decoder

and the clauses evaluated on the implementation's own outputs are

  state-restore   g.bit_generator.state = S; the same calls again           -> the same outputs, call by call
  state-copy      a generator built from another seed, put into state S     -> the same outputs
  advanced        unless every output is deterministic (a letter of probability 1, q in {0, 1}) the calls must have
                  consumed variates: the state after the calls differs from S (otherwise consecutive errors drawn
                  from one generator would be identical, not independent)
  across-processes  child interpreters with PYTHONHASHSEED 0, 1, 2 and random perform the same jobs from the same
                  seeds; all of them, and this process, must print identical outputs

over every IID model, probabilities including 0 and 1, library and stub codes, all five numpy bit generators, burn-in
0..100 and two consecutive calls.  Nothing is taken from a reference implementation: outputs are compared with outputs of
the same implementation started from the same generator state.  All seeds come from ctx.rng."""
import copy
import json
import logging
import os
import subprocess
import sys

import numpy as np

BITGENS = ('PCG64', 'PCG64DXSM', 'MT19937', 'Philox', 'SFC64')
HASH_SEEDS = ('0', '1', '2', 'random')


class StubCode:
    """generate() only reads code.n_k_d[0]"""

    def __init__(self, n):
        self.n_k_d = (n, 1, None)
        self.label = 'stub %d' % n

    def __repr__(self):
        return 'StubCode(%d)' % self.n_k_d[0]


def _bits(a):
    return ''.join('1' if v else '0' for v in np.asarray(a).ravel().tolist())


def _env():
    from qecsim.models.generic import (DepolarizingErrorModel, BitFlipErrorModel, PhaseFlipErrorModel,  # noqa
                                       BitPhaseFlipErrorModel, BiasedDepolarizingErrorModel, BiasedYXErrorModel,
                                       CenterSliceErrorModel)
    from qecsim.models.basic import FiveQubitCode, SteaneCode  # noqa
    from qecsim.models.planar import PlanarCode  # noqa
    from qecsim.models.toric import ToricCode  # noqa
    from qecsim.models.rotatedplanar import RotatedPlanarCode  # noqa
    from qecsim.models.rotatedtoric import RotatedToricCode  # noqa
    from qecsim.models.color import Color666Code  # noqa
    env = dict(locals())
    env.update(np=np, StubCode=StubCode)
    return env


def canon(x):
    """bit-generator states are nested dicts that may hold arrays"""
    if isinstance(x, dict):
        return tuple((k, canon(v)) for k, v in sorted(x.items()))
    if isinstance(x, np.ndarray):
        return tuple(x.tolist())
    if isinstance(x, (list, tuple)):
        return tuple(canon(v) for v in x)
    return x


def make_gen(job, seed=None):
    g = np.random.Generator(getattr(np.random, job['bitgen'])(job['seed'] if seed is None else seed))
    if seed is None and job['burn']:
        g.random(job['burn'])
    return g


class Objects:
    """the evaluated model and code of a job (evaluated once per job, used for every repetition)"""

    def __init__(self, job, env):
        self.model = eval(job['model'], dict(env))
        self.code = eval(job['code'], dict(env))
        self.p = float.fromhex(job['p_hex'])
        self.q = None if job.get('q_hex') is None else float.fromhex(job['q_hex'])


def perform(job, obj, g):
    """`calls` consecutive calls drawing from g; one canonical string per call"""
    from qecsim import app
    from harness.proxies import ScriptedDecoder
    out = []
    api = job['api']
    n = obj.code.n_k_d[0]
    for _ in range(job['calls']):
        if api == 'generate':
            e = np.asarray(obj.model.generate(obj.code, obj.p, g))
            out.append(_bits(e) if e.shape == (2 * n,) else 'shape%s:%s' % (e.shape, _bits(e)))
            continue
        dec = ScriptedDecoder([np.zeros(2 * n, dtype=int)])
        if api == 'run_once':
            app.run_once(obj.code, obj.model, dec, obj.p, g)
        else:
            app.run_once_ftp(obj.code, job['T'], obj.model, dec, obj.p, obj.q, g)
        if len(dec.calls) != 1:
            out.append('decoder called %d times' % len(dec.calls))
            continue
        kw = dec.calls[0]['kwargs']
        se, sm = kw.get('step_errors'), kw.get('step_measurement_errors')
        if se is None or sm is None:
            out.append('no step context')
            continue
        s = ';'.join('%s:%s' % (_bits(a), _bits(b)) for a, b in zip(se, sm))
        if api == 'run_once':
            s += '|error=' + (_bits(kw['error']) if kw.get('error') is not None else 'None')
        out.append(s)
    return out


def perform_fresh(job, env):
    obj = Objects(job, env)
    return perform(job, obj, make_gen(job))


# ---------------------------------------------------------------------------------------------- child process

def child_main():
    logging.getLogger('qecsim').setLevel(logging.CRITICAL)
    jobs = json.load(sys.stdin)
    env = _env()
    res = []
    for job in jobs:
        try:
            res.append(perform_fresh(job, env))
        except Exception as ex:  # noqa
            res.append(['raised %s: %s' % (type(ex).__name__, ex)])
    json.dump({'hash_randomization': sys.flags.hash_randomization, 'results': res}, sys.stdout)


def run_children(jobs, hash_seeds=HASH_SEEDS, timeout=600):
    """{hash seed: list of outputs | error string}; the children run concurrently"""
    procs = {}
    payload = json.dumps(jobs)
    for hs in hash_seeds:
        env = dict(os.environ, PYTHONHASHSEED=hs)
        procs[hs] = subprocess.Popen([sys.executable, '-W', 'ignore', '-m', 'harness.c17_repro', '--child'], env=env,
                                     stdin=subprocess.PIPE, stdout=subprocess.PIPE, stderr=subprocess.PIPE, text=True,
                                     cwd=os.path.dirname(os.path.dirname(os.path.abspath(__file__))))
    # one thread per child: communicate() feeds stdin and drains both pipes
    import threading
    got = {}

    def work(hs, pr):
        try:
            o, e = pr.communicate(payload, timeout=timeout)
            if pr.returncode != 0:
                got[hs] = 'child exit %s: %s' % (pr.returncode, e[-600:])
            else:
                got[hs] = json.loads(o)['results']
        except Exception as ex:  # noqa
            pr.kill()
            got[hs] = 'child failed: %s: %s' % (type(ex).__name__, ex)

    ths = [threading.Thread(target=work, args=(hs, pr)) for hs, pr in procs.items()]
    for t in ths:
        t.start()
    for t in ths:
        t.join()
    return got


# ---------------------------------------------------------------------------------------------- the clauses

def first_diff(a, b):
    if len(a) != len(b):
        return min(len(a), len(b))
    return next((i for i in range(len(a)) if a[i] != b[i]), None)


def check_job(job, env, viol):
    """state-restore, state-copy and advanced clauses of one job; returns the outputs of the first pass (or None)"""
    rep = dict(job, kind='repro')
    try:
        obj = Objects(job, env)
        g = make_gen(job)
        S = copy.deepcopy(g.bit_generator.state)
        out1 = perform(job, obj, g)
    except Exception as ex:  # noqa
        viol('repro-raises', '%s raised %s: %s' % (job['api'], type(ex).__name__, ex), rep)
        return None
    S1 = copy.deepcopy(g.bit_generator.state)
    # state restored on the same generator object
    g.bit_generator.state = copy.deepcopy(S)
    out2 = perform(job, obj, g)
    i = first_diff(out1, out2)
    if i is not None:
        viol('not-reproducible-after-state-restore',
             'call %d of %s after restoring the recorded bit_generator.state on the same generator gave a different result than '
             'the same call made from that state before' % (i + 1, job['api']),
             dict(rep, call=i + 1, first=out1[i] if i < len(out1) else None, second=out2[i] if i < len(out2) else None))
    # another generator (other seed, so another seed sequence) put into the same state
    other = make_gen(job, seed=job['seed'] ^ 0x5DEECE66D)
    other.bit_generator.state = copy.deepcopy(S)
    out3 = perform(job, obj, other)
    i = first_diff(out1, out3)
    if i is not None:
        viol('not-reproducible-from-copied-state',
             'call %d of %s on a second generator put into the same bit_generator.state gave a different result'
             % (i + 1, job['api']),
             dict(rep, call=i + 1, first=out1[i] if i < len(out1) else None, second=out3[i] if i < len(out3) else None))
    if not job['deterministic'] and canon(S1) == canon(S):
        viol('generator-not-advanced',
             '%d call(s) of %s with a non-deterministic distribution left the supplied generator in the state it was given in '
             '(nothing was drawn from it)' % (job['calls'], job['api']), dict(rep, outputs=out1))
    return out1


def cross_process(ctx, jobs, parent_out, viol):
    """children under different string-hash salts perform the same jobs"""
    got = run_children(jobs)
    ctx.extra['cross_process'] = {'hash_seeds': list(HASH_SEEDS), 'jobs': len(jobs),
                                  'children_ok': sorted(hs for hs, v in got.items() if not isinstance(v, str))}
    bad = {hs: v for hs, v in got.items() if isinstance(v, str) or len(v) != len(jobs)}
    if bad:
        ctx.obligation('c17 cross-process children completed', False,
                       '; '.join('%s: %s' % (hs, v if isinstance(v, str) else 'wrong number of results') for hs, v in bad.items()))
    good = [hs for hs in HASH_SEEDS if hs not in bad]
    for k, job in enumerate(jobs):
        ref = parent_out[k]
        if ref is None:
            continue
        ctx.count(None, False, 'repro:across-processes')
        for hs in good:
            o = got[hs][k]
            if o != ref:
                i = first_diff(ref, o)
                viol('not-reproducible-across-processes',
                     'the same %s job from the same generator seed gave a different result in an interpreter process started with '
                     'PYTHONHASHSEED=%s than in this process (PYTHONHASHSEED=%s)' % (job['api'], hs, os.environ.get('PYTHONHASHSEED')),
                     dict(job, kind='repro', child_hash_seed=hs, call=(i or 0) + 1, here=ref[i or 0] if ref else None,
                          child=o[i or 0] if o else None))
                break


def replay_job(r):
    logging.getLogger('qecsim').setLevel(logging.CRITICAL)
    job = {k: r[k] for k in ('api', 'model', 'code', 'p_hex', 'q_hex', 'T', 'bitgen', 'seed', 'burn', 'calls', 'deterministic')
           if k in r}
    found = []
    out = check_job(job, _env(), lambda key, what, rep: found.append((key, what)))
    print('now (this process):', out)
    for key, what in found:
        print('now:', key, '-', what)
    got = run_children([job])
    for hs, v in got.items():
        print('child PYTHONHASHSEED=%s:' % hs, v if isinstance(v, str) else v[0], '' if isinstance(v, str) or v[0] == out else '  <-- differs')


if __name__ == '__main__':
    if '--child' in sys.argv:
        child_main()
