"""C11 — 2-D network contraction is exact without truncation and sweep-independent.

Ties qecsim.tensortools.{mps2d.contract, mps2d.transpose, mps.contract_pairwise, mps.contract_ladder,
mps.inner_product, mps.truncate (its no-op guard), tsr.as_scalar} to the extracted Tensor/Contract model
(integer instance) and evaluates the property directly on the implementation against independent exact
values (numpy einsum on floats that are exact by construction, and a pure-Python integer brute force).

Exactness regime: every tensor is an integer mantissa array times 2**k (k per tensor); the generator keeps
prod(max|mantissa|) * prod(bond dims) < 2**53, so every partial sum of products that any contraction order can
form is an integer below 2**53 times a power of two, hence float arithmetic is exact and `==` is meaningful.
The model runs on the mantissas; the harness multiplies by 2**(sum of k) (multilinearity)."""
import itertools
import json
import math
from fractions import Fraction

import numpy as np

from harness.common import exc_class

BIG = 1 << 53


# ---------------------------------------------------------------------------------------------
# conversions
def to_frac(x):
    """mpmath.mpf / float / numpy float -> exact Fraction (None for inf/nan)."""
    import mpmath
    if isinstance(x, mpmath.mpf):
        sign, man, exp, _bc = x._mpf_
        if not man:
            return Fraction(0) if exp == 0 else None
        v = Fraction(int(man)) * (Fraction(2) ** int(exp))
        return -v if sign else v
    x = float(x)
    if math.isinf(x) or math.isnan(x):
        return None
    return Fraction(x)


def hexint(fr, scale):
    """fr / 2**scale as a signed hex integer string, or NONINT"""
    v = fr / (Fraction(2) ** scale)
    if v.denominator != 1:
        return 'NONINT(%s)' % v
    n = v.numerator
    return ('-0x%x' % -n) if n < 0 else ('0x%x' % n)


# ---------------------------------------------------------------------------------------------
# networks
class Net:
    """R x C grid; mant[r][c] is an int64 array of shape (n,e,s,w) or None; k[r][c] the binary exponent."""

    def __init__(self, R, C, mant, k):
        self.R, self.C, self.mant, self.k = R, C, mant, k

    def arrays(self):
        tn = np.empty((self.R, self.C), dtype=object)
        for r in range(self.R):
            for c in range(self.C):
                m = self.mant[r][c]
                tn[r, c] = None if m is None else m.astype(np.float64) * (2.0 ** self.k[r][c])
        return tn

    def site(self, r, c):
        m = self.mant[r][c]
        if m is None:
            return '_'
        return '%d.%d.%d.%d:%s' % (m.shape + (','.join(str(int(v)) for v in m.flatten()),))

    def col_enc(self, c):
        return '|'.join(self.site(r, c) for r in range(self.R))

    def enc(self):
        return '/'.join(self.col_enc(c) for c in range(self.C)) if self.C else '-'

    def total_scale(self):
        return sum(self.k[r][c] for r in range(self.R) for c in range(self.C) if self.mant[r][c] is not None)

    def row_scale(self, r, cols):
        return sum(self.k[r][c] for c in cols if self.mant[r][c] is not None)

    def T(self):
        mant = [[None if self.mant[r][c] is None else np.ascontiguousarray(self.mant[r][c].transpose(3, 2, 1, 0))
                 for r in range(self.R)] for c in range(self.C)]
        k = [[self.k[r][c] for r in range(self.R)] for c in range(self.C)]
        return Net(self.C, self.R, mant, k)

    def to_json(self):
        return {'R': self.R, 'C': self.C,
                'sites': [[None if self.mant[r][c] is None else
                           {'shape': list(self.mant[r][c].shape), 'mantissas': [int(v) for v in self.mant[r][c].flatten()],
                            'exp2': self.k[r][c]} for c in range(self.C)] for r in range(self.R)]}

    @staticmethod
    def from_json(d):
        R, C = d['R'], d['C']
        mant = [[None if d['sites'][r][c] is None else
                 np.array(d['sites'][r][c]['mantissas'], dtype=np.int64).reshape(d['sites'][r][c]['shape'])
                 for c in range(C)] for r in range(R)]
        k = [[0 if d['sites'][r][c] is None else d['sites'][r][c]['exp2'] for c in range(C)] for r in range(R)]
        return Net(R, C, mant, k)

    # -- independent exact values ------------------------------------------------------------
    def bonds(self):
        """internal bonds: list of ((r,c,leg),(r2,c2,leg2), dim)"""
        out = []
        for r in range(self.R):
            for c in range(self.C):
                m = self.mant[r][c]
                if m is None:
                    continue
                if r + 1 < self.R and self.mant[r + 1][c] is not None:
                    out.append(((r, c, 2), (r + 1, c, 0), m.shape[2]))
                if c + 1 < self.C and self.mant[r][c + 1] is not None:
                    out.append(((r, c, 1), (r, c + 1, 3), m.shape[1]))
        return out

    def einsum_value(self):
        """full contraction by numpy einsum on the float arrays (no qecsim code); outer legs must be dummies"""
        arrs = self.arrays()
        bonds = self.bonds()
        label = {}
        for i, (a, b, _d) in enumerate(bonds):
            label[a] = i
            label[b] = i
        ops = []
        for r in range(self.R):
            for c in range(self.C):
                t = arrs[r, c]
                if t is None:
                    continue
                idx, sl = [], []
                for leg in range(4):
                    if (r, c, leg) in label:
                        idx.append(label[(r, c, leg)])
                        sl.append(slice(None))
                    else:
                        if t.shape[leg] != 1:
                            raise ValueError('outer leg is not a dummy')
                        sl.append(0)
                ops += [t[tuple(sl)], idx]
        if not ops:
            return None
        n = len(ops) // 2
        if n <= 2:
            return float(np.einsum(*ops, [], optimize=False))
        # explicit pairwise path: fold the sites in row-major order into one running tensor whose open legs are the
        # cut through the grid (at most one row of vertical bonds plus one horizontal bond), so the cost is bounded;
        # numpy's 'greedy' path search occasionally picks intermediates that take tens of seconds on 5x5 networks.
        # Inside the exactness regime every contraction order gives the same float, so the order is immaterial.
        path = ['einsum_path', (0, 1)] + [(0, n - 1 - i) for i in range(1, n - 1)]
        return float(np.einsum(*ops, [], optimize=path))

    def brute_value(self, limit=30000):
        """sum over all internal bond assignments of the product of mantissas, in Python ints (or None if too big)"""
        bonds = self.bonds()
        total = 1
        for (_a, _b, d) in bonds:
            total *= d
        if total > limit:
            return None
        label = {}
        for i, (a, b, _d) in enumerate(bonds):
            label[a] = i
            label[b] = i
        sites = []
        for r in range(self.R):
            for c in range(self.C):
                m = self.mant[r][c]
                if m is not None:
                    sites.append((m, [label.get((r, c, leg), None) for leg in range(4)]))
        acc = 0
        for asg in itertools.product(*[range(d) for (_a, _b, d) in bonds]):
            p = 1
            for m, legs in sites:
                p *= int(m[tuple(0 if l is None else asg[l] for l in legs)])
                if p == 0:
                    break
            acc += p
        return acc


def intervals_ok(lines):
    """each line (list of bool) is a non-empty contiguous run and consecutive runs overlap or touch"""
    runs = []
    for ln in lines:
        idx = [i for i, b in enumerate(ln) if b]
        if not idx or idx[-1] - idx[0] + 1 != len(idx):
            return False
        runs.append((idx[0], idx[-1] + 1))
    return all(a2 <= b1 and a1 <= b2 for (a1, b1), (a2, b2) in zip(runs, runs[1:]))


def gen_occ(rng, R, C, full):
    if full or R * C == 1:
        return [[True] * C for _ in range(R)]
    for _ in range(300):
        occ = [[False] * C for _ in range(R)]
        for c in range(C):
            a = rng.randint(0, R - 1)
            b = rng.randint(a + 1, R)
            for r in range(a, b):
                occ[r][c] = True
        if intervals_ok([[occ[r][c] for r in range(R)] for c in range(C)]) and intervals_ok(occ):
            return occ
    return [[True] * C for _ in range(R)]


def gen_net(rng, R, C, full=None, uniform_h=None, style=None, cap=48):
    """random well-shaped network inside the exactness regime"""
    full = rng.random() < 0.5 if full is None else full
    occ = gen_occ(rng, R, C, full or uniform_h is not None)
    dimw = rng.choice([(1, 2, 3), (1, 2, 2, 3, 3), (1, 1, 2), (2, 3), (2,), (3,)])
    vd = [[rng.choice(dimw) if (r + 1 < R and occ[r][c] and occ[r + 1][c]) else 1 for c in range(C)] for r in range(R)]
    hd = [[(uniform_h if uniform_h is not None else rng.choice(dimw)) if (c + 1 < C and occ[r][c] and occ[r][c + 1]) else 1
           for c in range(C)] for r in range(R)]
    # engine-cost caps: merged bonds of a full sweep (by columns and, transposed, by rows)
    for r in range(R):
        while np.prod([vd[r][c] for c in range(C)]) > cap:
            c = rng.choice([c for c in range(C) if vd[r][c] > 1])
            vd[r][c] -= 1
    if uniform_h is None:
        for c in range(C):
            while np.prod([hd[r][c] for r in range(R)]) > cap:
                r = rng.choice([r for r in range(R) if hd[r][c] > 1])
                hd[r][c] -= 1
    nt = sum(1 for r in range(R) for c in range(C) if occ[r][c])

    def bits():
        return sum(math.log2(vd[r][c]) + math.log2(hd[r][c]) for r in range(R) for c in range(C))
    while bits() > 50 - nt * 0 and 52 - bits() < nt:  # leave at least 1 bit per tensor
        cand = [(r, c, 0) for r in range(R) for c in range(C) if vd[r][c] > 1] + \
               [(r, c, 1) for r in range(R) for c in range(C) if hd[r][c] > 1 and uniform_h is None]
        if not cand:
            break
        r, c, w = rng.choice(cand)
        if w == 0:
            vd[r][c] -= 1
        else:
            hd[r][c] -= 1
    mb = max(0, int((52 - bits()) // max(nt, 1)))  # magnitude bits per tensor
    mb = min(mb, 12)
    style = style or rng.choice(['int', 'int', 'pow2', 'sparse', 'ones', 'scaled', 'scaled'])
    mant = [[None] * C for _ in range(R)]
    k = [[0] * C for _ in range(R)]
    for r in range(R):
        for c in range(C):
            if not occ[r][c]:
                continue
            shape = (vd[r - 1][c] if r > 0 else 1, hd[r][c], vd[r][c], hd[r][c - 1] if c > 0 else 1)
            n = int(np.prod(shape))
            M = 1 << mb
            st = style if style != 'scaled' else rng.choice(['int', 'pow2'])
            vals = []
            for _ in range(n):
                u = rng.random()
                if st == 'ones':
                    v = rng.choice([-1, 1, 1])
                elif u < (0.6 if st == 'sparse' else 0.2):
                    v = 0
                elif st == 'pow2':
                    v = rng.choice([-1, 1]) * (1 << rng.randint(0, mb))
                else:
                    v = rng.randint(-M, M)
                vals.append(v)
            if st != 'ones' and not any(vals):
                vals[rng.randrange(n)] = 1
            mant[r][c] = np.array(vals, dtype=np.int64).reshape(shape)
            if style == 'scaled':
                k[r][c] = rng.randint(-30, 30)
    net = Net(R, C, mant, k)
    # the exactness certificate (checked, not assumed)
    bound = 1
    for r in range(R):
        for c in range(C):
            if mant[r][c] is not None:
                bound *= max(1, int(np.abs(mant[r][c]).max()))
    for (_a, _b, d) in net.bonds():
        bound *= d
    assert bound < BIG, 'generator left the exactness regime'
    return net


def model_cost(net, cols, fwd=True):
    """rough cost of the model's sweep over the given columns"""
    cost, R = 0, net.R
    nd = [1] * R
    sd = [1] * R
    for j, c in enumerate(cols):
        for r in range(R):
            m = net.mant[r][c]
            if m is not None:
                nd[r] *= m.shape[0]
                sd[r] *= m.shape[2]
                cost += nd[r] * sd[r] * m.shape[1] * m.shape[3] * 3
    return cost


def spec_cost(net):
    cost = 1
    for c in range(net.C - 1):
        d = 1
        for r in range(net.R):
            m = net.mant[r][c]
            d *= 1 if m is None else m.shape[1]
        cost *= d
    vmax = 1
    for c in range(net.C):
        v = 1
        for r in range(net.R):
            m = net.mant[r][c]
            v *= 1 if m is None else m.shape[2]
        vmax = max(vmax, v)
    return cost * vmax * net.R * net.C


# ---------------------------------------------------------------------------------------------
# canonical strings of implementation results, in the model's (mantissa) units
def canon_tensor(t, scale):
    if t is None:
        return '_'
    frs = [to_frac(v) for v in np.asarray(t, dtype=np.float64).flatten()]
    if any(f is None for f in frs):
        return 'NONFINITE'
    return '%d.%d.%d.%d:%s' % (tuple(t.shape) + (','.join(hexint(f, scale) for f in frs),))


def canon_col(col, scales):
    return '|'.join(canon_tensor(t, s) for t, s in zip(col, scales))


def canon_contract(res, net, cols):
    """result of mps2d.contract -> model reply format"""
    import mpmath
    if isinstance(res, str):
        return res
    if isinstance(res, tuple):
        mps, mult = res
        mf = to_frac(mult)
        ms = 'NONFINITE' if mf is None else hexint(mf, 0)
        if mps is None:
            return 'P %s None' % ms
        return 'P %s %s' % (ms, canon_col(list(mps), [net.row_scale(r, cols) for r in range(net.R)]))
    if not isinstance(res, mpmath.mpf):
        return 'NOT-MPF(%s)' % type(res).__name__
    f = to_frac(res)
    return 'S NONFINITE' if f is None else 'S ' + hexint(f, net.total_scale())


def opt(x):
    return '_' if x is None else str(int(x))


def tolenc(t):
    return '_' if t is None else ('0' if not t else 'nz')


def maskenc(mask):
    if mask is None:
        return '_'
    return '/'.join(''.join('1' if mask[r, c] else '0' for r in range(mask.shape[0])) for c in range(mask.shape[1]))


def dense_col(col):
    """a column of site tensors (n, e, s, w) or None -> matrix [E multi-index, W multi-index] (rows contracted)"""
    cur = np.ones((1, 1, 1))
    for tsr in col:
        if tsr is None:
            tsr = np.ones((1, 1, 1, 1))
        a, b, _ = cur.shape
        n, e, s_, w = tsr.shape
        cur = np.einsum('abn,nesw->aebws', cur, np.asarray(tsr, dtype=float)).reshape(a * e, b * w, s_)
    return cur[:, :, 0]


def dense_columns(arrs, cols):
    """exact dense operator of the selected columns in spatial (left-to-right) order"""
    m = None
    for c in sorted(cols):
        d = dense_col([arrs[r, c] for r in range(arrs.shape[0])])
        m = d if m is None else d @ m
    return m


def sss_all(C, steps=(None, 1, -1)):
    vals = [None] + list(range(-C - 1, C + 2))
    return [(a, b, s) for a in vals for b in vals for s in steps]


# ---------------------------------------------------------------------------------------------
def run(ctx):
    import mpmath
    from qecsim import tensortools as tt
    import qecsim.tensortools.mps as ttmps
    rng = ctx.rng
    ctx.rule = ('random well-shaped networks %s (bond dims 1-3 per bond, None padding at column/row ends, integer '
                'mantissas x 2^k with zeros, inside the float-exact regime): contract under every/sampled '
                '(start,stop,step), every split column, no-op truncation settings (chi>=bond, tol in {None,0,0.0}, '
                'all-false masks, chi=0), transposed sweeps, direct pairwise/ladder/inner_product calls; compared '
                'exactly with the extracted model, numpy einsum and an integer brute force; plus tiny-tol runs on '
                'positive real entries to 1e-9. nontrivial = distinct network with >= 2 columns, some bond > 1 and '
                'some zero entry' % ('1x1..5x6',))
    ctx.props_obligations()
    ctx.trusted.append('multilinear rescaling by 2^k per tensor is done by the harness (the model runs on integer mantissas); '
                       'that the value, the sweeps and the splits scale by the product of the factors is c11_value_scale / '
                       'c11_sweep_exact_scaled / c11_split_scaled; trusted is only that binary64 multiplication by 2^k is '
                       'exact inside the exponent window the generator checks')
    ctx.trusted.append('real truncation (QR/SVD) is outside the C11 model; it is covered numerically here (1e-9) and by C12')

    # ---- recording proxy on mps.truncate ------------------------------------------------------
    trace = []
    orig_truncate = ttmps.truncate

    def traced(mps, chi=None, tol=None, mask=None):
        out = orig_truncate(mps, chi=chi, tol=tol, mask=mask)
        trace.append((ttmps.bond_dimension(mps), out[0] is mps and type(out[1]) is float and out[1] == 1.0))
        return out
    ttmps.truncate = traced
    try:
        _run(ctx, tt, ttmps, trace, mpmath)
    finally:
        ttmps.truncate = orig_truncate


def _run(ctx, tt, ttmps, trace, mpmath):
    rng = ctx.rng
    req, exp = [], []

    def add(fn, line, impl, inp):
        req.append(line)
        exp.append((fn, inp, impl))

    def icontract(arrs, **kw):
        del trace[:]
        try:
            return tt.mps2d.contract(arrs, **kw)
        except Exception as e:  # noqa
            return 'ERR ' + exc_class(e)

    def nontrivial(net):
        some_zero = any(m is not None and (m == 0).any() for row in net.mant for m in row)
        some_bond = any(d > 1 for (_a, _b, d) in net.bonds())
        return net.C >= 2 and some_zero and some_bond

    kern = []

    # ---- 0. slice / range resolution, exhaustively for small n ----------------------------------
    for n in range(0, ctx.pick(6, 8)):
        vals = [None] + list(range(-n - 2, n + 3))
        for a in vals:
            for b in vals:
                for s in (None, -3, -2, -1, 0, 1, 2, 3):
                    try:
                        t = slice(a, b, s).indices(n)
                        r = list(range(*t))
                        impl = '%d %d %d %s' % (t + (','.join(map(str, r)) if r else '-',))
                    except ValueError:
                        impl = 'ERR ValueError'
                    add('slice.indices/range', 'slice %s %s %s %d' % (opt(a), opt(b), opt(s), n), impl, None)
                    ctx.count(None, False, 'slice')

    # ---- 1. networks --------------------------------------------------------------------------
    n_nets = ctx.pick(900, 6000)
    n_exh = ctx.pick(10, 60)
    sizes = [(R, C) for R in range(1, 6) for C in range(1, 7)]
    for it in range(n_nets):
        if it < len(sizes):
            R, C = sizes[it]
        else:
            R, C = rng.randint(1, 5), rng.randint(1, 6)
        exhaustive = it >= len(sizes) and (it - len(sizes)) < n_exh
        if exhaustive:
            R, C = rng.randint(1, 3), rng.randint(1, 4)
        uniform = rng.choice([1, 2, 2, 3]) if (it % 9 == 4) else None
        net = gen_net(rng, R, C, uniform_h=uniform, full=True if it < len(sizes) else None)
        arrs = net.arrays()
        enc = net.enc()
        tscale = net.total_scale()
        key = enc + '@' + str(tscale)
        ntv = nontrivial(net)
        rep0 = {'net': net.to_json()}
        # independent exact values
        ev = net.einsum_value()
        ev_fr = Fraction(ev)
        bv = net.brute_value(ctx.pick(3000, 30000))
        if bv is not None and Fraction(bv) * Fraction(2) ** tscale != ev_fr:
            # the two independent oracles disagree: the harness is wrong, not the implementation
            raise RuntimeError('einsum and brute-force oracles disagree on %s' % json.dumps(rep0))
        want_s = 'S ' + hexint(ev_fr, tscale)
        add('netwf (theorem hypothesis) holds', 'wf %d %s' % (R, enc), '1', rep0)
        add('netwf (theorem hypothesis) holds, transposed', 'wf %d %s' % (C, net.T().enc()), '1', rep0)
        if spec_cost(net) <= 60000:
            add('value(spec)', 'value %d %s' % (R, enc), hexint(ev_fr, tscale), rep0)
        ctx.count(key, ntv, 'net %dx%d%s' % (R, C, '' if all(m is not None for row in net.mant for m in row) else ' padded'),
                  {'rows': R, 'cols': C, 'columns': enc[:300], 'exp2_total': tscale, 'exact_value': str(ev_fr)[:60]}
                  if it in (7, 33) else None)

        maxbond = 1
        full_cost = model_cost(net, range(C))
        use_model = full_cost <= 400000

        # settings
        if exhaustive:
            sss = sss_all(C, (None, 1, -1) if uniform is None else (None, 1, -1, 2, -2, 3))
        else:
            vals = [None] + list(range(-C - 1, C + 2))
            sss = [(None, None, None), (None, None, -1), (None, None, 1), (None, -1, None), (-1, None, -1), (0, C, 1),
                   (C - 1, -C - 1, -1)]
            for _ in range(ctx.pick(5, 12)):
                sss.append((rng.choice(vals), rng.choice(vals), rng.choice([None, 1, -1] if uniform is None
                                                                           else [None, 1, -1, 2, -2, 3, -3])))
        for (a, b, s) in sss:
            cols = list(range(*slice(a, b, s).indices(C)))
            full = len(cols) == C
            # no-op settings
            kinds = ['none'] if (exhaustive and rng.random() < 0.8) else \
                [rng.choice(['none', 'chi-big', 'chi-zero-tol-zero', 'tol-0.0', 'mask-false', 'mask-random'])]
            for kind in kinds:
                chi = tol = mask = None
                if kind == 'chi-big':
                    chi = rng.choice([10 ** 6, 10 ** 4])
                    tol = rng.choice([None, 0, 0.0])
                elif kind == 'chi-zero-tol-zero':
                    chi, tol = 0, 0
                elif kind == 'tol-0.0':
                    tol = 0.0
                elif kind == 'mask-false':
                    chi, tol = rng.choice([None, 1, 2]), rng.choice([None, 0.5, 1e-3])
                    mask = np.zeros((R, C), dtype=bool)
                elif kind == 'mask-random':
                    mask = np.array([[rng.random() < 0.5 for _ in range(C)] for _ in range(R)])
                res = icontract(arrs, chi=chi, tol=tol, start=a, stop=b, step=s, mask=mask)
                tr = list(trace)
                impl = canon_contract(res, net, cols)
                rep = dict(rep0, start=a, stop=b, step=s, chi=chi, tol=tol, kind=kind,
                           mask=None if mask is None else maskenc(mask), got=impl[:300])
                ctx.count(None, False, 'contract %s %s' % ('full' if full else 'partial', kind))
                if use_model:
                    add('contract', 'contract %s %s %s %s %s %s %s' % (enc, opt(chi), tolenc(tol), opt(a), opt(b), opt(s),
                                                                      maskenc(mask)), impl, rep)
                    add('truncate call trace', 'bonds %s %s %s %s' % (enc, opt(a), opt(b), opt(s)),
                        ','.join(str(t[0]) for t in tr) if tr else '-', rep)
                # direct evaluation of the property
                if full and cols and impl != want_s:
                    ctx.violation('full-value', 'full contraction differs from the exact value', dict(rep, want=want_s))
                if any(not t[1] for t in tr):
                    ctx.violation('noop-truncation', 'a no-op truncation setting changed the MPS or the norm', rep)
                if not full and not isinstance(res, str):
                    mf = to_frac(res[1])
                    if mf != 1 or not isinstance(res[1], mpmath.mpf):
                        ctx.violation('partial-mult', 'multiplier of an untruncated partial contraction is not mpf(1)', rep)
                    if (res[0] is None) != (not cols):
                        ctx.violation('partial-none', 'partial contraction returns None iff the range is empty', rep)
                    if cols and res[0] is not None and mf == 1:
                        try:
                            ref = dense_columns(arrs, cols)
                            got = dense_col(list(res[0])) if ref.size <= 2000000 else None
                        except Exception:  # noqa  (shape trouble is reported by the model comparison)
                            got = None
                        if got is not None and (got.shape != ref.shape or not np.allclose(got, ref, rtol=1e-9, atol=1e-12 * (np.abs(ref).max() or 1))):
                            ctx.violation('partial-value', 'partial contraction over the selected columns is not the exact product of '
                                          'those columns (independent dense evaluation)', rep)
                for t in tr:
                    maxbond = max(maxbond, t[0])
        # chi exactly the largest bond that occurs (no-op), on forward and reverse full sweeps
        for s in (None, -1):
            res = icontract(arrs, chi=maxbond, tol=0.0, step=s)
            impl = canon_contract(res, net, range(C))
            ctx.count(None, False, 'contract full chi=maxbond')
            rep = dict(rep0, chi=maxbond, tol=0.0, step=s, got=impl[:200])
            if use_model:
                add('contract', 'contract %s %d 0 _ _ %s _' % (enc, maxbond, opt(s)), impl, rep)
            if impl != want_s or any(not t[1] for t in trace):
                ctx.violation('chi-maxbond', 'chi equal to the largest occurring bond changed the value', dict(rep, want=want_s))
        # guard correspondence below the largest bond: model says UNMODELLED iff a truncate call did real work
        if maxbond > 1 and use_model and it % 3 == 0:
            chi = rng.randint(1, maxbond - 1)
            res = icontract(arrs, chi=chi)
            did = any(not t[1] for t in trace)
            add('truncate guard', 'contract %s %d _ _ _ _ _' % (enc, chi),
                'UNMODELLED' if did else canon_contract(res, net, range(C)), dict(rep0, chi=chi))
            ctx.count(None, False, 'guard below maxbond')

        # ---- splits: every split column -------------------------------------------------------
        for c in range(1, C):
            for kind in (['none', 'chi-big'] if c % 2 else ['none']):
                chi = 10 ** 5 if kind == 'chi-big' else None
                try:
                    L, mL = tt.mps2d.contract(arrs, chi=chi, stop=c)
                    Rr, mR = tt.mps2d.contract(arrs, chi=chi, start=-1, stop=c - 1, step=-1)
                    v = tt.mps.inner_product(L, Rr) * mL * mR
                    f = to_frac(v)
                    impl = 'NONFINITE' if f is None else hexint(f, tscale)
                    if not isinstance(v, mpmath.mpf):
                        impl = 'NOT-MPF'
                except Exception as e:  # noqa
                    impl = 'ERR ' + exc_class(e)
                rep = dict(rep0, split=c, chi=chi, got=impl)
                ctx.count(None, False, 'split')
                if use_model:
                    add('split', 'split %s %s _ _ %d' % (enc, opt(chi), c), impl, rep)
                if impl != want_s[2:]:
                    ctx.violation('split-value', 'left/right partial contractions recombined differ from the exact value',
                                  dict(rep, want=want_s[2:]))
        # the decoders' pattern: bra over all but the last column, ket = last column
        if C >= 2:
            try:
                bra, mult = tt.mps2d.contract(arrs, stop=-1)
                v = tt.mps.inner_product(bra, arrs[:, -1]) * mult
                impl = hexint(to_frac(v), tscale)
            except Exception as e:  # noqa
                impl = 'ERR ' + exc_class(e)
            ctx.count(None, False, 'split last column')
            if impl != want_s[2:]:
                ctx.violation('split-value', 'contract(stop=-1) x last column differs from the exact value',
                              dict(rep0, split=C - 1, got=impl, want=want_s[2:]))

        # ---- transposed sweeps ---------------------------------------------------------------------
        netT = net.T()
        tnT = tt.mps2d.transpose(arrs)
        implT = '/'.join(canon_col(list(tnT[:, j]), [net.k[j][c] if net.mant[j][c] is not None else 0 for c in range(C)])
                         for j in range(R))
        encT = netT.enc()
        add('transpose', 'transpose %d %s' % (R, enc), implT, rep0)
        want_T = '/'.join('|'.join('_' if netT.mant[r][c] is None else
                                   '%d.%d.%d.%d:%s' % (netT.mant[r][c].shape + (','.join(hexint(Fraction(int(v)), 0)
                                                                                         for v in netT.mant[r][c].flatten()),))
                                   for r in range(netT.R)) for c in range(netT.C))
        if implT != want_T:
            ctx.violation('transpose', 'mps2d.transpose is not the grid transpose with reversed tensor axes', rep0)
        back = tt.mps2d.transpose(tnT)
        if back.shape != arrs.shape or any((back[r, c] is None) != (arrs[r, c] is None) or
                                           (arrs[r, c] is not None and not np.array_equal(back[r, c], arrs[r, c]))
                                           for r in range(R) for c in range(C)):
            ctx.violation('transpose', 'transpose is not an involution', rep0)
        costT = model_cost(netT, range(R))
        for s in (None, -1):
            res = icontract(tnT, step=s)
            impl = canon_contract(res, netT, range(R))
            ctx.count(None, False, 'contract transposed')
            rep = dict(rep0, transposed=True, step=s, got=impl[:200])
            if costT <= 400000:
                add('contract(transposed)', 'contract %s _ _ _ _ %s _' % (encT, opt(s)), impl, rep)
            if impl != want_s:
                ctx.violation('transposed-value', 'contraction of the transposed network differs from the exact value',
                              dict(rep, want=want_s))
        if len(kern) < 12 and R * C <= 6 and C >= 2 and ntv and tscale == 0 and full_cost < 3000:
            kern.append((net, ev_fr))

    # ---- 2. direct calls: contract_pairwise, contract_ladder (open E/W legs), inner_product ------------
    for it in range(ctx.pick(250, 2500)):
        R = rng.randint(1, 4)
        # a column pair with open outer legs of any dimension
        a = rng.randint(0, R - 1)
        b = rng.randint(a + 1, R)
        a2 = rng.randint(0, R - 1)
        b2 = rng.randint(a2 + 1, R)
        if rng.random() < 0.5:
            a = a2 = 0
            b = b2 = R

        def rcol(lo, hi, wdims, edims, rng=rng, R=R):
            col, vd = [None] * R, [rng.choice([1, 2, 3]) for _ in range(R + 1)]
            for r in range(lo, hi):
                shape = (vd[r] if r > lo else rng.choice([1, 1, 2]), edims[r], vd[r + 1] if r + 1 < hi else rng.choice([1, 1, 2]),
                         wdims[r])
                col[r] = np.array([rng.choice([0, 1, -1, 2, -3, 5]) for _ in range(int(np.prod(shape)))],
                                  dtype=np.int64).reshape(shape)
            return col
        mid = [rng.choice([1, 2, 3]) for _ in range(R)]
        for r in range(R):
            if not (a <= r < b and a2 <= r < b2):
                mid[r] = 1
        Lc = rcol(a, b, [rng.choice([1, 2]) for _ in range(R)], mid)
        Rc = rcol(a2, b2, mid, [rng.choice([1, 2]) for _ in range(R)])

        def colenc(col):
            return '|'.join('_' if t is None else '%d.%d.%d.%d:%s' % (t.shape + (','.join(str(int(v)) for v in t.flatten()),))
                            for t in col)

        def fl(col):
            return [None if t is None else t.astype(np.float64) for t in col]
        # contract_pairwise (shape consistency between rows is not needed by the per-site operation)
        try:
            p = tt.mps.contract_pairwise(fl(Lc), fl(Rc))
            impl = canon_col(p, [0] * R)
        except Exception as e:  # noqa
            impl = 'ERR ' + exc_class(e)
        add('contract_pairwise', 'pairwise %s %s' % (colenc(Lc), colenc(Rc)), impl, None)
        ctx.count(None, False, 'contract_pairwise')
        # independent check of the merged-index convention
        ok = not impl.startswith('ERR')
        if ok:
            for r in range(R):
                le, ri = Lc[r], Rc[r]
                if le is None or ri is None:
                    want = ri if le is None else le
                    if (want is None) != (p[r] is None) or (want is not None and not np.array_equal(p[r], want)):
                        ok = False
                    continue
                t = p[r]
                if t.shape != (le.shape[0] * ri.shape[0], ri.shape[1], le.shape[2] * ri.shape[2], le.shape[3]):
                    ok = False
                    continue
                for (n, N, E, s, S, w) in itertools.product(range(le.shape[0]), range(ri.shape[0]), range(ri.shape[1]),
                                                            range(le.shape[2]), range(ri.shape[2]), range(le.shape[3])):
                    wv = sum(int(le[n, e, s, w]) * int(ri[N, E, S, e]) for e in range(le.shape[1]))
                    if t[n * ri.shape[0] + N, E, s * ri.shape[2] + S, w] != wv:
                        ok = False
                        break
        if not ok:
            ctx.violation('pairwise-convention', 'contract_pairwise is not sum_e L[n,e,s,w] R[N,E,S,e] at ((nN),E,(sS),w)',
                          {'left': colenc(Lc), 'right': colenc(Rc), 'got': impl[:300]})
        # contract_ladder on the left column (open E and W legs)
        try:
            t = tt.mps.contract_ladder(fl(Lc))
            impl = canon_tensor(t, 0)
        except Exception as e:  # noqa
            impl = 'ERR ' + exc_class(e)
        add('contract_ladder', 'ladder %s' % colenc(Lc), impl, None)
        ctx.count(None, False, 'contract_ladder')
        ts = [x for x in Lc if x is not None]
        ops = []
        for i, x in enumerate(ts):
            ops += [x.astype(np.float64), [20 + i, i, 21 + i, 10 + i]]
        wantt = np.einsum(*ops, [20] + list(range(len(ts))) + [20 + len(ts)] + [10 + i for i in range(len(ts))])
        wantt = wantt.reshape((ts[0].shape[0], int(np.prod([x.shape[1] for x in ts])), ts[-1].shape[2],
                               int(np.prod([x.shape[3] for x in ts]))))
        if impl != canon_tensor(wantt, 0):
            ctx.violation('ladder-convention', 'contract_ladder is not the chain product at (n,(eE..),S,(wW..))',
                          {'column': colenc(Lc), 'got': impl[:300]})

    # non-contiguous columns and non-scalar results are errors
    t1 = np.ones((1, 1, 1, 1))
    for pat in ('101', '1011', '0101', '11011', '000', '0', '010', '110', '011'):
        col = [t1 if ch == '1' else None for ch in pat]
        try:
            r = tt.mps.contract_ladder(col)
            impl = canon_tensor(r, 0)
        except Exception as e:  # noqa
            impl = 'ERR ' + exc_class(e)
        add('contract_ladder(pattern)', 'ladder %s' % '|'.join('1.1.1.1:1' if ch == '1' else '_' for ch in pat), impl, pat)
        ctx.count(None, False, 'ladder pattern')
    for shape in ((1, 1, 1, 1), (1, 2, 1, 1), (2, 1, 1, 1), (1, 1, 1, 2)):
        t = np.arange(1, 1 + int(np.prod(shape)), dtype=np.float64).reshape(shape)
        try:
            impl = hexint(to_frac(tt.tsr.as_scalar(t)), 0)
        except Exception as e:  # noqa
            impl = 'ERR ' + exc_class(e)
        add('as_scalar', 'scalar %d.%d.%d.%d:%s' % (shape + (','.join(str(int(v)) for v in t.flatten()),)), impl, shape)
        ctx.count(None, False, 'as_scalar')

    # ---- 3. vanishing tolerance: positive real entries, real truncation runs --------------------------
    n_tol = ctx.pick(200, 2500)
    for it in range(n_tol):
        R, C = rng.randint(1, 4), rng.randint(2, 5)
        occ = gen_occ(rng, R, C, rng.random() < 0.6)
        vd = [[rng.choice([1, 2, 2, 3]) if (r + 1 < R and occ[r][c] and occ[r + 1][c]) else 1 for c in range(C)] for r in range(R)]
        hd = [[rng.choice([1, 2, 2, 3]) if (c + 1 < C and occ[r][c] and occ[r][c + 1]) else 1 for c in range(C)] for r in range(R)]
        arrs = np.empty((R, C), dtype=object)
        mag = rng.choice([0, 0, -40, 40, -150])
        for r in range(R):
            for c in range(C):
                if occ[r][c]:
                    shape = (vd[r - 1][c] if r > 0 else 1, hd[r][c], vd[r][c], hd[r][c - 1] if c > 0 else 1)
                    arrs[r, c] = np.array([rng.uniform(0.25, 1.0) for _ in range(int(np.prod(shape)))]).reshape(shape) \
                        * (2.0 ** (mag // 4 if mag else 0))
                else:
                    arrs[r, c] = None
        exact = exact_fraction_value(arrs)
        tol = rng.choice([1e-300, 1e-100, 1e-30, 1e-16, 1e-14])
        chi = rng.choice([None, None, 10 ** 6])
        mask = None if rng.random() < 0.6 else np.array([[rng.random() < 0.6 for _ in range(C)] for _ in range(R)])
        vals = {}
        try:
            vals['forward'] = tt.mps2d.contract(arrs, chi=chi, tol=tol, mask=mask)
            vals['reverse'] = tt.mps2d.contract(arrs, chi=chi, tol=tol, step=-1, mask=mask)
            tnT = tt.mps2d.transpose(arrs)
            mT = None if mask is None else mask.transpose()
            vals['by-rows'] = tt.mps2d.contract(tnT, chi=chi, tol=tol, mask=mT)
            vals['by-rows-reverse'] = tt.mps2d.contract(tnT, chi=chi, tol=tol, step=-1, mask=mT)
            c = rng.randint(1, C - 1)
            L, mL = tt.mps2d.contract(arrs, chi=chi, tol=tol, stop=c, mask=mask)
            Rr, mR = tt.mps2d.contract(arrs, chi=chi, tol=tol, start=-1, stop=c - 1, step=-1, mask=mask)
            vals['split@%d' % c] = tt.mps.inner_product(L, Rr) * mL * mR
            bra, mult = tt.mps2d.contract(arrs, chi=chi, tol=tol, stop=-1, mask=mask)
            vals['bra x last column'] = tt.mps.inner_product(bra, arrs[:, -1]) * mult
        except Exception as e:  # noqa
            vals['exception'] = 'ERR ' + exc_class(e) + ': ' + str(e)[:100]
        rep = {'real_net': [[None if arrs[r, c] is None else {'shape': list(arrs[r, c].shape),
                                                               'hex': [float(v).hex() for v in arrs[r, c].flatten()]}
                             for c in range(C)] for r in range(R)], 'tol': tol, 'chi': chi,
               'mask': None if mask is None else maskenc(mask), 'exact': str(float(exact))}
        for name, v in vals.items():
            ctx.count(None, False, 'tiny-tol ' + name.split('@')[0])
            f = None if isinstance(v, str) else to_frac(v)
            if f is None or abs(f - exact) > Fraction(1, 10 ** 9) * abs(exact):
                ctx.violation('vanishing-tol', 'contraction with a vanishing tolerance differs from the exact value by > 1e-9',
                              dict(rep, sweep=name, got=str(v)))
        ctx.count('tol' + json.dumps(rep['real_net'])[:2000], True, 'tiny-tol net')

    # ---- correspondence with the extracted model -------------------------------------------------
    out = ctx.model('c11', req, timeout=1500)
    for (fn, inp, impl), m, line in zip(exp, out, req):
        ctx.cmp(fn, inp if inp is not None else line[:600], impl, m)
    ctx.extra['model_requests'] = len(req)

    # ---- in-kernel shard ------------------------------------------------------------------------
    items = []
    for (net, ev_fr) in kern:
        cols = []
        for c in range(net.C):
            sites = []
            for r in range(net.R):
                m = net.mant[r][c]
                if m is None:
                    sites.append('None')
                else:
                    nested = '[' + '; '.join('[' + '; '.join('[' + '; '.join(
                        '[' + '; '.join('(%d)%%Z' % int(m[n, e, s, w]) for w in range(m.shape[3])) + ']'
                        for s in range(m.shape[2])) + ']' for e in range(m.shape[1])) + ']' for n in range(m.shape[0])) + ']'
                    sites.append('Some (mk_tensorZ %d %d %d %d %s)' % (m.shape + (nested,)))
            cols.append('[' + '; '.join(sites) + ']')
        tn = '[' + ';\n     '.join(cols) + ']'
        v = int(ev_fr)
        items.append('(let tn := %s in\n    scalar_is (contractZ tn None None None None None None) (%d)%%Z\n'
                     ' && scalar_is (contractZ tn None None None None (Some (-1)%%Z) None) (%d)%%Z\n'
                     ' && (valueZ %d tn =? (%d))%%Z)' % (tn, v, v, net.R, v))
    text = ('From Coq Require Import List Bool ZArith QArith.\nFrom QV Require Import Tensor.Sums Tensor.Net '
            'Tensor.Contract Tensor.ContractZ.\nImport ListNotations.\nOpen Scope bool_scope.\n'
            'Definition scalar_is (r : res (cres Zring)) (v : Z) : bool :=\n'
            '  match r with Ok (Scalar x) => Z.eqb x v | _ => false end.\n'
            'Definition checks : list bool :=\n [' + ';\n  '.join(items) + '].\n'
            'Example corr : forallb (fun b => b) checks = true.\nProof. vm_compute. reflexivity. Qed.\n')
    ctx.kernel_cases('sample', text)
    ctx.extra['kernel_cases'] = len(items)


def exact_fraction_value(arrs):
    """exact contraction value of a float network (entries taken as exact rationals), by a row-major
    transfer contraction in Fractions written independently of qecsim"""
    R, C = arrs.shape
    # state: dict from (tuple of open bond indices) -> Fraction; process sites column by column, row by row.
    # open legs: for each row the horizontal index leaving the processed region, plus the current vertical index.
    state = {((0,) * R, 0): Fraction(1)}
    for c in range(C):
        for r in range(R):
            t = arrs[r, c]
            new = {}
            if t is None:
                for (h, v), x in state.items():
                    new[(h, v)] = new.get((h, v), 0) + x
                state = new
                continue
            fr = [[[[Fraction(float(t[n, e, s, w])) for w in range(t.shape[3])] for s in range(t.shape[2])]
                   for e in range(t.shape[1])] for n in range(t.shape[0])]
            for (h, v), x in state.items():
                w = h[r]
                for e in range(t.shape[1]):
                    for s in range(t.shape[2]):
                        val = fr[v][e][s][w]
                        if val == 0:
                            continue
                        k = (h[:r] + (e,) + h[r + 1:], s)
                        new[k] = new.get(k, 0) + x * val
            state = new
        # end of column: vertical index must be the dummy 0
        state = {(h, 0): x for (h, v), x in state.items() if v == 0}
    return sum(x for (h, v), x in state.items() if all(i == 0 for i in h))



_run_main = run


def run(ctx):   # noqa: F811
    _run_main(ctx)
    from harness import c11_extra
    c11_extra.run(ctx)
    c11_extra.run_round3(ctx)
    from harness import c11_graded
    c11_graded.run(ctx)
    from harness import c11_dtypes
    c11_dtypes.run(ctx)

def replay(path):
    d = json.load(open(path))
    print(json.dumps({k: v for k, v in d.items() if k != 'replay'}, indent=1))
    rep = d.get('replay', {})
    if 'net' in rep and 'history' in rep:
        from harness import c11_extra
        return c11_extra.replay_history(rep)
    if 'pairwise_dtypes' in rep:
        from harness import c11_dtypes
        return c11_dtypes.replay_pairwise(rep)
    if 'positive_real_net' in rep:
        from harness import c11_graded
        return c11_graded.replay_positive(rep)
    if 'net' not in rep:
        print(json.dumps(rep, indent=1)[:4000])
        return 0
    from qecsim import tensortools as tt
    net = Net.from_json(rep['net'])
    arrs = net.arrays()
    ev = Fraction(net.einsum_value())
    print('exact value (einsum):', ev)
    if 'split' in rep:
        c = rep['split']
        L, mL = tt.mps2d.contract(arrs, chi=rep.get('chi'), stop=c)
        Rr, mR = tt.mps2d.contract(arrs, chi=rep.get('chi'), start=-1, stop=c - 1, step=-1)
        got = to_frac(tt.mps.inner_product(L, Rr) * mL * mR)
    else:
        tn = tt.mps2d.transpose(arrs) if rep.get('transposed') else arrs
        mask = rep.get('mask')
        if mask is not None:
            mask = np.array([[ch == '1' for ch in col] for col in mask.split('/')]).T
        res = tt.mps2d.contract(tn, chi=rep.get('chi'), tol=rep.get('tol'), start=rep.get('start'), stop=rep.get('stop'),
                                step=rep.get('step'), mask=mask)
        got = res if isinstance(res, tuple) else to_frac(res)
    print('implementation:', got)
    bad = not isinstance(got, tuple) and got != ev
    print('REPRODUCED' if bad else 'not reproduced (or partial result: compare with the model reply in the record)')
    return 1 if bad else 0
