"""Shared generator of code / decoder / parameter / context combinations for the decoder checks
(C02, C03, C14), a multiprocessing runner for the real decoders, and the independent letter-level
syndrome computation.  Everything is described by small picklable specs so that the real objects are
constructed inside the worker processes."""
import itertools
import json
import multiprocessing
import os
import resource
import signal

import numpy as np

MEM_CAP = 12 << 30          # address-space cap per worker (tensor-network decoders)
DECODE_TIMEOUT = 300        # seconds per single decode


# ---------------------------------------------------------------------------------------------
# construction from specs
# ---------------------------------------------------------------------------------------------
def make_code(spec):
    kind, args = spec
    if kind == 'planar':
        from qecsim.models.planar import PlanarCode
        return PlanarCode(*args)
    if kind == 'toric':
        from qecsim.models.toric import ToricCode
        return ToricCode(*args)
    if kind == 'rotatedplanar':
        from qecsim.models.rotatedplanar import RotatedPlanarCode
        return RotatedPlanarCode(*args)
    if kind == 'rotatedtoric':
        from qecsim.models.rotatedtoric import RotatedToricCode
        return RotatedToricCode(*args)
    if kind == 'color666':
        from qecsim.models.color import Color666Code
        return Color666Code(*args)
    if kind == 'five':
        from qecsim.models.basic import FiveQubitCode
        return FiveQubitCode()
    if kind == 'steane':
        from qecsim.models.basic import SteaneCode
        return SteaneCode()
    raise ValueError(spec)


def make_decoder(spec):
    name, args = spec
    if name.startswith('Planar'):
        import qecsim.models.planar as m
    elif name.startswith('RotatedPlanar'):
        import qecsim.models.rotatedplanar as m
    elif name.startswith('RotatedToric'):
        import qecsim.models.rotatedtoric as m
    elif name.startswith('Toric'):
        import qecsim.models.toric as m
    elif name.startswith('Color'):
        import qecsim.models.color as m
    else:
        import qecsim.models.generic as m
    return getattr(m, name)(*args)


def make_error_model(spec):
    name, args = spec
    import qecsim.models.generic as g
    return getattr(g, name)(*args)


def code_name(spec):
    return '%s%s' % (spec[0], 'x'.join(map(str, spec[1])) if spec[1] else '')


def dec_name(spec):
    return '%s(%s)' % (spec[0], ','.join(repr(a) for a in spec[1]))


# ---------------------------------------------------------------------------------------------
# domains
# ---------------------------------------------------------------------------------------------
def sizes(family, quick):
    """square, non-square, minimal, odd/even sizes per family (DESIGN C02)"""
    if family == 'planar':
        s = [(2, 2), (2, 3), (3, 2), (3, 3), (2, 5), (4, 3), (3, 4), (4, 4), (5, 5), (4, 6)]
        return s + ([(6, 7)] if quick else [(5, 2), (5, 4), (6, 6), (6, 7), (7, 6)])
    if family == 'toric':
        s = [(2, 2), (2, 3), (3, 2), (3, 3), (2, 5), (4, 4), (3, 4), (5, 4), (5, 5)]
        return s + ([(6, 6)] if quick else [(4, 5), (6, 5), (6, 6), (2, 6)])
    if family == 'rotatedplanar':
        s = [(3, 3), (3, 4), (4, 3), (4, 4), (3, 5), (5, 4), (5, 5)]
        return s + ([(7, 6)] if quick else [(4, 5), (6, 6), (6, 7), (7, 6), (3, 7)])
    if family == 'rotatedtoric':
        s = [(2, 2), (2, 4), (4, 2), (4, 4), (4, 6)]
        return s + ([(8, 6)] if quick else [(6, 4), (6, 6), (2, 6), (8, 6), (6, 8)])
    if family == 'color666':
        return [(3,), (5,), (7,)]
    raise ValueError(family)


PROBS = (1e-9, 0.001, 0.05, 0.1, 0.3, 0.5, 0.75, 0.999, 1 - 1e-9)


def error_model_specs(rng, tmpdir=None):
    """one spec of every error-model class (parameters drawn from their healthy domain)"""
    specs = [('BitFlipErrorModel', ()), ('PhaseFlipErrorModel', ()), ('BitPhaseFlipErrorModel', ()),
             ('DepolarizingErrorModel', ()),
             ('BiasedDepolarizingErrorModel', (rng.choice([0.1, 0.5, 1, 10, 100, 1000]), rng.choice('XYZ'))),
             ('BiasedDepolarizingErrorModel', (rng.choice([0.5, 3, 30, 300]), 'Y')),
             ('BiasedYXErrorModel', (rng.choice([0.001, 0.1, 1, 10, 1000]),)),
             ('CenterSliceErrorModel', (rng.choice([(0, 0, 1), (1, 0, 0), (0.5, 0.5, 0), (0, 0.3, 0.7)]),
                                        rng.choice([-1.0, -0.5, 0.0, 0.5, 1.0])))]
    return specs


def file_error_model_spec(tmpdir, p, dist, n):
    """a FileErrorModel whose header matches probability p (context use only)"""
    path = os.path.join(tmpdir, 'errs_%s.jsonl' % repr(p).replace('.', '_'))
    if not os.path.exists(path):
        with open(path, 'w') as f:
            f.write('// context file for C02\n')
            f.write(json.dumps({'probability': p}) + '\n')
            f.write(json.dumps({'label': 'ctx-file'}) + '\n')
            f.write(json.dumps({'probability_distribution': list(dist)}) + '\n')
            f.write(json.dumps(['00' * ((2 * n + 7) // 8), 2 * n]) + '\n')
    return ('FileErrorModel', (path,))


def tn_params(rng, name, n_qubits, allow_none_chi):
    chis = [1, 2, 4, 8] + ([None] if allow_none_chi else [])
    chi = rng.choice(chis)
    mode = rng.choice('cra')
    tol = rng.choice([None, None, 1e-8, 0.1])
    if name in ('PlanarMPSDecoder', 'PlanarRMPSDecoder'):
        # stp = probability of SKIPPING a truncation: stp=1 is exact contraction whatever chi is, so it is
        # drawn only where exact contraction is cheap
        return (chi, mode, rng.choice([None, None, 0.5, 1.0]) if allow_none_chi else None, tol)
    if name in ('RotatedPlanarMPSDecoder', 'RotatedPlanarRMPSDecoder'):
        return (chi, mode, tol)
    return (chi, tol)  # Color666MPSDecoder


def none_chi_ok(name, code_spec):
    """exact (untruncated) contraction is exponential: keep chi=None to sizes measured to be cheap"""
    kind, a = code_spec
    if name == 'PlanarMPSDecoder':
        return a[0] * a[1] <= 16
    if name == 'PlanarRMPSDecoder':
        return a[0] * a[1] <= 15
    if name in ('RotatedPlanarMPSDecoder', 'RotatedPlanarRMPSDecoder'):
        return a[0] * a[1] <= 25
    if name == 'Color666MPSDecoder':
        return a[0] <= 5      # never chi=None at size >= 7 (> 50 GB)
    return True


def cmwpm_params(rng):
    return (rng.choice([0, 0.5, 1, 3, 3, 1e6]), rng.randint(1, 5), rng.choice('trfl'), rng.choice([1, 2, 4]))


def decoder_specs(rng, family, code_spec, n_qubits, count):
    """`count` parameterisations per decoder class supported on this code family"""
    out = []
    if family == 'planar':
        out.append(('PlanarMWPMDecoder', ()))
        out.append(('PlanarYDecoder', ()))
        out.append(('PlanarCMWPMDecoder', ()))                 # defaults
        for _ in range(count):
            out.append(('PlanarCMWPMDecoder', cmwpm_params(rng)))
        for name in ('PlanarMPSDecoder', 'PlanarRMPSDecoder'):
            out.append((name, ()) if none_chi_ok(name, code_spec) else (name, (4,)))
            for _ in range(count):
                out.append((name, tn_params(rng, name, n_qubits, none_chi_ok(name, code_spec))))
    elif family == 'toric':
        out.append(('ToricMWPMDecoder', ()))
    elif family == 'rotatedplanar':
        for name in ('RotatedPlanarMPSDecoder', 'RotatedPlanarRMPSDecoder'):
            out.append((name, ()) if none_chi_ok(name, code_spec) else (name, (4,)))
            for _ in range(count):
                out.append((name, tn_params(rng, name, n_qubits, none_chi_ok(name, code_spec))))
        for eta in (None, 0.1, 1, 10, 300):
            out.append(('RotatedPlanarSMWPMDecoder', (eta,)))
    elif family == 'rotatedtoric':
        for eta in (None, 0.1, 1, 10, 300):
            out.append(('RotatedToricSMWPMDecoder', (rng.choice([False, True]), eta)))
    elif family == 'color666':
        name = 'Color666MPSDecoder'
        out.append((name, ()) if none_chi_ok(name, code_spec) else (name, (8,)))
        for _ in range(count):
            out.append((name, tn_params(rng, name, n_qubits, none_chi_ok(name, code_spec))))
    if n_qubits <= 10:
        for mq in (10, None, 0, n_qubits):
            out.append(('NaiveDecoder', (mq,)))
    return out


def y_only(dec_spec):
    return dec_spec[0] == 'PlanarYDecoder'


# ---------------------------------------------------------------------------------------------
# errors
# ---------------------------------------------------------------------------------------------
def letters_to_bsf(s):
    n = len(s)
    e = np.zeros(2 * n, dtype=int)
    for i, ch in enumerate(s):
        if ch in 'XY':
            e[i] = 1
        if ch in 'ZY':
            e[n + i] = 1
    return e


def bsf_to_letters(e):
    n = len(e) // 2
    return ''.join('IXZY'[int(e[i]) + 2 * int(e[n + i])] for i in range(n))


def gf2_basis(vectors):
    """indices of a maximal independent subset (insertion order) of the 0/1 vectors"""
    piv = {}
    keep = []
    for idx, v in enumerate(vectors):
        x = 0
        for b in v:
            x = (x << 1) | int(b)
        while x:
            h = x.bit_length()
            if h in piv:
                x ^= piv[h]
            else:
                piv[h] = x
                keep.append(idx)
                break
    return keep


def syndrome_space(code, letters='XZ'):
    """errors e_1..e_r (single-qubit, from `letters`) whose syndromes form a basis of the space of
    syndromes reachable by products of single-qubit `letters` errors"""
    from qecsim import paulitools as pt
    n = code.n_k_d[0]
    errs = []
    for q in range(n):
        for ch in letters:
            errs.append(letters_to_bsf('I' * q + ch + 'I' * (n - q - 1)))
    syns = [pt.bsp(e, code.stabilizers.T) for e in errs]
    keep = gf2_basis(syns)
    return [errs[i] for i in keep]


def all_syndrome_errors(basis):
    """one error for every syndrome of the space: all 2^r XOR-combinations of the basis errors"""
    r = len(basis)
    out = []
    for mask in range(1 << r):
        e = np.zeros(len(basis[0]), dtype=int) if basis else None
        for i in range(r):
            if mask >> i & 1:
                e = e ^ basis[i]
        out.append(e)
    return out


def weighted_errors(rng, n, per_weight, alphabet='XYZ'):
    """errors of every weight 0..n"""
    out = []
    for w in range(n + 1):
        for _ in range(per_weight):
            qs = rng.sample(range(n), w)
            s = ['I'] * n
            for q in qs:
                s[q] = rng.choice(alphabet)
            out.append(letters_to_bsf(''.join(s)))
    return out


def letter_syndrome(stab_codes, e):
    """independent of paulitools.bsp: letter codes (0=I,1=X,2=Z,3=Y) anticommute iff both non-identity and different"""
    n = len(e) // 2
    a = np.asarray(e[:n]) + 2 * np.asarray(e[n:])
    anti = (stab_codes != 0) & (a[None, :] != 0) & (stab_codes != a[None, :])
    return anti.sum(axis=1) % 2


def stab_letter_codes(stabs):
    n = stabs.shape[1] // 2
    return stabs[:, :n] + 2 * stabs[:, n:]


# ---------------------------------------------------------------------------------------------
# worker side
# ---------------------------------------------------------------------------------------------
class _Timeout(Exception):
    pass


def _alarm(signum, frame):
    raise _Timeout()


def _init_worker():
    try:
        resource.setrlimit(resource.RLIMIT_AS, (MEM_CAP, MEM_CAP))
    except (ValueError, OSError):
        pass
    import logging
    lg = logging.getLogger('qecsim')
    lg.setLevel(logging.CRITICAL)
    lg.addHandler(logging.NullHandler())
    lg.propagate = False
    signal.signal(signal.SIGALRM, _alarm)
    np.seterr(all='ignore')


_CODE_CACHE = {}


def _code(spec):
    if spec not in _CODE_CACHE:
        _CODE_CACHE[spec] = make_code(spec)
    return _CODE_CACHE[spec]


def digits(arr):
    """decoder answer -> digit string for the verified checker: '0','1', anything else 'x'"""
    out = []
    for v in np.asarray(arr).ravel().tolist():
        out.append('0' if (v == 0 and not isinstance(v, float)) or v is False else
                   ('1' if (v == 1 and not isinstance(v, float)) or v is True else 'x'))
    return ''.join(out)


def run_decode_job(job):
    """job = dict(id, code, decoder, errors=[bit strings], contexts=[(em_spec, p)]) ->
    list of dict(syndrome, outcome, recovery digits, shape)"""
    from qecsim import paulitools as pt
    code = _code(job['code'])
    res = []
    try:
        decoder = make_decoder(job['decoder'])
    except Exception as e:  # noqa
        return {'id': job['id'], 'ctor_error': '%s: %s' % (type(e).__name__, e), 'results': []}
    stabs = code.stabilizers
    for es, (ems, p) in zip(job['errors'], job['contexts']):
        e = np.array([int(c) for c in es], dtype=int)
        s = pt.bsp(e, stabs.T)
        rec = {'syndrome': ''.join(map(str, s.tolist()))}
        try:
            em = make_error_model(ems)
            kw = {'error_model': em, 'error_probability': p}
            if job.get('app_context'):
                kw.update(error=e.copy(), step_errors=[e.copy()], measurement_error_probability=0.0,
                          step_measurement_errors=[np.zeros(s.shape, dtype=int)])
            signal.alarm(DECODE_TIMEOUT)
            try:
                r = decoder.decode(code, s.copy(), **kw)
            finally:
                signal.alarm(0)
            if r is None:
                rec['outcome'] = 'None'
            else:
                from qecsim.model import DecodeResult
                if isinstance(r, DecodeResult):
                    rec['decode_result'] = True
                    r = r.recovery
                a = np.asarray(r)
                rec['outcome'] = 'ok'
                rec['shape'] = list(a.shape)
                rec['dtype'] = str(a.dtype)
                rec['recovery'] = digits(a) if a.ndim == 1 and a.dtype != object else None
        except _Timeout:
            rec['outcome'] = 'ERR Timeout after %ds' % DECODE_TIMEOUT
        except MemoryError:
            rec['outcome'] = 'ERR MemoryError (cap %d GB)' % (MEM_CAP >> 30)
        except Exception as ex:  # noqa
            rec['outcome'] = 'ERR %s: %s' % (type(ex).__name__, str(ex)[:160])
        res.append(rec)
    return {'id': job['id'], 'results': res}


def job_loglevel(i):
    """logging configuration is part of the run configuration: every fourth pool job runs with the qecsim loggers at
    DEBUG (every guarded debug statement executes), the others with logging off.  VERIF_LOGLEVEL=DEBUG|CRITICAL forces
    one level (used to replay a case found at DEBUG)."""
    import logging
    forced = os.environ.get('VERIF_LOGLEVEL')
    if forced:
        return getattr(logging, forced)
    return logging.DEBUG if i % 4 == 3 else logging.CRITICAL


class _Leveled:
    def __init__(self, fn):
        self.fn = fn

    def __call__(self, ij):
        import logging
        i, job = ij
        lg = logging.getLogger('qecsim')
        lg.setLevel(job_loglevel(i))
        try:
            return self.fn(job)
        finally:
            lg.setLevel(logging.CRITICAL)


def run_pool(fn, jobs, procs=None):
    """run jobs in worker processes (fork), results in job order; job i runs at logging level job_loglevel(i)"""
    procs = procs or min(16, os.cpu_count() or 4)
    ctx = multiprocessing.get_context('fork')
    with ctx.Pool(procs, initializer=_init_worker) as pool:
        out = pool.map(_Leveled(fn), list(enumerate(jobs)), chunksize=1)
    return out


def chunks(seq, k):
    for i in range(0, len(seq), k):
        yield seq[i:i + k]


def family_codes(quick, families=('planar', 'toric', 'rotatedplanar', 'rotatedtoric', 'color666')):
    out = []
    for fam in families:
        for sz in sizes(fam, quick):
            out.append((fam, (fam, tuple(sz))))
    out.append(('basic', ('five', ())))
    out.append(('basic', ('steane', ())))
    return out


def model_parallel(ctx, engine, lines, prefix=(), nthreads=16, timeout=2400):
    """run a (possibly stateful) model engine on `lines` in parallel: the request list is cut into contiguous
    chunks, each chunk is preceded by the `prefix` lines (e.g. the `mat` definitions); replies in request order"""
    from concurrent.futures import ThreadPoolExecutor
    if not lines:
        return []
    k = max(1, min(nthreads * 4, len(lines) // 50 or 1))
    size = (len(lines) + k - 1) // k
    parts = [lines[i:i + size] for i in range(0, len(lines), size)]
    prefix = list(prefix)

    def one(part):
        return ctx.model(engine, prefix + part, timeout=timeout)[len(prefix):]
    with ThreadPoolExecutor(max_workers=nthreads) as ex:
        outs = list(ex.map(one, parts))
    return [o for part in outs for o in part]
