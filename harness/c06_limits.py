"""C06, stopping limits: the seeded stream of errors and the aggregate do not depend on WHICH limit stops a run.

One reference run with max_runs = M is observed run by run (recording wrappers around the error model's generate and
the decoder's decode / decode_ftp on fresh instances).  From the recorded step errors and decoder answers the per-run
data (success, logical commutations, custom values, error weight) are evaluated by independent code; the extracted
run-loop model (engine c04, App/RunLoop.v `run_loop`) folded over that per-run stream decides, for EVERY pair of
limits (max_runs, max_failures) - max_failures alone, max_runs alone, both, looser, tighter, neither - how many runs
are performed and what the aggregate is (theorems c06_prefix_extension, c06_same_runs_same_aggregate,
c06_cross_limit).  The implementation is then run with each of those limit pairs and the same seed:
  * its aggregate must be the model's                                   -> aggregate-depends-on-limits
  * its recorded error stream must be the prefix of the reference one   -> stream-depends-on-limits
  * runs that performed the same number of runs must return identical data (all fields except wall_time), whatever
    kind of limit stopped them (property evaluated directly)            -> same-runs-different-aggregate
  * repeating a call gives identical data                               -> not-reproducible
"""
import json

import numpy as np

from harness import c06_worker as W

IDEAL = [
    # (codes, decoders, error models)
    (['FiveQubitCode()', 'SteaneCode()'], ['NaiveDecoder()'], ['DepolarizingErrorModel()', 'BitFlipErrorModel()', 'PhaseFlipErrorModel()']),
    (['PlanarCode(3,3)', 'PlanarCode(2,4)', 'PlanarCode(4,4)', 'PlanarCode(2,2)'],
     ['PlanarMWPMDecoder()', 'PlanarCMWPMDecoder()', 'PlanarMPSDecoder(4)', 'PlanarRMPSDecoder(4)', 'PlanarMPSDecoder()'],
     ['DepolarizingErrorModel()', 'BitFlipErrorModel()', 'BiasedDepolarizingErrorModel(10, "Y")', 'BiasedYXErrorModel(3)']),
    (['PlanarCode(3,3)', 'PlanarCode(2,4)'], ['PlanarYDecoder()'], ['BitPhaseFlipErrorModel()']),
    (['ToricCode(3,3)', 'ToricCode(4,4)', 'ToricCode(2,4)'], ['ToricMWPMDecoder()'], ['DepolarizingErrorModel()', 'BitFlipErrorModel()']),
    (['RotatedPlanarCode(3,3)', 'RotatedPlanarCode(3,5)'], ['RotatedPlanarSMWPMDecoder()', 'RotatedPlanarMPSDecoder(4)', 'RotatedPlanarRMPSDecoder(4)'],
     ['DepolarizingErrorModel()', 'BiasedDepolarizingErrorModel(10, "Y")']),
    (['RotatedToricCode(2,2)', 'RotatedToricCode(4,4)'], ['RotatedToricSMWPMDecoder()'], ['DepolarizingErrorModel()', 'BiasedDepolarizingErrorModel(10, "Y")']),
    (['Color666Code(3)'], ['Color666MPSDecoder(4)'], ['DepolarizingErrorModel()', 'BitFlipErrorModel()']),
]
FTP = [
    (['RotatedPlanarCode(3,3)', 'RotatedPlanarCode(3,4)'], ['RotatedPlanarSMWPMDecoder()'],
     ['BitPhaseFlipErrorModel()', 'DepolarizingErrorModel()', 'BiasedDepolarizingErrorModel(10, "Y")']),
    (['RotatedToricCode(2,2)', 'RotatedToricCode(2,4)', 'RotatedToricCode(4,4)'], ['RotatedToricSMWPMDecoder()'],
     ['BitPhaseFlipErrorModel()', 'DepolarizingErrorModel()']),
]


def ints(a):
    if a is None:
        return '_'
    a = [int(v) for v in a]
    return ','.join(map(str, a)) if a else '-'


def recorders(ns, em_expr, dec_expr):
    """fresh error model and decoder instances (isinstance checks inside decoders keep working) whose generate /
    decode / decode_ftp record what they return, as it was when it was returned"""
    em, dec = eval(em_expr, dict(ns)), eval(dec_expr, dict(ns))
    elog, dlog = [], []
    gen, decode = em.generate, dec.decode
    decode_ftp = getattr(dec, 'decode_ftp', None)

    def canon(r):
        if hasattr(r, 'recovery'):      # DecodeResult
            return {'success': r.success, 'recovery': None if r.recovery is None else np.array(r.recovery).copy(),
                    'lc': None if r.logical_commutations is None else [int(x) for x in r.logical_commutations],
                    'cv': None if r.custom_values is None else [int(x) for x in r.custom_values]}
        return {'success': None, 'recovery': np.array(r).copy(), 'lc': None, 'cv': None}

    def generate(code, probability, rng=None):
        e = gen(code, probability, rng)
        elog.append(W.bitstr(e))
        return e

    depth = [0]       # a decoder's decode may call its own decode_ftp: record the outermost answer only

    def rec_decode(*a, **kw):
        depth[0] += 1
        try:
            r = decode(*a, **kw)
        finally:
            depth[0] -= 1
        if not depth[0]:
            dlog.append(canon(r))
        return r

    def rec_decode_ftp(*a, **kw):
        depth[0] += 1
        try:
            r = decode_ftp(*a, **kw)
        finally:
            depth[0] -= 1
        if not depth[0]:
            dlog.append(canon(r))
        return r
    em.generate = generate
    dec.decode = rec_decode
    if decode_ftp is not None:
        dec.decode_ftp = rec_decode_ftp
    return em, dec, elog, dlog


def per_run(code, T, elog, dlog):
    """the per-run data of app._run_once, evaluated independently from the recorded step errors and decoder answers"""
    from qecsim import paulitools as pt
    n = code.n_k_d[0]
    outs = []
    for i, d in enumerate(dlog):
        steps = [W.bits(s) for s in elog[i * T:(i + 1) * T]]
        err = np.zeros(2 * n, dtype=int)
        w = 0
        for e in steps:
            err ^= e
            w += int(np.count_nonzero(e[:n] | e[n:]))
        su, lc = d['success'], d['lc']
        if d['recovery'] is not None:
            rec = d['recovery'] ^ err
            ok_s = not pt.bsp(rec, code.stabilizers.T).any()
            rlc = [int(x) for x in pt.bsp(rec, code.logicals.T)]
            su = (ok_s and not any(rlc)) if su is None else su
            lc = rlc if lc is None else lc
        outs.append((bool(su), lc, d['cv'], w))
    return outs


def core(data):
    return 'done %d %d %d %s %s %d' % (data['n_run'], data['n_success'], data['n_fail'], ints(data['n_logical_commutations']),
                                       ints(data['custom_totals']), data['error_weight_total'])


def strip(data):
    return json.dumps({k: v for k, v in data.items() if k != 'wall_time'}, sort_keys=True, default=repr)


def limits_block(ctx, get, nconf, M):
    from qecsim import app
    rng = ctx.rng
    ns = W.namespace()
    pending = []            # (model request, impl core string, replay dict)
    for ci in range(nconf):
        if rng.random() < 0.3:
            codes, decs, ems = rng.choice(FTP)
            T, q = rng.randint(1, 3), rng.choice([None, 0.0, 0.1])
        else:
            codes, decs, ems = rng.choice(IDEAL)
            T, q = None, None
        cexpr, dexpr, eexpr = rng.choice(codes), rng.choice(decs), rng.choice(ems)
        if dexpr == 'PlanarMPSDecoder()' and cexpr == 'PlanarCode(4,4)':
            cexpr = 'PlanarCode(2,2)'
        code = get(cexpr)
        seed = rng.choice([0, 1, rng.randint(2, 99), rng.randint(100, 2 ** 32 - 1)])      # 0: falsy but valid
        p = rng.choice([0.15, 0.25, 0.4])
        base = {'code': cexpr, 'decoder': dexpr, 'error_model': eexpr, 'p': p, 'seed': seed, 'T': T, 'q': q}

        def go(mr, mf, want_dlog=False):
            em, dec, elog, dlog = recorders(ns, eexpr, dexpr)
            W.ambient({}, dec, em)      # documented coin toss pinned; otherwise another global-generator state per call
            kw = dict(max_runs=mr, max_failures=mf, random_seed=seed)
            if T:
                d = app.run_ftp(code, T, em, dec, p, q, **kw)
            else:
                d = app.run(code, em, dec, p, **kw)
            return d, elog, dlog
        # ---- reference: M runs, observed run by run
        dl, elong, dlong = go(M, None)
        outs = per_run(code, T or 1, elong, dlong)
        if len(outs) != M or len(elong) != M * (T or 1):
            ctx.violation('run-count', 'max_runs = M did not perform M runs', dict(base, limits=[M, None], n_run=dl['n_run'],
                                                                                   decoder_calls=len(outs), generate_calls=len(elong)))
            continue
        fails = [i for i, o in enumerate(outs) if not o[0]]
        pairs = [(M, None), (None, None), (rng.randint(1, M - 1), None)]
        N = None
        if fails:
            f = rng.randint(1, min(len(fails), 3))
            N = fails[f - 1] + 1                        # the run at which the f-th failure occurs
            d = rng.randint(1, 3)
            pairs += [(None, f), (N, None), (N, f), (N + d, f), (N, f + d), (min(M, N + d), None)]
            if f > 1:
                pairs.append((None, rng.randint(1, f - 1)))
                pairs.append((N, f - 1))
            if N > 1:
                pairs.append((N - 1, f))
        else:
            pairs += [(rng.randint(1, M), len(outs) + 1)]
        hs = ';'.join('%d:%s:%s:%d' % (1 if s else 0, ints(lc), ints(cv), w) for (s, lc, cv, w) in outs)
        by_n = {}
        for j, (mr, mf) in enumerate(pairs):
            if j == 0:
                data, elog = dl, elong
            else:
                data, elog, _ = go(mr, mf)
            rep = dict(base, limits=[mr, mf], reference_limits=[M, None], n_run=data['n_run'],
                       result={k: (v if isinstance(v, (int, float, str, tuple, type(None), bool)) else repr(v))
                               for k, v in data.items() if k != 'wall_time'},
                       reference_per_run=[(s, lc, cv, w) for (s, lc, cv, w) in outs])
            cross = mf is not None and (mr is None or (N is not None and mr >= N))
            ctx.count(('limits', ci, mr, mf), fails != [] and j > 0, 'limits-ftp' if T else 'limits',
                      {k: v for k, v in rep.items() if k != 'reference_per_run'} if (cross and ci < 2 and mr is None) else None)
            k = data['n_run']
            if elog != elong[:len(elog)] or len(elog) != k * (T or 1):
                first = next((i for i, (a, b) in enumerate(zip(elog, elong)) if a != b), min(len(elog), len(elong)))
                ctx.violation('stream-depends-on-limits', 'with the same seed the generated errors differ from those of the '
                              'reference run with other stopping limits', dict(rep, first_differing_generate_call=first,
                                                                              generated=elog[:first + 1][-3:], reference=elong[:first + 1][-3:]))
            pending.append(('run %s %s %d %d %s' % ('_' if mr is None else mr, '_' if mf is None else mf, code.n_k_d[0], T or 1, hs),
                            core(data), rep))
            by_n.setdefault(k, []).append(((mr, mf), strip(data)))
        for k, lst in by_n.items():
            for (lim, s) in lst[1:]:
                if s != lst[0][1]:
                    ctx.violation('same-runs-different-aggregate', 'two seeded runs that performed the same number of runs returned '
                                  'different data: the aggregate depends on which limit stopped the run',
                                  dict(base, n_run=k, limits_a=list(lst[0][0]), data_a=lst[0][1][:600], limits_b=list(lim), data_b=s[:600]))
        # repeating the same call gives identical data
        mr, mf = rng.choice(pairs)
        a, b = go(mr, mf)[0], go(mr, mf)[0]
        if strip(a) != strip(b):
            ctx.violation('not-reproducible', 'repeating a seeded run in the same process gives different data',
                          dict(base, limits=[mr, mf], first=strip(a)[:600], second=strip(b)[:600]))
    # ---- the extracted run loop decides every limit pair from the reference per-run stream
    out = ctx.model('c04', [r for r, _, _ in pending])
    for (req, impl, rep), m in zip(pending, out):
        toks = m.split(' ')
        if toks[0] != 'done':
            if m != 'OUTOFFUEL':        # (out of fuel: the limits are not reached within the reference run - undecided)
                ctx.cmp('run aggregate under limits', req[:300], impl, m)
            continue
        want = ' '.join(toks[:7])
        if impl != want:
            ctx.violation('aggregate-depends-on-limits', 'the aggregate of a seeded run is not the run loop folded over the per-run '
                          'data of the reference run with the same seed (other stopping limits)', dict(rep, model_expects=want, implementation=impl))
    ctx.extra['limit_pairs_decided_by_model'] = len(pending)


def replay(rp):
    """re-execute a limits violation: the same seeded configuration under both limit pairs, error streams and data"""
    from qecsim import app
    ns = W.namespace()
    code = eval(rp['code'], dict(ns))
    T = rp.get('T')
    pairs = [rp['limits_a'], rp['limits_b']] if 'limits_a' in rp else [rp.get('reference_limits', rp['limits']), rp['limits']]
    got = []
    for mr, mf in pairs:
        em, dec, elog, _ = recorders(ns, rp['error_model'], rp['decoder'])
        W.ambient({}, dec, em)
        kw = dict(max_runs=mr, max_failures=mf, random_seed=rp['seed'])
        d = app.run_ftp(code, T, em, dec, rp['p'], rp.get('q'), **kw) if T else app.run(code, em, dec, rp['p'], **kw)
        print('limits', (mr, mf), '->', strip(d)[:500])
        print('   generated:', elog[:6], '...' if len(elog) > 6 else '')
        got.append((d, elog))
    (da, ea), (db, eb) = got
    k = min(len(ea), len(eb))
    if ea[:k] != eb[:k]:
        print('error streams differ')
        return 1
    if da['n_run'] == db['n_run'] and strip(da) != strip(db):
        print('same number of runs, different data')
        return 1
    return 0
