"""C01, second part — OPERATION HISTORIES WITH COLLABORATOR-OWNED OBJECTS.

The first part (harness/c01.py) makes one call per fresh set of proxies.  Here one decoder, one error model and one
rng proxy live through a whole history of runs (a sequence of run_once / run_once_ftp calls, or one app.run /
app.run_ftp loop), and they behave like real memoising / look-up-table components:

* the decoder keeps a table keyed by the syndrome it receives and hands back THE VERY SAME object whenever the
  syndrome repeats (the same DecodeResult instance, or a fresh DecodeResult around the same recovery / logical
  commutation / custom value arrays, or the same bare recovery array);
* the error model and the rng hand out the same array object whenever the same error / flip row recurs;
* the histories are built so that syndromes DO repeat while the right verdict changes: the errors of a history are
  a few base errors multiplied by products of stabilizers (same syndrome, same verdict) and by products of logical
  operators (same syndrome, different verdict); in fault-tolerant mode the deltas are applied to single steps, and
  with one time step the flips vary freely (they cancel);
* results are collected for the whole history and canonicalised again at its end (a result must not change because
  of later runs), or the caller scribbles over every array the app created for it (resolved logical_commutations)
  right after reading it;
* after every run all objects owned by the proxies are audited: fields the decoder left None are still None, arrays
  are the same objects and bit-identical to their pristine copies.

Expected values: every run is sent to the extracted model (App/RunOnce.run_once_model) with the answer as the decoder
specified it (pristine copy), and the property is evaluated directly at letter level; loop aggregates are the sums of
the per-run model / direct values (App/RunHistory.v proves what a history of runs with a table decoder must return).
"""
import numpy as np

from harness.common import bitstr, rowsstr, exc_class
from harness.proxies import UserCode
from harness.c20 import random_valid, anti


def ints(a):
    if a is None:
        return '_'
    a = [int(v) for v in a]
    return ','.join(map(str, a)) if a else '-'


class Owned:
    """a pool of arrays handed out without copying; equal content -> the same object; pristine copies kept"""

    def __init__(self, share):
        self.share = share
        self.pool = {}

    def get(self, arr):
        arr = np.array(arr, dtype=int)
        if not self.share:
            return arr.copy()
        key = (arr.shape, arr.tobytes())
        if key not in self.pool:
            self.pool[key] = (arr.copy(), arr.copy())
        return self.pool[key][0]

    def audit(self):
        return ['array %s became %s' % (bitstr(p), bitstr(o)) for o, p in self.pool.values()
                if o.shape != p.shape or o.dtype != p.dtype or not np.array_equal(o, p)]


def make_proxies():
    from qecsim.model import ErrorModel, Decoder, DecoderFTP, DecodeResult
    from qecsim.error import QecsimError  # noqa

    class OwnErrorModel(ErrorModel):
        def __init__(self, errors, share):
            self.owned = Owned(share)
            self.errors = [self.owned.get(e) for e in errors]
            self.calls = []

        def generate(self, code, probability, rng=None):
            i = len(self.calls)
            self.calls.append((code, probability, rng))
            return self.errors[i % len(self.errors)]

        def probability_distribution(self, probability):
            return (1 - probability, probability / 3, probability / 3, probability / 3)

        @property
        def label(self):
            return 'own-errors'

        def __repr__(self):
            return 'OwnErrorModel()'

    class OwnRng:
        def __init__(self, rows, share):
            self.owned = Owned(share)
            self.rows = [self.owned.get(r) for r in rows]
            self.calls = []

        def choice(self, a, size=None, p=None, **kw):
            i = len(self.calls)
            self.calls.append((tuple(a), size, tuple(p) if p is not None else None))
            return self.rows[i % len(self.rows)]

        def random(self, *a, **k):
            raise AssertionError('scripted rng: unexpected random()')

    class Entry:
        """one table row of the decoder: the pristine specification and the owned objects built from it"""

        def __init__(self, spec, share):
            self.spec, self.share, self.hits = spec, share, 0
            self.rec = np.array(spec['rec'], dtype=int) if spec['pat'][2] else None
            self.lc = np.array(spec['lc'], dtype=int) if spec['pat'][1] else None
            self.cv = np.array(spec['cv'], dtype=int) if spec['pat'][3] else None
            self.su = spec['su'] if spec['pat'][0] else None
            self.obj = None
            if spec['kind'] == 'D' and share == 'same-object' and not (self.su is None and self.rec is None):
                self.obj = DecodeResult(self.su, self.lc, self.rec, self.cv)

        def give(self):
            self.hits += 1
            k = self.spec['kind']
            if k == 'N':
                return None
            if k == 'B':
                return self.rec.copy() if self.share == 'fresh' else self.rec
            if self.obj is not None:
                return self.obj
            if self.share == 'fresh':
                cp = lambda a: None if a is None else a.copy()  # noqa
                return DecodeResult(self.su, cp(self.lc), cp(self.rec), cp(self.cv))
            return DecodeResult(self.su, self.lc, self.rec, self.cv)  # raises QecsimError if nothing is specified

        def audit(self):
            bad = []
            sp = self.spec
            for name, arr, want, on in (('recovery', self.rec, sp['rec'], sp['pat'][2]),
                                        ('logical_commutations', self.lc, sp['lc'], sp['pat'][1]),
                                        ('custom_values', self.cv, sp['cv'], sp['pat'][3])):
                if on and (arr.dtype != np.array(want, dtype=int).dtype or arr.shape != (len(want),)
                           or [int(v) for v in arr] != [int(v) for v in want]):
                    bad.append('owned %s array %s became %s' % (name, ints(want), ints(arr.ravel())))
            o = self.obj
            if o is not None:
                if not (o.success is None if self.su is None else (type(o.success) is bool and o.success == self.su)):
                    bad.append('DecodeResult.success %r became %r' % (self.su, o.success))
                for name, arr in (('logical_commutations', self.lc), ('recovery', self.rec), ('custom_values', self.cv)):
                    if getattr(o, name) is not arr:
                        bad.append('DecodeResult.%s %s became %r' % (name, 'None' if arr is None else 'array', getattr(o, name)))
            return bad

    class TableDecoder(Decoder, DecoderFTP):
        """look-up-table decoder: answer specified on first sight of a syndrome, the same objects afterwards"""

        def __init__(self, make_spec, share):
            self.make_spec, self.share = make_spec, share
            self.table, self.order, self.calls = {}, [], []

        def _answer(self, kind, code, time_steps, syndrome, kwargs):
            syn = np.array(syndrome).copy()
            key = (syn.shape, syn.astype(np.uint8).tobytes())
            ent = self.table.get(key)
            hit = ent is not None
            if ent is None:
                ent = Entry(self.make_spec(syn, kwargs), self.share)
                self.table[key] = ent
                self.order.append(key)
            self.calls.append({'kind': kind, 'code': code, 'time_steps': time_steps, 'syndrome': syn,
                               'pre_audit': self.audit(),  # what the previous runs left behind
                               'error': np.array(kwargs.get('error')).copy() if kwargs.get('error') is not None else None,
                               'entry': ent, 'hit': hit})
            return ent.give()

        def decode(self, code, syndrome, **kwargs):
            return self._answer('decode', code, None, syndrome, kwargs)

        def decode_ftp(self, code, time_steps, syndrome, **kwargs):
            return self._answer('decode_ftp', code, time_steps, syndrome, kwargs)

        def audit(self):
            return [b for k in self.order for b in self.table[k].audit()]

        @property
        def label(self):
            return 'table-decoder'

        def __repr__(self):
            return 'TableDecoder()'

    return OwnErrorModel, OwnRng, TableDecoder


def aenc_of(spec):
    if spec['kind'] == 'N':
        return 'B:_'
    if spec['kind'] == 'B':
        return 'B:' + bitstr(spec['rec'])
    pat = spec['pat']
    return 'D:%s:%s:%s:%s' % (('1' if spec['su'] else '0') if pat[0] else '_', ints(spec['lc']) if pat[1] else '_',
                              bitstr(spec['rec']) if pat[2] else '_', ints(spec['cv']) if pat[3] else '_')


def want_of(spec, S, X, Z, errs, n):
    """the property, evaluated directly: 'su lc cv weight' or ERR (letter-level commutation)"""
    if spec['kind'] == 'N':
        return 'ERR QecsimError'
    pat = spec['pat']
    su = spec['su'] if pat[0] else None
    lc = list(spec['lc']) if pat[1] else None
    cv = list(spec['cv']) if pat[3] else None
    if su is None and not pat[2]:
        return 'ERR QecsimError'
    if pat[2]:
        tot = np.bitwise_xor.reduce(np.array(errs), axis=0)
        rec_ = np.array(spec['rec'], dtype=int) ^ tot
        cs = all(anti(rec_, s) == 0 for s in S)
        rl = [anti(rec_, l) for l in list(X) + list(Z)]
        if su is None:
            su = cs and not any(rl)
        if lc is None:
            lc = rl
    wt = sum(sum(1 for i in range(n) if e[i] or e[n + i]) for e in errs)
    return '%s %s %s %d' % ('1' if su else '0', ints(lc), ints(cv), wt)


def data_str(data):
    return '%s %s %s %d' % ('1' if data['success'] else '0', ints(data['logical_commutations']),
                            ints(data['custom_values']), int(data['error_weight']))


def agg(strs):
    """sum per-run 'su lc cv wt' strings the way a run loop must: 'n ns nf lcsum cvsum wtot'"""
    ns = nf = wt = 0
    lcs = cvs = 'unset'
    for s in strs:
        if s.startswith('ERR'):
            return s
        su, lc, cv, w = s.split(' ')
        ns += su == '1'
        nf += su != '1'
        wt += int(w)
        out = []
        for acc, v in ((lcs, lc), (cvs, cv)):
            val = None if v == '_' else ([] if v == '-' else [int(x) for x in v.split(',')])
            if acc == 'unset':
                acc = val
            elif (acc is None) != (val is None) or (acc is not None and len(acc) != len(val)):
                return 'ERR QecsimError'
            elif acc is not None:
                acc = [a + b for a, b in zip(acc, val)]
            out.append(acc)
        lcs, cvs = out
    return '%d %d %d %s %s %d' % (len(strs), ns, nf, ints(lcs), ints(cvs), wt)


def run_histories(ctx, lib, kern):
    from qecsim import app
    from qecsim.error import QecsimError
    rng = ctx.rng
    OwnErrorModel, OwnRng, TableDecoder = make_proxies()
    nmax = ctx.pick(8, 16)
    Tmax = ctx.pick(4, 8)
    req, post, samples = [], [], []
    nkern = 0

    def rand_err(n, kind):
        if kind == 0:
            return np.zeros(2 * n, dtype=int)
        if kind == 1:
            e = np.zeros(2 * n, dtype=int)
            for _ in range(rng.randint(1, 2)):
                q = rng.randrange(n)
                p = rng.randint(1, 3)
                e[q] ^= p & 1
                e[n + q] ^= (p >> 1) & 1
            return e
        return np.array([rng.randint(0, 1) for _ in range(2 * n)])

    def product(rows, nonempty):
        rows = list(rows)
        sel = [r for r in rows if rng.random() < 0.5]
        if nonempty and not sel:
            sel = [rng.choice(rows)]
        out = np.zeros(len(rows[0]), dtype=int)
        for r in sel:
            out = out ^ r
        return out

    for h in range(ctx.pick(260, 2600)):
        r = rng.random()
        if r < 0.45:
            code = rng.choice(lib)
        elif r < 0.8:
            n_ = rng.randint(2, nmax)
            code = UserCode(*random_valid(rng, n_, rng.randint(1, min(3, n_ - 1))))
        else:
            n_ = rng.randint(1, nmax)
            ns, k_ = rng.randint(1, n_ + 1), rng.randint(1, 3)
            rb = lambda r_: np.array([[rng.randint(0, 1) for _ in range(2 * n_)] for _ in range(r_)])  # noqa
            code = UserCode(rb(ns), rb(k_), rb(k_))
        S, X, Z = code.stabilizers, code.logical_xs, code.logical_zs
        n, m, nl = S.shape[1] // 2, S.shape[0], len(X) + len(Z)
        api = rng.choice(['seq', 'seq', 'loop'])
        ftp = rng.random() < 0.5
        T = rng.randint(1, Tmax) if ftp else 1
        K = rng.randint(3, 7)
        p = rng.choice([0.0, 0.25, 0.5, 1.0, 0.125])
        if not ftp:
            qsel = 'ideal'
        elif api == 'loop':  # the loop draws flips from its own generator: only where they are absent or cancel
            qsel = rng.choice(['zero'] + (['none'] if (T == 1 or p == 0.0) else []) + (['pos', 'one'] if T == 1 else []))
        else:
            qsel = rng.choice(['none', 'zero', 'pos', 'one'])
        q = {'none': None, 'zero': 0.0, 'pos': rng.choice([0.25, 0.5, 0.75]), 'one': 1.0, 'ideal': None}[qsel]
        q_eff = (0.0 if T == 1 else p) if (ftp and q is None) else (q if ftp else 0.0)
        q_truthy = bool(q_eff)
        share = rng.choice(['same-object'] * 3 + ['same-arrays', 'fresh'])
        em_share = rng.random() < 0.6
        # ---- the history: base situations times stabilizer / logical deltas
        bases = []
        for _ in range(rng.randint(1, 2)):
            be = [rand_err(n, rng.choice([0, 1, 1, 2])) for _ in range(T)]
            bf = []
            for t in range(T):
                kk = rng.choice([0, 0, 1, 2])
                f = np.zeros(m, dtype=int)
                if kk == 1:
                    f[rng.randrange(m)] = 1
                elif kk == 2:
                    f = np.array([rng.randint(0, 1) for _ in range(m)])
                bf.append(f)
            bases.append((be, bf))
        runs = []
        for i in range(K):
            be, bf = rng.choice(bases)
            errs = [e.copy() for e in be]
            for t in range(T):
                if rng.random() < 0.4:
                    errs[t] = errs[t] ^ product(S, False)
            delta = 'stab'
            if rng.random() < 0.55:
                t = rng.randrange(T)
                errs[t] = errs[t] ^ product(list(X) + list(Z), True)
                delta = 'logical'
            flips = [f.copy() for f in bf]
            if T == 1 and rng.random() < 0.5:  # a single step's flips cancel: any row gives the same syndrome
                flips = [np.array([rng.randint(0, 1) for _ in range(m)])]
            runs.append({'errs': errs, 'flips': flips, 'delta': delta})
        # ---- the decoder's policy on first sight of a syndrome
        loop_cv = rng.choice([None, rng.randint(0, 3)])  # loops need summable answers: fixed shapes, recovery given

        def make_spec(syn, kwargs, n=n, nl=nl, api=api, loop_cv=loop_cv):
            first_error = np.array(kwargs['error']).copy()
            recs = [first_error, first_error, rand_err(n, 1), rand_err(n, 2), first_error ^ rand_err(n, 1)]
            sh = rng.randrange(6)
            if api == 'loop':
                pat = (rng.random() < 0.3, rng.random() < 0.3, True, loop_cv is not None)
                return {'kind': 'D' if (sh >= 2 or pat[3]) else 'B', 'pat': pat if (sh >= 2 or pat[3]) else (False, False, True, False),
                        'su': rng.random() < 0.5, 'lc': [rng.randint(-2, 5) for _ in range(nl)],
                        'rec': [int(v) for v in rng.choice(recs)],
                        'cv': [rng.randint(-3, 9) for _ in range(loop_cv or 0)]}
            if sh <= 1:
                return {'kind': 'B', 'pat': (False, False, True, False), 'su': False, 'lc': [], 'cv': [],
                        'rec': [int(v) for v in rng.choice(recs)]}
            if sh == 2 and rng.random() < 0.2:
                return {'kind': 'N', 'pat': (False, False, False, False), 'su': False, 'lc': [], 'cv': [], 'rec': []}
            pat = (rng.random() < 0.4, rng.random() < 0.4, rng.random() < 0.85, rng.random() < 0.5)
            return {'kind': 'D', 'pat': pat, 'su': rng.random() < 0.5,
                    'lc': [rng.randint(-2, 5) for _ in range(rng.choice([nl, nl, rng.randint(0, 4)]))],
                    'rec': [int(v) for v in rng.choice(recs)], 'cv': [rng.randint(-3, 9) for _ in range(rng.randint(0, 3))]}

        all_errs = [e for r_ in runs for e in r_['errs']]
        all_flips = [f for r_ in runs for f in r_['flips']]
        em = OwnErrorModel(all_errs, em_share)
        srng = OwnRng(all_flips, em_share)
        dec = TableDecoder(make_spec, share)
        mode = 'collect' if rng.random() < 0.5 else 'scribble'
        zeros = [np.zeros(m, dtype=int)] * T
        base_rep = {'code': repr(code), 'S': rowsstr(S), 'X': rowsstr(X), 'Z': rowsstr(Z), 'api': api,
                    'mode': 'ftp' if ftp else 'ideal', 'T': T, 'p': p, 'q': q, 'decoder_shares': share,
                    'error_model_shares': em_share, 'caller': mode, 'runs': K}

        def history_rep(upto=None):
            out = []
            for i, r_ in enumerate(runs):
                c = dec.calls[i] if i < len(dec.calls) else None
                out.append({'errors': rowsstr(r_['errs']), 'flips': rowsstr(r_['flips']), 'delta': r_['delta'],
                            'answer': aenc_of(c['entry'].spec) if c else None,
                            'syndrome_repeated': c['hit'] if c else None,
                            'impl': r_.get('impl'), 'want': r_.get('want')})
            return dict(base_rep, history=out, failing_run=upto)

        def audits(i):
            bad = dec.audit()
            if i is None:  # a loop: the decoder audited its table at every call; report the first run that left damage
                for j, c in enumerate(dec.calls):
                    if c['pre_audit']:
                        bad, i = c['pre_audit'], j - 1
                        break
            if bad:
                ctx.violation('decoder-object-modified', 'the app modified an object owned by the decoder: ' + '; '.join(bad[:3]),
                              history_rep(i))
            bad = em.owned.audit() + srng.owned.audit()
            if bad:
                ctx.violation('generator-object-modified', 'the app modified an array owned by the error model / rng: '
                              + '; '.join(bad[:3]), history_rep(i))
            return not bad

        def check_call(i):
            """what the decoder saw in run i (syndrome, total error)"""
            r_ = runs[i]
            if i >= len(dec.calls):
                ctx.violation('decoder-not-called', 'decoder was not called in run %d of the history' % i, history_rep(i))
                return None
            c = dec.calls[i]
            used = r_['flips'] if (q_truthy and api == 'seq') else zeros  # loop: flips absent or cancelling (T = 1)
            want_rows = np.array([used[(t - 1) % T] ^ np.array([anti(r_['errs'][t], s) for s in S]) ^ used[t]
                                  for t in range(T)])
            syn = c['syndrome'] if ftp else (c['syndrome'][None, :] if c['syndrome'].ndim == 1 else None)
            r_['syn'] = rowsstr(syn) if syn is not None else 'NOSYN'
            if syn is None or not np.array_equal(want_rows, syn):
                ctx.violation('syndrome', 'run %d of a history: decoder syndrome is not the (flip-composed) syndrome of '
                              'the errors' % i, history_rep(i))
            tot = np.bitwise_xor.reduce(np.array(r_['errs']), axis=0)
            if c['error'] is None or not np.array_equal(c['error'], tot):
                ctx.violation('context', 'run %d of a history: decoder context error is not the XOR of the step errors' % i,
                              history_rep(i))
            if ftp and c['time_steps'] != T:
                ctx.violation('context', 'decode_ftp got wrong time_steps', history_rep(i))
            spec = c['entry'].spec
            r_['aenc'] = aenc_of(spec)
            r_['want'] = want_of(spec, S, X, Z, r_['errs'], n)
            r_['line'] = 'run_once %s %s %s %s %s %s %s' % (
                rowsstr(S), rowsstr(X), rowsstr(Z), rowsstr(r_['errs']), rowsstr(r_['flips'] if api == 'seq' else zeros),
                '1' if (q_truthy and api == 'seq') else '0', r_['aenc'])
            nontriv = c['hit'] and any(e.any() for e in r_['errs'])
            sample = None
            if c['hit'] and len(samples) < 3 and h % 40 == 3:
                sample = {'history': api, 'mode': 'ftp' if ftp else 'ideal', 'T': T, 'n': n, 'decoder_shares': share,
                          'run': i, 'syndrome_repeated': c['hit'], 'delta': r_['delta'], 'answer': r_['aenc'][:60],
                          'want': r_['want']}
                samples.append(sample)
            ctx.count(r_['line'] + '#%d' % c['entry'].hits, nontriv,
                      'history/%s/%s/%s/%s' % (api, 'ftp' if ftp else 'ideal', share, 'repeat' if c['hit'] else 'first'),
                      sample)
            return c

        if api == 'seq':
            kept = []
            for i, r_ in enumerate(runs):
                try:
                    data = app.run_once_ftp(code, T, em, dec, p, q, srng) if ftp else app.run_once(code, em, dec, p, srng)
                    res = data_str(data)
                except QecsimError:
                    data, res = None, 'ERR QecsimError'
                except Exception as e:  # noqa
                    data, res = None, 'ERR ' + exc_class(e)
                r_['res'] = res
                c = check_call(i)
                if c is None:
                    break
                r_['impl'] = '%s %s' % (r_['syn'], res)
                if res != r_['want']:
                    ctx.violation('verdict', 'run %d of a history with a table decoder (%s, syndrome %s): returned data is '
                                  'not what this run\'s error and the decoder\'s answer imply'
                                  % (i, share, 'seen before' if c['hit'] else 'new'), history_rep(i))
                if data is not None and type(data['success']) is not bool:
                    ctx.violation('success-type', 'success is not a bool', history_rep(i))
                if len(em.calls) != (i + 1) * T or (q_truthy and len(srng.calls) != (i + 1) * T) or \
                        (not q_truthy and srng.calls):
                    ctx.violation('generate-calls', 'run %d of a history: error model / rng not called once per step' % i,
                                  history_rep(i))
                audits(i)
                spec = c['entry'].spec
                if data is not None:
                    if mode == 'collect':
                        kept.append((i, data, res))
                    elif spec['pat'][2] and not spec['pat'][1] and isinstance(data['logical_commutations'], np.ndarray):
                        # resolved by the app for this caller: the caller may do with it what it likes
                        data['logical_commutations'][...] = 7
                req.append(r_['line'])
                post.append(('run', 'history run_once_ftp' if ftp else 'history run_once', r_['line'], r_['impl']))
                if nkern < 24 and n <= 8 and c['hit'] and h % 3 == 0:
                    nkern += 1
                    kern.append((S, X, Z, r_['errs'], r_['flips'], q_truthy, r_['aenc'], r_['impl']))
            for i, data, res in kept:
                if data_str(data) != res:
                    ctx.violation('result-changed-later', 'the data returned by run %d changed during later runs (%s -> %s)'
                                  % (i, res, data_str(data)), history_rep(i))
        else:
            seed = rng.randrange(2 ** 31)
            try:
                rd = app.run_ftp(code, T, em, dec, p, q, max_runs=K, random_seed=seed) if ftp else \
                    app.run(code, em, dec, p, max_runs=K, random_seed=seed)
                got = '%d %d %d %s %s %d' % (rd['n_run'], rd['n_success'], rd['n_fail'], ints(rd['n_logical_commutations']),
                                             ints(rd['custom_totals']), int(rd['error_weight_total']))
            except QecsimError:
                got = 'ERR QecsimError'
            except Exception as e:  # noqa
                got = 'ERR ' + exc_class(e)
            ok = True
            for i in range(K):
                if check_call(i) is None:
                    ok = False
                    break
            audits(None)
            if ok:
                want = agg([r_['want'] for r_ in runs])
                base_rep['loop_result'], base_rep['loop_want'] = got, want
                if len(dec.calls) != K or got != want:
                    ctx.violation('verdict-loop', 'app.%s over a scripted history with a table decoder (%s): the aggregated '
                                  'verdicts are not the sum of what each run\'s error and answer imply'
                                  % ('run_ftp' if ftp else 'run', share), history_rep(None))
                i0 = len(req)
                req.extend(r_['line'] for r_ in runs)
                post.append(('loop', 'history run_ftp' if ftp else 'history run', (i0, K, [r_['syn'] for r_ in runs]), got))

    out = ctx.model('c01', req)
    j = 0
    for kind, fn, a, impl in post:
        if kind == 'run':
            ctx.cmp(fn, a[:800], impl, out[j])
            j += 1
        else:
            i0, K, syns = a
            ms = out[i0:i0 + K]
            j = i0 + K
            for line, s, mo in zip(req[i0:i0 + K], syns, ms):
                ctx.cmp(fn + ' syndrome', line[:800], s, mo.split(' ', 1)[0])
            ctx.cmp(fn + ' aggregate', ' | '.join(req[i0:i0 + K])[:1500], impl, agg([mo.split(' ', 1)[1] for mo in ms]))
    ctx.extra['history_runs'] = len(req)
    ctx.extra['history_samples'] = samples
