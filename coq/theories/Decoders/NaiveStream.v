(* Decoders/NaiveStream.v — ONE decoder object serving a stream of (code, syndrome) items.

   NaiveDecoder keeps no state between calls besides max_qubits (generic/_naivedecoder.py:26-58), so the model of an
   object decoding a stream is the item-wise map of naive_decode: the answer to an item does not depend on what the
   object decoded before (other codes with the same n_k_d, the same label, the same syndrome bits).  This is what the
   harness checks on the implementation (harness/c02_reuse.py: every item of every stream against naive_decode of the
   item alone, and against the verified checker).

   Second part: which look-up tables would keep that true.  A decoder that remembers resolved recoveries in a table is
   equal to the stateless one for EVERY stream when the key determines the answer (memo_stream_plain); the hypothesis
   cannot be dropped: keyed by (n, syndrome bits) two different 5-qubit codes get each other's recoveries
   (memo_by_n_and_syndrome_wrong). *)
From Coq Require Import Arith List Bool Lia.
From QV Require Import Core.Bits Core.Pauli Core.Symp Core.Enum Core.Span Decoders.Naive.
Import ListNotations.

Definition item := (list bsf * nat * bsf)%type.      (* stabilizers of the code, its n, the syndrome *)
Definition decode_item (mq : option nat) (it : item) : nresult :=
  let '(stabs, n, s) := it in naive_decode mq stabs n s.
Definition decode_stream (mq : option nat) (items : list item) : list nresult := map (decode_item mq) items.

(* the answer to an item is the same in every history *)
Theorem stream_history_free mq pre it post :
  nth_error (decode_stream mq (pre ++ it :: post)) (length pre) = Some (decode_item mq it).
Proof.
  unfold decode_stream. rewrite map_app. cbn [map].
  rewrite nth_error_app2 by (rewrite map_length; lia). rewrite map_length, Nat.sub_diag. reflexivity.
Qed.

Definition within (mq : option nat) (n : nat) : Prop := match mq with Some (S m) => n <= S m | _ => True end.

(* every item of every stream: when the syndrome is the syndrome of some error and the code is within max_qubits,
   the object answers with an operator of the right length and exactly that syndrome - never None, never an exception *)
Theorem stream_item_ok mq pre post stabs n s e0 :
  within mq n -> length e0 = 2 * n -> syndrome_of stabs e0 = s ->
  exists r, nth_error (decode_stream mq (pre ++ (stabs, n, s) :: post)) (length pre) = Some (NOk (Some r))
            /\ length r = 2 * n /\ syndrome_of stabs r = s.
Proof.
  intros W L Hs. destruct (naive_finds stabs n s e0 L Hs) as (r & Hr & Lr & Sr).
  exists r. split; [|split; assumption]. rewrite stream_history_free. cbn [decode_item].
  unfold naive_decode. rewrite naive_blocks_eq, Hr.
  destruct mq as [[|m]|]; auto. cbn [within] in W.
  destruct (S m <? n) eqn:E; auto. apply Nat.ltb_lt in E. lia.
Qed.

(* the guard: a code above max_qubits gets the documented ValueError, wherever it stands in the stream *)
Theorem stream_item_guard m pre post stabs n s : S m < n ->
  nth_error (decode_stream (Some (S m)) (pre ++ (stabs, n, s) :: post)) (length pre) = Some NValueError.
Proof.
  intros H. rewrite stream_history_free. cbn [decode_item]. unfold naive_decode.
  destruct (S m <? n) eqn:E; auto. apply Nat.ltb_ge in E. lia.
Qed.

(* ---- look-up tables ---- *)
Section Memo.
  Variable K : Type.
  Variable keq : K -> K -> bool.
  Variable key : list bsf -> nat -> bsf -> K.
  Hypothesis keq_eq : forall a b, keq a b = true -> a = b.

  Definition table := list (K * option bsf).
  Fixpoint lookup (k : K) (t : table) : option (option bsf) :=
    match t with [] => None | (k', r) :: t' => if keq k k' then Some r else lookup k t' end.
  Fixpoint memo_stream (t : table) (items : list item) : list (option bsf) :=
    match items with
    | [] => []
    | (stabs, n, s) :: rest =>
        let k := key stabs n s in
        match lookup k t with
        | Some r => r :: memo_stream t rest
        | None => let r := naive_blocks stabs n s in r :: memo_stream ((k, r) :: t) rest
        end
    end.
  Definition plain (it : item) : option bsf := let '(stabs, n, s) := it in naive_blocks stabs n s.

  (* the key determines the answer *)
  Definition key_sound : Prop := forall st n s st' n' s', key st n s = key st' n' s' -> naive_blocks st n s = naive_blocks st' n' s'.
  Definition table_ok (t : table) : Prop := forall k r, In (k, r) t -> forall st n s, key st n s = k -> naive_blocks st n s = r.

  Lemma lookup_in k t r : lookup k t = Some r -> exists k', k = k' /\ In (k', r) t.
  Proof.
    induction t as [|[k' r'] t IH]; cbn; [discriminate|]. destruct (keq k k') eqn:E.
    - intros H. injection H as <-. exists k'. split; [now apply keq_eq|now left].
    - intros H. destruct (IH H) as (k'' & -> & Hin). exists k''. split; auto.
  Qed.

  Theorem memo_stream_plain : key_sound -> forall items t, table_ok t -> memo_stream t items = map plain items.
  Proof.
    intros KS. induction items as [|[[st n] s] rest IH]; intros t Ht; cbn [memo_stream map plain]; auto.
    destruct (lookup (key st n s) t) as [r|] eqn:E.
    - destruct (lookup_in _ _ _ E) as (k' & Hk & Hin). rewrite (IH t Ht). f_equal.
      symmetry. apply (Ht k' r Hin st n s). now symmetry.
    - rewrite IH; auto. intros k r [H|H] st' n' s' Hk.
      + injection H as <- <-. now apply KS.
      + eapply Ht; eauto.
  Qed.
  Corollary memo_stream_plain_empty : key_sound -> forall items, memo_stream [] items = map plain items.
  Proof. intros KS items. apply memo_stream_plain; auto. intros k r []. Qed.
End Memo.

(* a key made of the whole item is sound *)
Lemma full_key_sound : key_sound item (fun st n s => (st, n, s)).
Proof. intros st n s st' n' s' H. now injection H as -> -> ->. Qed.

(* keyed by (n, syndrome bits) only: the 5-qubit code and the same code with qubits 0 and 1 exchanged *)
Definition five_swapped : list bsf := map to_bsf [[pZ;pX;pZ;pX;pI]; [pX;pI;pZ;pZ;pX]; [pI;pX;pX;pZ;pZ]; [pX;pZ;pI;pX;pZ]].
Definition ns_key (st : list bsf) (n : nat) (s : bsf) : nat * bsf := (n, s).
Definition ns_keq (a b : nat * bsf) : bool := (fst a =? fst b) && beqv (snd a) (snd b) && (length (snd a) =? length (snd b)).
Example memo_by_n_and_syndrome_wrong :
  let s := syndrome_of five_stabs (to_bsf [pX;pI;pI;pI;pI]) in
  let items := [(five_stabs, 5, s); (five_swapped, 5, s)] in
  memo_stream (nat * bsf) ns_keq ns_key [] items <> map plain items
  /\ (exists r, nth_error (memo_stream (nat * bsf) ns_keq ns_key [] items) 1 = Some (Some r) /\ syndrome_of five_swapped r <> s)
  /\ (exists r, nth_error (map plain items) 1 = Some (Some r) /\ syndrome_of five_swapped r = s).
Proof.
  vm_compute. split; [discriminate|]. split; eexists; (split; [reflexivity|]); [discriminate|reflexivity].
Qed.
