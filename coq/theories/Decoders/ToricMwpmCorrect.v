(* Decoders/ToricMwpmCorrect.v — C14 for the toric MWPM decoder, ALL sizes rows, cols >= 2:
   every error whose X part and Z part each have at most t = (min(rows, cols) - 1) / 2 qubits is corrected, up to a
   product of stabilizers, by the recovery built from ANY pair of minimum-weight perfect matchings of the decoder's
   two graphs (Decoders/MwpmGraph.toric_graph: the complete graph on the defects of one sublattice, weighted by
   ToricMWPMDecoder.distance).  The matcher is not modelled: "perfect, drawn from the graph, of minimum total weight
   among such" is a hypothesis on its answer (its contract, as in C13), never an axiom.

   A matching is given with the weight of each of its edges ([twmates]); [tdrawn] says that every triple is an edge of
   the graph with exactly that weight (in either orientation), so the total is the weight the matcher minimises
   ([toric_mwpm_corrects]).  The same theorem for matchings given as bare pairs and weighed by looking the pair up in
   the graph is [toric_mwpm_corrects_mates]; for the decoder as a function of an external matcher that meets this
   contract it is [toric_mwpm_decode_corrects] (the graphs of the syndrome of an error always have a perfect matching:
   [toric_perfect_matching_exists]; in particular every error has an even number of defects on each sublattice:
   [toric_even_parity_all], the statement left open in ToricMwpm.v).  ToricMwpmBrute.v discharges the contract with
   an exhaustive matcher.

   Proof: (1) [tcheap_matching]: the defects of one sublattice have a perfect matching of the decoder's graph of total
   weight <= the number of qubits in the corresponding part of the error (one elementary pair per qubit —
   ToricErrPairs.terror_pairs — then MatchBound.matching_from_pairs with the periodic taxi-cab metric [ptaxi], which
   satisfies the triangle inequality [ptaxi_tri]; the torus has no boundary, so the boundary node of MatchBound is put
   further away than the whole list of pairs costs and is never used);
   (2) hence the minimum-weight matching weighs <= t and so does each part of the recovery (weight of a path <= its
   distance, ToricAll.toric_path_weight_le; a path between plaquettes of sublattice 0 is X-type, of sublattice 1
   Z-type); (3) recovery xor error commutes with every stabilizer and its X part and Z part have <= 2t < min(rows,
   cols) qubits, so it is a product of stabilizers (ToricErrPairs.toric_light_commuting_in_span). *)
From Coq Require Import ZArith List Bool Lia ZifyBool Permutation.
From QV Require Import Core.Bits Core.Pauli Core.Symp Core.Code Core.Span Core.DistCSS App.RunOnce Generated.LatticeArith
  Lattice.Planar Lattice.PlanarAll Lattice.Toric Lattice.ToricAll Lattice.ToricRankAll
  Decoders.Naive Decoders.Checker Decoders.MwpmRel Decoders.ToricMwpm Decoders.MwpmGraph Decoders.ToricMwpmPm
  Decoders.MatchBound Decoders.PlanarErrPairs Decoders.ToricErrPairs Decoders.PlanarMwpmCorrect.
Import ListNotations.
Open Scope Z_scope.
Ltac Zify.zify_post_hook ::= Z.to_euclidean_division_equations.

(* a matching with the weight of each edge *)
Notation twmates := (list (tidx * tidx * Z)).
Definition tunw (mw : twmates) : tmates := map fst mw.
Definition twtotal (mw : twmates) : Z := fold_right (fun t acc => snd t + acc) 0 mw.
(* every edge of the matching is an edge of the graph, with that weight *)
Definition tdrawn (g : list twedge) (mw : twmates) : Prop :=
  forall a b w, In (a, b, w) mw -> In (a, b, Some w) g \/ In (b, a, Some w) g.
Definition tperfect_in (g : list twedge) (nodes : list tidx) (mw : twmates) : Prop :=
  Permutation (ends2 (tunw mw)) nodes /\ tdrawn g mw.
Definition tmin_perfect_in (g : list twedge) (nodes : list tidx) (mw : twmates) : Prop :=
  tperfect_in g nodes mw /\ forall mw', tperfect_in g nodes mw' -> twtotal mw <= twtotal mw'.

(* the same contract for a matching given as bare pairs, weighed by the graph: the weight of {a, b} is that of the entry
   of the graph joining a and b, in either orientation (the decoder's graphs have exactly one such entry) *)
Definition tuses (g : list twedge) (m : tmates) : Prop :=
  forall a b, In (a, b) m -> exists w, In (a, b, w) g \/ In (b, a, w) g.
Definition tjoins (a b : tidx) (t : twedge) : bool :=
  (zeqb3 (fst (fst t)) a && zeqb3 (snd (fst t)) b) || (zeqb3 (fst (fst t)) b && zeqb3 (snd (fst t)) a).
Definition tgweight (g : list twedge) (a b : tidx) : Z :=
  match find (tjoins a b) g with Some (_, _, Some w) => w | _ => 0 end.
Definition tmweight (g : list twedge) (m : tmates) : Z := fold_right (fun p acc => tgweight g (fst p) (snd p) + acc) 0 m.
Definition tmin_matching (g : list twedge) (nodes : list tidx) (m : tmates) : Prop :=
  Permutation (ends2 m) nodes /\ tuses g m /\
  forall m', Permutation (ends2 m') nodes -> tuses g m' -> tmweight g m <= tmweight g m'.

Lemma twtotal_cons t mw : twtotal (t :: mw) = snd t + twtotal mw.
Proof. reflexivity. Qed.
Lemma tdrawn_uses g mw : tdrawn g mw -> tuses g (tunw mw).
Proof.
  intros Hd x y Hxy. unfold tunw in Hxy. apply in_map_iff in Hxy. destruct Hxy as ([[x' y'] w'] & E & Ht). cbn [fst] in E.
  injection E as -> ->. exists (Some w'). exact (Hd x y w' Ht).
Qed.
Lemma tunw_map_pairs (f : tidx * tidx -> Z) (P : tmates) : tunw (map (fun p => (fst p, snd p, f p)) P) = P.
Proof. unfold tunw. rewrite map_map. cbn [fst]. rewrite <- (map_id P) at 2. apply map_ext. now intros [a b]. Qed.

(* ------------------------------------------------------------------ *)
(** * The periodic taxi-cab distance is a metric                        *)
(* ------------------------------------------------------------------ *)
Lemma mod_opp_min m x : 0 < m -> Z.min (x mod m) ((- x) mod m) = Z.min (x mod m) (m - x mod m).
Proof.
  intros Hm. pose proof (Z.mod_pos_bound x m Hm) as B. destruct (Z.eq_dec (x mod m) 0) as [E|E].
  - rewrite (Z.mod_opp_l_z x m) by lia. rewrite E. lia.
  - rewrite (Z.mod_opp_l_nz x m) by lia. reflexivity.
Qed.
Lemma mod_add_cases m x y : 0 < m ->
  (x + y) mod m = x mod m + y mod m \/ (x + y) mod m = x mod m + y mod m - m.
Proof.
  intros Hm. rewrite Zplus_mod. pose proof (Z.mod_pos_bound x m Hm) as Bx. pose proof (Z.mod_pos_bound y m Hm) as By.
  set (a := x mod m) in *. set (b := y mod m) in *. clearbody a b.
  destruct (Z_lt_dec (a + b) m) as [Hlt|Hge].
  - left. apply Z.mod_small. lia.
  - right. symmetry. apply (Z.mod_unique_pos (a + b) m 1 (a + b - m)); lia.
Qed.
(* distance on a cycle of length m *)
Lemma cyc_tri m x y : 0 < m ->
  Z.min ((x + y) mod m) ((- (x + y)) mod m) <= Z.min (x mod m) ((- x) mod m) + Z.min (y mod m) ((- y) mod m).
Proof.
  intros Hm. rewrite !mod_opp_min by exact Hm.
  pose proof (Z.mod_pos_bound x m Hm) as Bx. pose proof (Z.mod_pos_bound y m Hm) as By.
  pose proof (Z.mod_pos_bound (x + y) m Hm) as Bs.
  destruct (mod_add_cases m x y Hm) as [E|E]; rewrite E in *;
    set (a := x mod m) in *; set (b := y mod m) in *; clearbody a b; lia.
Qed.
Lemma mod_one m x : 2 <= m -> (x = 1 \/ x = 1 - m) -> x mod m = 1.
Proof.
  intros Hm [-> | ->].
  - apply Z.mod_small. lia.
  - replace (1 - m) with (1 + (-1) * m) by lia. rewrite Z_mod_plus_full. apply Z.mod_small. lia.
Qed.

Section Metric.
Variables rows cols : Z.
Hypothesis Hr : 2 <= rows.
Hypothesis Hc : 2 <= cols.
Notation pt := (ptaxi rows cols).

Lemma ptaxi_nonneg a b : 0 <= pt a b.
Proof. apply (ptaxi_bound rows cols Hr Hc). Qed.
Lemma ptaxi_sym a b : pt a b = pt b a.
Proof.
  unfold ptaxi. rewrite (Z.min_comm ((snd (fst b) - snd (fst a)) mod rows)), (Z.min_comm ((snd b - snd a) mod cols)).
  reflexivity.
Qed.
Lemma ptaxi_refl a : pt a a = 0.
Proof. unfold ptaxi. rewrite !Z.sub_diag, !Zmod_0_l. reflexivity. Qed.
Theorem ptaxi_tri a b c : pt a c <= pt a b + pt b c.
Proof.
  unfold ptaxi. destruct a as [[al ar] ac], b as [[bl br] bc], c as [[cl cr] cc]. cbn [fst snd].
  pose proof (cyc_tri rows (br - ar) (cr - br) ltac:(lia)) as T1.
  pose proof (cyc_tri cols (bc - ac) (cc - bc) ltac:(lia)) as T2.
  replace (br - ar + (cr - br)) with (cr - ar) in T1 by lia.
  replace (bc - ac + (cc - bc)) with (cc - ac) in T2 by lia.
  replace (- (cr - ar)) with (ar - cr) in T1 by lia. replace (- (br - ar)) with (ar - br) in T1 by lia.
  replace (- (cr - br)) with (br - cr) in T1 by lia.
  replace (- (cc - ac)) with (ac - cc) in T2 by lia. replace (- (bc - ac)) with (ac - bc) in T2 by lia.
  replace (- (cc - bc)) with (bc - cc) in T2 by lia.
  set (A1 := Z.min ((cr - ar) mod rows) ((ar - cr) mod rows)) in *.
  set (A2 := Z.min ((br - ar) mod rows) ((ar - br) mod rows)) in *.
  set (A3 := Z.min ((cr - br) mod rows) ((br - cr) mod rows)) in *.
  set (B1 := Z.min ((cc - ac) mod cols) ((ac - cc) mod cols)) in *.
  set (B2 := Z.min ((bc - ac) mod cols) ((ac - bc) mod cols)) in *.
  set (B3 := Z.min ((cc - bc) mod cols) ((bc - cc) mod cols)) in *.
  clearbody A1 A2 A3 B1 B2 B3. lia.
Qed.

(* two plaquettes one step apart *)
Lemma mod_minus_one m x : 2 <= m -> (x = -1 \/ x = m - 1) -> x mod m = m - 1.
Proof.
  intros Hm [-> | ->].
  - replace (-1) with (m - 1 + (-1) * m) by lia. rewrite Z_mod_plus_full. apply Z.mod_small. lia.
  - apply Z.mod_small. lia.
Qed.
Lemma ptaxi_row_step l l' r r' c : (r - r' = 1 \/ r - r' = 1 - rows) -> pt (l, r, c) (l', r', c) = 1.
Proof.
  intros H. unfold ptaxi. cbn [fst snd]. rewrite !Z.sub_diag, !Zmod_0_l.
  rewrite (mod_one rows (r - r') Hr H), (mod_minus_one rows (r' - r) Hr ltac:(lia)). clear H. lia.
Qed.
Lemma ptaxi_col_step l l' r c c' : (c - c' = 1 \/ c - c' = 1 - cols) -> pt (l, r, c) (l', r, c') = 1.
Proof.
  intros H. unfold ptaxi. cbn [fst snd]. rewrite !Z.sub_diag, !Zmod_0_l.
  rewrite (mod_one cols (c - c') Hc H), (mod_minus_one cols (c' - c) Hc ltac:(lia)). clear H. lia.
Qed.
(* each flipped qubit toggles two plaquettes of one sublattice at distance 1 *)
Lemma tsends_dist px s : ToricAll.inrange rows cols s -> pt (fst (tsends rows cols px s)) (snd (tsends rows cols px s)) = 1.
Proof.
  destruct s as [[l r] c]. unfold ToricAll.inrange. cbn [fst snd]. intros (H0 & H1 & H2).
  unfold tsends. destruct px; destruct (l =? 0); cbn [fst snd].
  - apply ptaxi_row_step. unfold dec. destruct (r =? 0) eqn:E; lia.
  - apply ptaxi_col_step. unfold dec. destruct (c =? 0) eqn:E; lia.
  - apply ptaxi_col_step. unfold inc. destruct (c + 1 =? cols) eqn:E; lia.
  - apply ptaxi_row_step. unfold dec. destruct (r =? 0) eqn:E; lia.
Qed.

(* the metric on nodes: real plaquettes at periodic taxi-cab distance; THE boundary (None) at distance B from all *)
Definition td (B : Z) (x y : option tidx) : Z :=
  match x, y with
  | Some a, Some b => pt a b
  | None, None => 0
  | _, _ => B
  end.
Lemma td_nonneg B : 0 <= B -> forall x y, 0 <= td B x y.
Proof. intros HB [a|] [b|]; cbn [td]; try lia. apply ptaxi_nonneg. Qed.
Lemma td_sym B x y : td B x y = td B y x.
Proof. destruct x as [a|], y as [b|]; cbn [td]; try reflexivity. apply ptaxi_sym. Qed.
Lemma td_tri B : 0 <= B -> forall x a y, td B x y <= td B x (Some a) + td B (Some a) y.
Proof.
  intros HB [x|] a [y|]; cbn [td].
  - apply ptaxi_tri.
  - pose proof (ptaxi_nonneg x a). lia.
  - pose proof (ptaxi_nonneg a y). lia.
  - lia.
Qed.
Lemma td_merge B : 0 <= B -> forall a b : tidx, a = b -> td B (Some a) (Some b) <= td B (Some a) None + td B (Some b) None.
Proof. intros HB a b <-. cbn [td]. rewrite ptaxi_refl. lia. Qed.
End Metric.

Section Correct.
Variables rows cols : Z.
Hypothesis Hr : 2 <= rows.
Hypothesis Hc : 2 <= cols.
Notation N := (toric_n rows cols).
Notation TI := (tindices rows cols).
Notation STABS := (stabs (toric_code rows cols)).
Notation tstab := (ToricAll.tstab rows cols).
Notation inrange := (ToricAll.inrange rows cols).
Notation pt := (ptaxi rows cols).
Notation defs := (lattice_defects rows cols).
Notation G := (toric_graph rows cols).
Notation pop := (tpathop rows cols).
Notation tokp := (tok rows cols).
Notation tpartp := (tpart rows cols).

(* ------------------------------------------------------------------ *)
(** * The defects of the syndrome of an error                           *)
(* ------------------------------------------------------------------ *)
Lemma tdefects_filter e : tdefects rows cols (syndrome_of STABS e) = filter (fun q => bsp e (tstab q)) TI.
Proof.
  unfold tdefects, tsyndrome_to_plaquette_indices, syndrome_of. rewrite (tcode_eq rows cols). cbn [stabs].
  rewrite map_map. apply select_map_filter.
Qed.
Lemma lattice_defects_char e la q : In q (defs la (syndrome_of STABS e)) <->
  In q TI /\ fst (fst q) = la /\ bsp e (tstab q) = true.
Proof. unfold lattice_defects. rewrite tdefects_filter, !filter_In, Z.eqb_eq. tauto. Qed.
Lemma NoDup_lattice_defects e la : NoDup (defs la (syndrome_of STABS e)).
Proof. unfold lattice_defects. rewrite tdefects_filter. apply NoDup_filter, NoDup_filter, (NoDup_TI rows cols). Qed.
Lemma defect_facts_t la syn q : In q (defs la syn) -> inrange q /\ fst (fst q) = la.
Proof.
  intros Hq. apply filter_In in Hq. destruct Hq as [Hq E]. split; [|lia].
  apply (in_tindices rows cols). eapply tdefect_in_TI; eauto.
Qed.

(* ------------------------------------------------------------------ *)
(** * Elementary pairs as pairs of abstract nodes                      *)
(* ------------------------------------------------------------------ *)
Definition tnpair (p : tidx * tidx) : option tidx * option tidx := (Some (fst p), Some (snd p)).

Lemma par_rends_tnpairs q L : par tidx zeqb3 q (rends tidx (map tnpair L)) = tpairpar q L.
Proof.
  induction L as [|p L IH]; [reflexivity|]. cbn [map]. rewrite rends_cons, !par_app, IH.
  unfold tnpair. cbn [fst snd rend par xsumb tpairpar]. now rewrite !xorb_false_r.
Qed.
Lemma in_rends_tnpairs q L : In q (rends tidx (map tnpair L)) -> exists p, In p L /\ (q = fst p \/ q = snd p).
Proof.
  induction L as [|p L IH]; [intros []|]. cbn [map]. rewrite rends_cons, !in_app_iff.
  unfold tnpair. cbn [fst snd rend]. intros [[[<-|[]]|[<-|[]]]|H].
  - exists p. cbn; auto.
  - exists p. cbn; auto.
  - destruct (IH H) as (p' & H2 & H3). exists p'. cbn; auto.
Qed.
Lemma cost_tnpairs B px L : (forall p, In p L -> exists s, inrange s /\ p = tsends rows cols px s) ->
  cost tidx (td rows cols B) (map tnpair L) <= Z.of_nat (length L).
Proof.
  induction L as [|p L IH]; intros H; [cbn; lia|]. cbn [map]. rewrite cost_cons. cbn [length].
  destruct (H p ltac:(cbn; auto)) as (s & Hs & ->). pose proof (tsends_dist rows cols Hr Hc px s Hs) as Hd.
  specialize (IH ltac:(intros; apply H; cbn; auto)). unfold tnpair at 1 2. cbn [fst snd td]. lia.
Qed.
Lemma pcost_nonneg B P : 0 <= B -> 0 <= pcost tidx (td rows cols B) P.
Proof.
  intros HB. induction P as [|p P IH]; [cbn; lia|]. rewrite pcost_cons.
  pose proof (td_nonneg rows cols Hr Hc B HB (Some (fst p)) (Some (snd p))). lia.
Qed.
Lemma scost_lower B Sg : 0 <= B -> Sg <> [] -> B <= scost tidx (td rows cols B) Sg.
Proof.
  intros HB. destruct Sg as [|a Sg]; [congruence|]. intros _. rewrite scost_cons. cbn [td].
  assert (0 <= scost tidx (td rows cols B) Sg); [|lia].
  induction Sg as [|b Sg IH]; [cbn; lia|]. rewrite scost_cons. cbn [td]. lia.
Qed.

(* ------------------------------------------------------------------ *)
(** * The X part / Z part of a product of path operators                *)
(* ------------------------------------------------------------------ *)
Lemma tpart_xorv px a b : length a = length b -> tpartp px (xorv a b) = xorv (tpartp px a) (tpartp px b).
Proof. intros H. unfold tpart. destruct px; [apply firstn_xorv|now apply skipn_xorv]. Qed.
Lemma tpart_zeros px : tpartp px (zeros (N + N)) = zeros N.
Proof. rewrite <- (tembed_zeros rows cols px). apply tpart_tembed, zeros_length. Qed.
Definition tops_weight (px : bool) (m : tmates) : nat :=
  fold_right (fun q acc => (count_true (tpartp px (pop (fst q) (snd q))) + acc)%nat) 0%nat m.
Lemma tops_weight_app px m1 m2 : tops_weight px (m1 ++ m2) = (tops_weight px m1 + tops_weight px m2)%nat.
Proof.
  induction m1 as [|q m IH]; [reflexivity|]. cbn [app tops_weight fold_right]. fold (tops_weight px (m ++ m2)).
  fold (tops_weight px m). lia.
Qed.
Lemma txsum_part_le px m : (forall q, In q m -> tokp (fst q) (snd q)) ->
  (count_true (tpartp px (xsum (N + N) (pair_ops tidx pop m))) <= tops_weight px m)%nat.
Proof.
  induction m as [|q m IH]; intros Hok.
  - cbn [pair_ops map xsum fold_right tops_weight]. now rewrite tpart_zeros, count_true_zeros.
  - cbn [pair_ops map tops_weight fold_right]. fold (pair_ops tidx pop m). fold (tops_weight px m). rewrite xsum_cons.
    assert (Hok' : forall q0, In q0 m -> tokp (fst q0) (snd q0)) by (intros; apply Hok; cbn; auto).
    rewrite tpart_xorv.
    + pose proof (count_true_xorv (tpartp px (pop (fst q) (snd q))) (tpartp px (xsum (N + N) (pair_ops tidx pop m)))).
      specialize (IH Hok'). lia.
    + rewrite (tok_len rows cols Hr Hc) by (apply Hok; cbn; auto). symmetry. apply xsum_len.
      exact (pair_ops_rowlen tidx (N + N) pop tokp (tok_len rows cols Hr Hc) m Hok').
Qed.

(* a path operator between two plaquettes of sublattice (tlat px): its part of type px weighs at most the periodic
   taxi-cab distance of its ends, its other part is empty *)
Lemma tpathop_parts px a b : inrange a -> inrange b -> fst (fst a) = tlat px -> fst (fst b) = tlat px ->
  Z.of_nat (count_true (tpartp px (pop a b))) <= pt a b /\ tpartp (negb px) (pop a b) = zeros N.
Proof.
  intros Ia Ib La Lb. assert (Hok : tokp a b) by (repeat split; try apply Ia; try apply Ib; congruence).
  destruct (tok_path rows cols Hr Hc a b Hok) as (rs & cs & Ht & Hp & _).
  pose proof (tdistance_periodic rows cols Hr Hc a b Ia Ib ltac:(congruence)) as Hd.
  split.
  - assert (Hw : Z.of_nat (bsf_wt (pop a b)) <= pt a b).
    { unfold tpathop, tpath. rewrite Ht.
      eapply toric_path_weight_le; [unfold tpath; rewrite Ht; reflexivity|exact Hd]. }
    pose proof (tok_len rows cols Hr Hc a b Hok) as Hl.
    destruct (parts_weight N (pop a b) ltac:(lia)) as (_ & _ & W1 & W2). unfold tpart. destruct px; lia.
  - rewrite Hp, tsop_gop, gop_parts.
    assert (Eop : tpath_op rows cols a = teop px).
    { unfold tpath_op. change (mod3 a (tshape rows cols)) with (m3 rows cols a). rewrite (m3_id rows cols) by exact Ia.
      destruct a as [[al ar] ac]. cbn [fst snd] in La. subst al. unfold teop, tlat. now destruct px. }
    rewrite Eop. unfold tpart, teop, PlanarAll.xpart, PlanarAll.zpart. destruct px; cbn [negb xbit zbit].
    + apply tskipn_N_app. rewrite flips_length. apply zeros_length.
    + apply tfirstn_N_app. apply zeros_length.
Qed.

(* ------------------------------------------------------------------ *)
(** * One sublattice                                                    *)
(* ------------------------------------------------------------------ *)
Section OneLattice.
Variable px : bool.
Variable syn : bsf.
Notation la := (tlat px).
Notation ds := (defs (tlat px) syn).
Notation Gl := (G (tlat px) syn).

(* from a proper matching of the defects to a perfect matching of the decoder's graph, with the same cost *)
Definition tmw_pairs (P : tmates) : twmates := map (fun p => (fst p, snd p, pt (fst p) (snd p))) P.
Lemma twtotal_pairs B P : twtotal (tmw_pairs P) = pcost tidx (td rows cols B) P.
Proof.
  induction P as [|[x y] P IH]; [reflexivity|]. cbn [tmw_pairs map]. rewrite twtotal_cons, pcost_cons. cbn [fst snd td].
  fold (tmw_pairs P). now rewrite IH.
Qed.
Theorem tgraph_matching_of P : NoDup ds -> Permutation (ends2 P) ds -> tperfect_in Gl ds (tmw_pairs P).
Proof.
  intros Hnd Pm. split.
  - unfold tmw_pairs. now rewrite tunw_map_pairs.
  - intros a b w Hin. unfold tmw_pairs in Hin. apply in_map_iff in Hin. destruct Hin as ([x y] & E & Hxy).
    cbn [fst snd] in E. injection E as <- <- <-. destruct (ends2_in P x y Hxy) as [Hx Hy].
    apply (toric_graph_complete rows cols Hr Hc).
    + eapply Permutation_in; eauto.
    + eapply Permutation_in; eauto.
    + apply (ends2_neq P); auto. eapply Permutation_NoDup; [apply Permutation_sym; exact Pm|exact Hnd].
Qed.

(* (2) the part of type px of the recovery of a matching drawn from the graph weighs no more than the matching *)
Lemma tperfect_nodes mw : tperfect_in Gl ds mw ->
  forall a b w, In (a, b, w) mw -> inrange a /\ inrange b /\ fst (fst a) = la /\ fst (fst b) = la /\ w = pt a b.
Proof.
  intros [_ Hd] a b w Hin. destruct (Hd a b w Hin) as [H|H]; apply (toric_graph_sound rows cols Hr Hc) in H;
    destruct H as (H1 & H2 & E); injection E as ->;
    destruct (defect_facts_t _ _ _ H1) as [I1 L1], (defect_facts_t _ _ _ H2) as [I2 L2].
  - split; [exact I1|]. split; [exact I2|]. split; [exact L1|]. split; [exact L2|reflexivity].
  - split; [exact I2|]. split; [exact I1|]. split; [exact L2|]. split; [exact L1|apply (ptaxi_sym rows cols)].
Qed.
Theorem tmatching_weight mw : tperfect_in Gl ds mw ->
  (forall q, In q (tunw mw) -> tokp (fst q) (snd q)) /\
  Z.of_nat (tops_weight px (tunw mw)) <= twtotal mw /\ tops_weight (negb px) (tunw mw) = 0%nat.
Proof.
  intros Hperf. pose proof (tperfect_nodes mw Hperf) as Hall. clear Hperf. split.
  - intros [a b] Hq. unfold tunw in Hq. apply in_map_iff in Hq. destruct Hq as ([[a' b'] w] & E & Ht). cbn [fst] in E.
    injection E as -> ->. destruct (Hall a b w Ht) as (Ia & Ib & La & Lb & _). cbn [fst snd].
    repeat split; try apply Ia; try apply Ib. congruence.
  - induction mw as [|[[a b] w] mw IH]; [cbn; split; [lia|reflexivity]|].
    destruct (Hall a b w ltac:(cbn; auto)) as (Ia & Ib & La & Lb & Ew).
    destruct (tpathop_parts px a b Ia Ib La Lb) as [Hw Hz].
    destruct IH as [I1 I2]; [intros x y z Hxyz; apply (Hall x y z); cbn; auto|].
    cbn [tunw map fst snd tops_weight fold_right]. fold (tunw mw). fold (tops_weight px (tunw mw)).
    fold (tops_weight (negb px) (tunw mw)). rewrite twtotal_cons. cbn [snd]. rewrite Hz, count_true_zeros, I2.
    split; [lia|reflexivity].
Qed.

(* every entry of the graph carries the periodic taxi-cab distance between its ends, which is symmetric *)
Lemma tfind_ex {A} (f : A -> bool) l x : In x l -> f x = true -> exists y, find f l = Some y.
Proof.
  induction l as [|a l IH]; intros Hin Hf; [destruct Hin|]. cbn [find]. destruct (f a) eqn:E; [eauto|].
  destruct Hin as [->|Hin]; [congruence|auto].
Qed.
Lemma tgweight_spec a b : (exists w, In (a, b, w) Gl \/ In (b, a, w) Gl) ->
  tgweight Gl a b = pt a b /\ (In (a, b, Some (pt a b)) Gl \/ In (b, a, Some (pt a b)) Gl).
Proof.
  intros (w0 & Hw0).
  assert (Hj : exists t, In t Gl /\ tjoins a b t = true).
  { destruct Hw0 as [H|H]; [exists (a, b, w0)|exists (b, a, w0)]; (split; [exact H|]); unfold tjoins; cbn [fst snd];
      rewrite !zeqb3_refl; cbn; auto using orb_true_r. }
  destruct Hj as (t0 & Ht0 & Hj0). destruct (tfind_ex _ _ _ Ht0 Hj0) as (t & Hf).
  destruct (find_some _ _ Hf) as [Hin Hj]. destruct t as [[x y] w]. unfold tgweight. rewrite Hf.
  pose proof Hin as Hin'. apply (toric_graph_sound rows cols Hr Hc) in Hin'. destruct Hin' as (_ & _ & ->).
  unfold tjoins in Hj. cbn [fst snd] in Hj. apply orb_true_iff in Hj. rewrite !andb_true_iff, !zeqb3_eq in Hj.
  destruct Hj as [[-> ->]|[-> ->]]; [split; auto|]. rewrite (ptaxi_sym rows cols b a) in *. split; auto.
Qed.
Lemma tdrawn_gweight a b w : In (a, b, Some w) Gl \/ In (b, a, Some w) Gl -> tgweight Gl a b = w.
Proof.
  intros H. destruct (tgweight_spec a b ltac:(exists (Some w); exact H)) as (-> & _).
  destruct H as [H|H]; apply (toric_graph_sound rows cols Hr Hc) in H; destruct H as (_ & _ & E); injection E as ->;
    [reflexivity|apply (ptaxi_sym rows cols)].
Qed.

(* a minimum-weight perfect matching in the bare-pairs formulation is one in the weighted formulation *)
Definition twith_weights (m : tmates) : twmates := map (fun p => (fst p, snd p, tgweight Gl (fst p) (snd p))) m.
Lemma twtotal_with_weights m : twtotal (twith_weights m) = tmweight Gl m.
Proof.
  induction m as [|p m IH]; [reflexivity|]. cbn [twith_weights map]. rewrite twtotal_cons. cbn [snd tmweight fold_right].
  fold (twith_weights m). fold (tmweight Gl m). now rewrite IH.
Qed.
Lemma twtotal_drawn mw : tdrawn Gl mw -> twtotal mw = tmweight Gl (tunw mw).
Proof.
  induction mw as [|[[a b] w] mw IH]; intros Hd; [reflexivity|].
  rewrite twtotal_cons. cbn [tunw map tmweight fold_right fst snd]. fold (tunw mw). fold (tmweight Gl (tunw mw)).
  rewrite (tdrawn_gweight a b w (Hd a b w ltac:(cbn; auto))). rewrite IH by (intros x y z H; apply Hd; cbn; auto). reflexivity.
Qed.
Theorem tmin_matching_weighted m : tmin_matching Gl ds m ->
  tmin_perfect_in Gl ds (twith_weights m) /\ tunw (twith_weights m) = m.
Proof.
  intros (Pm & Hu & Hmin).
  assert (Eu : tunw (twith_weights m) = m) by apply tunw_map_pairs.
  split; [|exact Eu]. split; [split|].
  - now rewrite Eu.
  - intros a b w Hin. unfold twith_weights in Hin. apply in_map_iff in Hin. destruct Hin as ([x y] & E & Hxy).
    cbn [fst snd] in E. injection E as <- <- <-. destruct (tgweight_spec x y (Hu x y Hxy)) as (-> & H). exact H.
  - intros mw' [Pm' Hd']. rewrite twtotal_with_weights, (twtotal_drawn mw' Hd'). apply Hmin; [exact Pm'|now apply tdrawn_uses].
Qed.
End OneLattice.

(* (1) the defects of the error's part of type px have a perfect matching in the decoder's graph of total weight at most
   the number of qubits of that part *)
Theorem tcheap_matching px e : length e = (N + N)%nat ->
  let syn := syndrome_of STABS e in
  exists mw, tperfect_in (G (tlat px) syn) (defs (tlat px) syn) mw /\ twtotal mw <= Z.of_nat (count_true (tpartp px e)).
Proof.
  intros He syn.
  destruct (terror_pairs rows cols Hr Hc px e He) as (L & HL1 & HL2 & HL3).
  set (B := Z.of_nat (length L) + 1).
  assert (HB : 0 <= B) by (unfold B; lia).
  destruct (matching_from_pairs tidx zeqb3 zeqb3_eq (td rows cols B) (td_nonneg rows cols Hr Hc B HB) (td_sym rows cols B)
              (td_tri rows cols Hr Hc B HB) tidx zeqb3 zeqb3_eq (fun a => a) (td_merge rows cols B HB) (map tnpair L))
    as (P & Sg & M1 & M2 & _ & M4).
  pose proof (cost_tnpairs B px L HL2) as HC.
  assert (ESg : Sg = []).
  { destruct Sg as [|a Sg']; [reflexivity|]. exfalso.
    pose proof (scost_lower B (a :: Sg') HB ltac:(discriminate)). pose proof (pcost_nonneg B P HB). unfold B in *. lia. }
  subst Sg. rewrite app_nil_r in M1, M2.
  pose proof (NoDup_lattice_defects e (tlat px)) as Hnd. fold syn in Hnd.
  assert (Pm : Permutation (ends2 P) (defs (tlat px) syn)).
  { apply NoDup_Permutation; auto. intros q. rewrite M2, par_rends_tnpairs. unfold syn. rewrite lattice_defects_char. split.
    - intros Hp. rewrite <- par_rends_tnpairs in Hp. pose proof (par_true_in tidx zeqb3 zeqb3_eq q _ Hp) as Hin.
      destruct (in_rends_tnpairs q L Hin) as (p & HpL & Hqp).
      destruct (HL2 p HpL) as (s & Hs & ->). destruct (tsends_in rows cols px s Hs) as (F1 & F2 & F3 & F4).
      assert (Hq : In q TI /\ fst (fst q) = tlat px) by (destruct Hqp as [-> | ->]; auto).
      destruct Hq as [Hq1 Hq2]. split; [exact Hq1|]. split; [exact Hq2|].
      rewrite (HL3 q Hq1 Hq2), <- par_rends_tnpairs. exact Hp.
    - intros (F1 & F2 & F3). now rewrite <- (HL3 q F1 F2). }
  exists (tmw_pairs P). split; [now apply tgraph_matching_of|].
  rewrite (twtotal_pairs B). rewrite HL1 in HC. cbn [scost fold_right] in M4. lia.
Qed.

(* ------------------------------------------------------------------ *)
(** * The theorem                                                       *)
(* ------------------------------------------------------------------ *)
Definition txweight (e : bsf) : nat := count_true (firstn N e).   (* qubits carrying X or Y *)
Definition tzweight (e : bsf) : nat := count_true (skipn N e).    (* qubits carrying Z or Y *)
Definition ttcap : Z := (Z.min rows cols - 1) / 2.

Theorem toric_mwpm_corrects (e : bsf) (mw0 mw1 : twmates) :
  length e = (N + N)%nat -> Z.of_nat (txweight e) <= ttcap -> Z.of_nat (tzweight e) <= ttcap ->
  let syn := syndrome_of STABS e in
  tmin_perfect_in (G 0 syn) (defs 0 syn) mw0 ->
  tmin_perfect_in (G 1 syn) (defs 1 syn) mw1 ->
  exists r, toric_mwpm_recovery rows cols (tunw mw0 ++ tunw mw1) = Some r /\ length r = (N + N)%nat /\
            syndrome_of STABS r = syn /\ in_spanP (N + N) STABS (xorv r e).
Proof.
  intros He Wx Wz syn [P0 M0] [P1 M1].
  (* (1) cheap matchings exist, so the minimum ones are cheap *)
  destruct (tcheap_matching true e He) as (m0' & H0' & W0'). destruct (tcheap_matching false e He) as (m1' & H1' & W1').
  cbn [tlat] in H0', H1'. fold syn in H0', H1'.
  pose proof (M0 m0' H0') as L0. pose proof (M1 m1' H1') as L1.
  (* (2) the recovery parts are no heavier than the matchings *)
  destruct (tmatching_weight true syn mw0 P0) as (Ok0 & Wm0 & Zm0).
  destruct (tmatching_weight false syn mw1 P1) as (Ok1 & Wm1 & Zm1).
  cbn [negb] in Zm0, Zm1.
  set (m := tunw mw0 ++ tunw mw1).
  assert (Hok : forall q, In q m -> tokp (fst q) (snd q)).
  { intros q Hq. apply in_app_iff in Hq. destruct Hq; auto. }
  destruct (tapply_paths_xsum rows cols Hr Hc m (tnew_pauli rows cols) Hok) as (p' & Hp1 & Hp2);
    [unfold tnew_pauli, pzero; cbn; apply zeros_length|unfold tnew_pauli, pzero; cbn; apply zeros_length|].
  pose proof (pair_ops_rowlen tidx (N + N) pop tokp (tok_len rows cols Hr Hc) m Hok) as Hrow.
  rewrite (tnew_pauli_bsf rows cols), xorv_zeros_l in Hp2 by (apply xsum_len; exact Hrow).
  destruct P0 as [Perm0 Dr0], P1 as [Perm1 Dr1].
  destruct (toric_mwpm_syndrome_of_error rows cols Hr Hc e (tunw mw0) (tunw mw1) Perm0 Perm1) as (r & R1 & R2 & R3).
  exists r. split; [exact R1|]. split; [exact R2|]. split; [exact R3|].
  assert (Er : r = xsum (N + N) (pair_ops tidx pop m)).
  { fold m in R1. unfold toric_mwpm_recovery in R1. rewrite Hp1 in R1. cbn [option_map] in R1. injection R1 as <-. exact Hp2. }
  (* (3) recovery xor error is light and commutes with every stabilizer *)
  assert (Lxe : length (xorv r e) = (N + N)%nat) by (rewrite xorv_length; lia).
  pose proof (txsum_part_le true m Hok) as Bx. pose proof (txsum_part_le false m Hok) as Bz.
  rewrite <- Er in Bx, Bz. unfold m in Bx, Bz. rewrite tops_weight_app in Bx, Bz. unfold tpart in Bx, Bz, W0', W1'.
  apply (toric_light_commuting_in_span rows cols Hr Hc); [exact Lxe| | |].
  - apply (syndrome_eq_zero STABS r e N); [lia|lia|exact R3].
  - rewrite firstn_xorv. pose proof (count_true_xorv (firstn N r) (firstn N e)). unfold txweight, ttcap in *. lia.
  - rewrite skipn_xorv by lia. pose proof (count_true_xorv (skipn N r) (skipn N e)). unfold tzweight, ttcap in *. lia.
Qed.

(* the same with the matchings given as bare pairs and weighed by the graph *)
Theorem toric_mwpm_corrects_mates (e : bsf) (m0 m1 : tmates) :
  length e = (N + N)%nat -> Z.of_nat (txweight e) <= ttcap -> Z.of_nat (tzweight e) <= ttcap ->
  let syn := syndrome_of STABS e in
  tmin_matching (G 0 syn) (defs 0 syn) m0 ->
  tmin_matching (G 1 syn) (defs 1 syn) m1 ->
  exists r, toric_mwpm_recovery rows cols (m0 ++ m1) = Some r /\ length r = (N + N)%nat /\
            syndrome_of STABS r = syn /\ in_spanP (N + N) STABS (xorv r e).
Proof.
  intros He Wx Wz syn Mm0 Mm1.
  destruct (tmin_matching_weighted true syn m0 Mm0) as [W0 E0].
  destruct (tmin_matching_weighted false syn m1 Mm1) as [W1 E1].
  destruct (toric_mwpm_corrects e _ _ He Wx Wz W0 W1) as (r & R). rewrite E0, E1 in R. exists r. exact R.
Qed.

(* ... in particular for every error of weight <= t *)
Corollary toric_mwpm_corrects_weight (e : bsf) (mw0 mw1 : twmates) :
  length e = (N + N)%nat -> Z.of_nat (bsf_wt e) <= ttcap ->
  let syn := syndrome_of STABS e in
  tmin_perfect_in (G 0 syn) (defs 0 syn) mw0 ->
  tmin_perfect_in (G 1 syn) (defs 1 syn) mw1 ->
  exists r, toric_mwpm_recovery rows cols (tunw mw0 ++ tunw mw1) = Some r /\ length r = (N + N)%nat /\
            syndrome_of STABS r = syn /\ in_spanP (N + N) STABS (xorv r e).
Proof.
  intros He W. destruct (DistCSS.parts_weight N e ltac:(lia)) as (_ & _ & W1 & W2).
  apply toric_mwpm_corrects; auto; unfold txweight, tzweight; lia.
Qed.

(* the decoder's graphs always have a perfect matching, so a matcher that meets its contract has an answer *)
Theorem toric_perfect_matching_exists (e : bsf) : length e = (N + N)%nat ->
  let syn := syndrome_of STABS e in
  (exists m, Permutation (ends2 m) (defs 0 syn) /\ tuses (G 0 syn) m) /\
  (exists m, Permutation (ends2 m) (defs 1 syn) /\ tuses (G 1 syn) m).
Proof.
  intros He syn.
  destruct (tcheap_matching true e He) as (m0 & [P0 D0] & _). destruct (tcheap_matching false e He) as (m1 & [P1 D1] & _).
  split; [exists (tunw m0)|exists (tunw m1)]; (split; [assumption|now apply tdrawn_uses]).
Qed.
(* ... in particular every error has an even number of defects on each sublattice *)
Theorem toric_even_parity (e : bsf) : length e = (N + N)%nat ->
  let syn := syndrome_of STABS e in
  Nat.even (length (defs 0 syn)) = true /\ Nat.even (length (defs 1 syn)) = true.
Proof.
  intros He syn. destruct (toric_perfect_matching_exists e He) as [(m0 & P0 & _) (m1 & P1 & _)].
  split; [exact (perfect_even m0 _ P0)|exact (perfect_even m1 _ P1)].
Qed.
End Correct.

(* ------------------------------------------------------------------ *)
(** * The decoder as a function of an external matcher                  *)
(* ------------------------------------------------------------------ *)
Section WithMatcher.
(* graphtools.mwpm, not modelled: graph and node list in, mates out *)
Variable matcher : list twedge -> list tidx -> tmates.
(* its contract (C13): on a graph that has a perfect matching it returns a perfect matching of minimum total weight *)
Hypothesis matcher_contract : forall g nodes, (exists m, Permutation (ends2 m) nodes /\ tuses g m) ->
  tmin_matching g nodes (matcher g nodes).
Definition toric_mwpm_decode (rows cols : Z) (syn : bsf) : option bsf :=
  toric_mwpm_recovery rows cols (matcher (toric_graph rows cols 0 syn) (lattice_defects rows cols 0 syn) ++
                                 matcher (toric_graph rows cols 1 syn) (lattice_defects rows cols 1 syn)).
Theorem toric_mwpm_decode_corrects rows cols : 2 <= rows -> 2 <= cols -> forall e : bsf,
  let n := toric_n rows cols in let S := stabs (toric_code rows cols) in
  length e = (n + n)%nat ->
  Z.of_nat (count_true (firstn n e)) <= (Z.min rows cols - 1) / 2 ->
  Z.of_nat (count_true (skipn n e)) <= (Z.min rows cols - 1) / 2 ->
  exists r, toric_mwpm_decode rows cols (syndrome_of S e) = Some r /\ length r = (n + n)%nat /\
            syndrome_of S r = syndrome_of S e /\ in_spanP (n + n) S (xorv r e).
Proof.
  intros Hr Hc e n S He Wx Wz. destruct (toric_perfect_matching_exists rows cols Hr Hc e He) as [E0 E1].
  exact (toric_mwpm_corrects_mates rows cols Hr Hc e _ _ He Wx Wz (matcher_contract _ _ E0) (matcher_contract _ _ E1)).
Qed.
End WithMatcher.

(* step (1) of the classical argument under the name used in the task description *)
Definition toric_defects_matching_le_weight := tcheap_matching.

(* ------------------------------------------------------------------ *)
(** * Closed statements for all sizes (C14, toric part)                 *)
(* ------------------------------------------------------------------ *)
Definition toric_mwpm_corrects_statement : Prop :=
  forall rows cols, 2 <= rows -> 2 <= cols -> forall (e : bsf) (mw0 mw1 : twmates),
    let n := toric_n rows cols in let S := stabs (toric_code rows cols) in
    length e = (n + n)%nat ->
    Z.of_nat (count_true (firstn n e)) <= (Z.min rows cols - 1) / 2 ->
    Z.of_nat (count_true (skipn n e)) <= (Z.min rows cols - 1) / 2 ->
    let syn := syndrome_of S e in
    tmin_perfect_in (toric_graph rows cols 0 syn) (lattice_defects rows cols 0 syn) mw0 ->
    tmin_perfect_in (toric_graph rows cols 1 syn) (lattice_defects rows cols 1 syn) mw1 ->
    exists r, toric_mwpm_recovery rows cols (tunw mw0 ++ tunw mw1) = Some r /\ in_spanP (n + n) S (xorv r e).
Theorem toric_mwpm_corrects_all : toric_mwpm_corrects_statement.
Proof.
  intros rows cols Hr Hc e mw0 mw1 n S He Wx Wz syn M0 M1.
  destruct (toric_mwpm_corrects rows cols Hr Hc e mw0 mw1 He Wx Wz M0 M1) as (r & R1 & _ & _ & R4). eauto.
Qed.
(* the statement left open in ToricMwpm.v, now a theorem *)
Theorem toric_even_parity_all : toric_even_parity_statement.
Proof. intros rows cols Hr Hc e He. exact (toric_even_parity rows cols Hr Hc e He). Qed.

(* ------------------------------------------------------------------ *)
(** * Non-vacuity: a 3x3 torus (t = 1), X on one qubit and Z on another  *)
(* ------------------------------------------------------------------ *)
(* every perfect matching must cover node a, and every edge at a weighs at least c *)
Lemma twtotal_member (mw : twmates) t : (forall u, In u mw -> 0 <= snd u) -> In t mw -> snd t <= twtotal mw.
Proof.
  induction mw as [|u mw IH]; intros Hp Hin; [destruct Hin|]. rewrite twtotal_cons.
  assert (0 <= twtotal mw).
  { clear IH Hin. induction mw as [|v mw IH]; [cbn; lia|]. rewrite twtotal_cons.
    pose proof (Hp v ltac:(cbn; auto)). specialize (IH ltac:(intros x [Hx|Hx]; apply Hp; cbn; auto)). lia. }
  pose proof (Hp u ltac:(cbn; auto)). destruct Hin as [->|Hin]; [lia|]. specialize (IH ltac:(intros; apply Hp; cbn; auto) Hin). lia.
Qed.
Lemma tperfect_lower_bound g nodes a c : (forall x y w, In (x, y, Some w) g -> 0 <= w) ->
  (forall x y w, In (x, y, Some w) g -> x = a \/ y = a -> c <= w) -> In a nodes ->
  forall mw, tperfect_in g nodes mw -> c <= twtotal mw.
Proof.
  intros Hpos Ha Hin mw [Pm Hd].
  assert (Hnn : forall u, In u mw -> 0 <= snd u).
  { intros [[x y] w] Hu. cbn [snd]. destruct (Hd x y w Hu) as [H|H]; eapply Hpos; eauto. }
  assert (Hm : In a (ends2 (tunw mw))) by (eapply Permutation_in; [apply Permutation_sym; exact Pm|exact Hin]).
  unfold ends2 in Hm. apply in_flat_map in Hm. destruct Hm as ([x y] & Hxy & Hax). unfold tunw in Hxy. apply in_map_iff in Hxy.
  destruct Hxy as ([[x' y'] w] & E & Ht). cbn [fst] in E. injection E as -> ->. cbn [fst snd] in Hax.
  pose proof (twtotal_member mw _ Hnn Ht) as Hw. cbn [snd] in Hw.
  assert (c <= w); [|lia].
  destruct (Hd x y w Ht) as [H|H]; apply (Ha _ _ _ H); destruct Hax as [<-|[<-|[]]]; auto.
Qed.

Example toric_mwpm_corrects_ex :
  let e := p_to_bsf (tsite 3 3 pX (0, 0, 2) (tsite 3 3 pZ (1, 2, 0) (tnew_pauli 3 3))) in
  let S := stabs (toric_code 3 3) in
  let syn := syndrome_of S e in
  let mw0 : twmates := [((0, 0, 2), (0, 2, 2), 1)] in
  let mw1 : twmates := [((1, 1, 0), (1, 2, 0), 1)] in
  toric_graph 3 3 0 syn = [((0, 0, 2), (0, 2, 2), Some 1)] /\
  toric_graph 3 3 1 syn = [((1, 1, 0), (1, 2, 0), Some 1)] /\
  length e = 36%nat /\ Z.of_nat (txweight 3 3 e) <= ttcap 3 3 /\ Z.of_nat (tzweight 3 3 e) <= ttcap 3 3 /\
  tmin_perfect_in (toric_graph 3 3 0 syn) (lattice_defects 3 3 0 syn) mw0 /\
  tmin_perfect_in (toric_graph 3 3 1 syn) (lattice_defects 3 3 1 syn) mw1 /\
  exists r, toric_mwpm_recovery 3 3 (tunw mw0 ++ tunw mw1) = Some r /\ in_spanP 36 S (xorv r e).
Proof.
  intros e S syn mw0 mw1.
  assert (Eg0 : toric_graph 3 3 0 syn = [((0, 0, 2), (0, 2, 2), Some 1)]) by (vm_compute; reflexivity).
  assert (Eg1 : toric_graph 3 3 1 syn = [((1, 1, 0), (1, 2, 0), Some 1)]) by (vm_compute; reflexivity).
  assert (En0 : lattice_defects 3 3 0 syn = [(0, 0, 2); (0, 2, 2)]) by (vm_compute; reflexivity).
  assert (En1 : lattice_defects 3 3 1 syn = [(1, 1, 0); (1, 2, 0)]) by (vm_compute; reflexivity).
  assert (Le : length e = 36%nat) by (vm_compute; reflexivity).
  assert (Wx : Z.of_nat (txweight 3 3 e) <= ttcap 3 3) by (vm_compute; discriminate).
  assert (Wz : Z.of_nat (tzweight 3 3 e) <= ttcap 3 3) by (vm_compute; discriminate).
  assert (P0 : tperfect_in (toric_graph 3 3 0 syn) (lattice_defects 3 3 0 syn) mw0).
  { rewrite Eg0, En0. split; [apply Permutation_refl|]. intros a b w Hin. cbn in Hin.
    destruct Hin as [E|[]]; injection E as <- <- <-; cbn; auto. }
  assert (P1 : tperfect_in (toric_graph 3 3 1 syn) (lattice_defects 3 3 1 syn) mw1).
  { rewrite Eg1, En1. split; [apply Permutation_refl|]. intros a b w Hin. cbn in Hin.
    destruct Hin as [E|[]]; injection E as <- <- <-; cbn; auto. }
  assert (M0 : tmin_perfect_in (toric_graph 3 3 0 syn) (lattice_defects 3 3 0 syn) mw0).
  { split; [exact P0|]. intros mw' H'. change (twtotal mw0) with 1.
    apply (tperfect_lower_bound (toric_graph 3 3 0 syn) (lattice_defects 3 3 0 syn) (0, 0, 2)); auto.
    - rewrite Eg0. intros x y w Hin. cbn in Hin. destruct Hin as [E|[]]; injection E as <- <- <-; lia.
    - rewrite Eg0. intros x y w Hin. cbn in Hin. destruct Hin as [E|[]]; injection E as <- <- <-; intros _; lia.
    - rewrite En0. cbn; auto. }
  assert (M1 : tmin_perfect_in (toric_graph 3 3 1 syn) (lattice_defects 3 3 1 syn) mw1).
  { split; [exact P1|]. intros mw' H'. change (twtotal mw1) with 1.
    apply (tperfect_lower_bound (toric_graph 3 3 1 syn) (lattice_defects 3 3 1 syn) (1, 1, 0)); auto.
    - rewrite Eg1. intros x y w Hin. cbn in Hin. destruct Hin as [E|[]]; injection E as <- <- <-; lia.
    - rewrite Eg1. intros x y w Hin. cbn in Hin. destruct Hin as [E|[]]; injection E as <- <- <-; intros _; lia.
    - rewrite En1. cbn; auto. }
  split; [exact Eg0|]. split; [exact Eg1|]. split; [exact Le|]. split; [exact Wx|]. split; [exact Wz|].
  split; [exact M0|]. split; [exact M1|].
  destruct (toric_mwpm_corrects 3 3 ltac:(lia) ltac:(lia) e mw0 mw1 Le Wx Wz M0 M1) as (r & R1 & _ & _ & R4). eauto.
Qed.

Print Assumptions ptaxi_tri.
Print Assumptions toric_mwpm_corrects.
Print Assumptions toric_mwpm_corrects_mates.
Print Assumptions toric_mwpm_corrects_all.
Print Assumptions toric_mwpm_decode_corrects.
Print Assumptions toric_even_parity_all.
Print Assumptions toric_mwpm_corrects_ex.
