(* Decoders/ToricMwpm.v — model of ToricMWPMDecoder.decode (toric/_toricmwpmdecoder.py:44-67): per lattice
   (primal = 0, dual = 1) the node list is the list of defect plaquettes of that lattice; the recovery is the
   product of ToricPauli.path over the mates of a matching given as input.
   Theorem (all sizes): for EVERY perfect matching of the two node lists the recovery has exactly the given
   syndrome.  (A perfect matching exists only if each lattice has an even number of defects.) *)
From Coq Require Import ZArith List Bool Lia ZifyBool Permutation.
From QV Require Import Core.Bits Core.Pauli Core.Symp Core.Code App.RunOnce Generated.LatticeArith
  Lattice.Planar Lattice.PlanarAll Lattice.Toric Lattice.ToricAll Decoders.Checker Decoders.MwpmRel.
Import ListNotations.
Open Scope Z_scope.
Ltac Zify.zify_post_hook ::= Z.to_euclidean_division_equations.

Notation tmates := (list (tidx * tidx)).

Section ToricMwpm.
Variables rows cols : Z.

Definition tdefects (syn : bsf) : list tidx := tsyndrome_to_plaquette_indices rows cols syn.
(* [(la, r, c) for la, r, c in plaquette_indices if la == lattice] *)
Definition lattice_defects (lattice : Z) (syn : bsf) : list tidx :=
  filter (fun i => fst (fst i) =? lattice) (tdefects syn).
Fixpoint tapply_paths (m : tmates) (p : pauli) : option pauli :=
  match m with
  | [] => Some p
  | (a, b) :: m' => match tpath rows cols a b p with Some p' => tapply_paths m' p' | None => None end
  end.
(* primal mates first, then dual mates *)
Definition toric_mwpm_recovery (m : tmates) : option bsf :=
  option_map p_to_bsf (tapply_paths m (tnew_pauli rows cols)).

Hypothesis Hr : 2 <= rows.
Hypothesis Hc : 2 <= cols.
Notation TN := (toric_n rows cols).
Notation TI := (tindices rows cols).
Notation S := (stabs (toric_code rows cols)).
Notation always := (fun _ : tidx => true).

Definition tpathop (a b : tidx) : bsf :=
  match tpath rows cols a b (tnew_pauli rows cols) with Some p => p_to_bsf p | None => zeros (TN + TN) end.
Definition tind (x : tidx) : bsf := indv zeqb3 TI x.
Definition tok (a b : tidx) : Prop := inrange rows cols a /\ inrange rows cols b /\ fst (fst a) = fst (fst b).

Lemma tstabs_len : length S = length TI.
Proof. rewrite tcode_eq. cbn [stabs]. apply map_length. Qed.
Lemma tnew_pauli_bsf : p_to_bsf (tnew_pauli rows cols) = zeros (TN + TN).
Proof. unfold tnew_pauli, pzero, p_to_bsf. cbn. apply zeros_app. Qed.
Lemma tsites_gsites op L p : tsites rows cols op L p = gsites always (tfl rows cols) op L p.
Proof. reflexivity. Qed.

Lemma tok_path a b : tok a b -> exists rs cs, toric_translation rows cols a b = Some (rs, cs) /\
  tpathop a b = tsop rows cols (tpath_op rows cols a) (tpath_sites (mod3 a (tshape rows cols)) rs cs) /\
  syndrome_of S (tpathop a b) = xorv (tind a) (tind b).
Proof.
  intros (Ha & Hb & Hl).
  assert (Hl' : fst (fst (m3 rows cols a)) = fst (fst (m3 rows cols b))) by (rewrite !m3_id; auto).
  destruct (translation_end rows cols a b Hl') as (rs & cs & Ht & _). exists rs, cs. split; auto.
  split; [unfold tpathop, tpath; now rewrite Ht|].
  destruct (toric_path_syndrome_all rows cols Hr Hc a b Hl') as (p & Hp & Hsyn).
  unfold tpathop. rewrite Hp, Hsyn. rewrite !m3_id by auto. unfold tind, indv. now rewrite xorv_map2.
Qed.
Lemma tok_len a b : tok a b -> length (tpathop a b) = (TN + TN)%nat.
Proof. intros H. destruct (tok_path a b H) as (rs & cs & _ & -> & _). apply tsop_length. Qed.
Lemma tok_syn a b : tok a b -> syndrome_of S (tpathop a b) = xorv (tind a) (tind b).
Proof. intros H. destruct (tok_path a b H) as (rs & cs & _ & _ & E). exact E. Qed.
Lemma tind_len x : length (tind x) = length S.
Proof. unfold tind. now rewrite indv_len, tstabs_len. Qed.

Lemma tapply_paths_xsum : forall (m : tmates) p, (forall q, In q m -> tok (fst q) (snd q)) ->
  length (pxs p) = TN -> length (pzs p) = TN ->
  exists p', tapply_paths m p = Some p' /\
    p_to_bsf p' = xorv (p_to_bsf p) (xsum (TN + TN) (pair_ops tidx tpathop m)).
Proof.
  induction m as [|[a b] m IH]; intros p Hok Hx Hz.
  - exists p. split; [reflexivity|]. cbn. rewrite <- (xorv_zeros_r (p_to_bsf p)) at 1. f_equal.
    unfold p_to_bsf. rewrite app_length, Hx, Hz. reflexivity.
  - pose proof (Hok (a, b) ltac:(cbn; auto)) as Hab. cbn [fst snd] in Hab.
    destruct (tok_path a b Hab) as (rs & cs & Ht & Hp & _).
    cbn [tapply_paths]. unfold tpath at 1. rewrite Ht.
    set (L := tpath_sites (mod3 a (tshape rows cols)) rs cs) in *.
    set (p1 := tsites rows cols (tpath_op rows cols a) L p).
    destruct (tsites_lengths rows cols (tpath_op rows cols a) L p) as [L1 L2].
    destruct (IH p1) as (p' & Hp' & Hbsf); [intros q Hq; apply Hok; cbn; auto|unfold p1; lia|unfold p1; lia|].
    exists p'. split; auto. rewrite Hbsf. unfold p1.
    rewrite tsites_gsites, (gsites_xor always (tfl rows cols) TN) by (auto; apply tklt; auto).
    cbn [pair_ops map fst snd]. rewrite xsum_cons, Hp, tsop_gop. now rewrite xorv_assoc.
Qed.

Lemma NoDup_TI : NoDup TI.
Proof.
  unfold tindices, tshape, ndindex3. apply NoDup_flat_map; [apply seq_NoDup| |].
  - intros l _. apply NoDup_map_inj_in; [|apply NoDup_ndindex2]. intros [x1 y1] [x2 y2] _ _ H. cbn in H. congruence.
  - intros x y b _ _ Hx Hy. apply in_map_iff in Hx, Hy. destruct Hx as (c & <- & _), Hy as (c' & E & _).
    injection E. lia.
Qed.
Lemma tdefect_in_TI syn q : In q (tdefects syn) -> In q TI.
Proof. unfold tdefects, tsyndrome_to_plaquette_indices. apply select_incl. Qed.

Lemma tmates_ok la syn m : Permutation (ends2 m) (lattice_defects la syn) -> forall q, In q m -> tok (fst q) (snd q).
Proof.
  intros P [a b] Hq. cbn [fst snd].
  assert (Hn : forall x, In x (ends2 m) -> inrange rows cols x /\ fst (fst x) = la).
  { intros x Hx. apply (Permutation_in _ P) in Hx. apply filter_In in Hx. destruct Hx as [Hx E].
    split; [apply in_tindices; auto; eapply tdefect_in_TI; eauto|lia]. }
  assert (Ha : In a (ends2 m)) by (unfold ends2; apply in_flat_map; exists (a, b); cbn; auto).
  assert (Hb : In b (ends2 m)) by (unfold ends2; apply in_flat_map; exists (a, b); cbn; auto).
  destruct (Hn a Ha) as [A1 A2], (Hn b Hb) as [B1 B2]. repeat split; try apply A1; try apply B1. congruence.
Qed.

(* a perfect matching of a node list exists only when the list has an even number of nodes *)
Lemma perfect_even {A} (m : list (A * A)) l : Permutation (ends2 m) l -> Nat.even (length l) = true.
Proof.
  intros P. rewrite <- (Permutation_length P). unfold ends2. clear P. induction m as [|p m IH]; [reflexivity|].
  cbn [flat_map app length]. exact IH.
Qed.

Theorem toric_mwpm_syndrome (syn : bsf) (m0 m1 : tmates) :
  length syn = length TI ->
  Permutation (ends2 m0) (lattice_defects 0 syn) -> Permutation (ends2 m1) (lattice_defects 1 syn) ->
  exists r, toric_mwpm_recovery (m0 ++ m1) = Some r /\ length r = (TN + TN)%nat /\ syndrome_of S r = syn.
Proof.
  intros HL P0 P1.
  assert (Hok : forall q, In q (m0 ++ m1) -> tok (fst q) (snd q)).
  { intros q Hq. apply in_app_iff in Hq. destruct Hq; [eapply (tmates_ok 0)|eapply (tmates_ok 1)]; eauto. }
  destruct (tapply_paths_xsum (m0 ++ m1) (tnew_pauli rows cols) Hok) as (p' & Hp' & Hbsf);
    [unfold tnew_pauli, pzero; cbn; apply zeros_length|unfold tnew_pauli, pzero; cbn; apply zeros_length|].
  exists (p_to_bsf p'). unfold toric_mwpm_recovery. rewrite Hp'. split; [reflexivity|].
  pose proof (pair_ops_rowlen tidx (TN + TN) tpathop tok tok_len (m0 ++ m1) Hok) as Hrow.
  rewrite Hbsf, tnew_pauli_bsf, xorv_zeros_l by (apply xsum_len; exact Hrow).
  split; [apply xsum_len; exact Hrow|].
  rewrite (rel_recovery_syndrome tidx S (TN + TN) tind tpathop tok tind_len tok_len tok_syn (m0 ++ m1)
             (lattice_defects 0 syn ++ lattice_defects 1 syn) Hok)
    by (rewrite ends2_app; now apply Permutation_app).
  rewrite tstabs_len. unfold tind. rewrite xsum_indv.
  transitivity (map (fun q => xsumb (zeqb3 q) (tdefects syn)) TI);
    [|apply (select_indicator zeqb3 zeqb3_eq TI syn NoDup_TI HL)].
  apply map_ext_in. intros q Hq. rewrite xsumb_app. unfold lattice_defects.
  rewrite <- (xsumb_filter_split (zeqb3 q) (fun i : tidx => fst (fst i) =? 0) (tdefects syn)). f_equal.
  f_equal. apply filter_ext_in. intros x Hx. apply tdefect_in_TI, in_tindices in Hx. unfold inrange in Hx.
  destruct (fst (fst x) =? 0) eqn:E0, (fst (fst x) =? 1) eqn:E1; cbn; lia.
Qed.
Corollary toric_mwpm_syndrome_of_error (e : bsf) (m0 m1 : tmates) :
  let syn := syndrome_of S e in
  Permutation (ends2 m0) (lattice_defects 0 syn) -> Permutation (ends2 m1) (lattice_defects 1 syn) ->
  exists r, toric_mwpm_recovery (m0 ++ m1) = Some r /\ length r = (TN + TN)%nat /\ syndrome_of S r = syndrome_of S e.
Proof. intros syn. apply toric_mwpm_syndrome. unfold syn. now rewrite syndrome_length, tstabs_len. Qed.
End ToricMwpm.

(* not proved here: the syndrome of every error has an even number of defects on each lattice (so that a perfect
   matching of each node list exists), and the matcher returns one (C13's contract) *)
Definition toric_even_parity_statement : Prop :=
  forall rows cols, 2 <= rows -> 2 <= cols -> forall e, length e = (toric_n rows cols + toric_n rows cols)%nat ->
    let syn := syndrome_of (stabs (toric_code rows cols)) e in
    Nat.even (length (lattice_defects rows cols 0 syn)) = true /\ Nat.even (length (lattice_defects rows cols 1 syn)) = true.
Definition toric_mwpm_end_to_end_statement : Prop :=
  forall (matcher : list tidx -> tmates) rows cols, 2 <= rows -> 2 <= cols -> forall e,
    let syn := syndrome_of (stabs (toric_code rows cols)) e in
    exists r, toric_mwpm_recovery rows cols (matcher (lattice_defects rows cols 0 syn) ++ matcher (lattice_defects rows cols 1 syn)) = Some r /\
              syndrome_of (stabs (toric_code rows cols)) r = syn.
Example toric_mwpm_ex :
  let St := stabs (toric_code 3 3) in
  let e := p_to_bsf (tsite 3 3 pX (0, 0, 2) (tsite 3 3 pZ (1, 2, 0) (tnew_pauli 3 3))) in
  let syn := syndrome_of St e in
  lattice_defects 3 3 0 syn = [(0, 0, 2); (0, 2, 2)] /\ lattice_defects 3 3 1 syn = [(1, 1, 0); (1, 2, 0)] /\
  option_map (syndrome_of St) (toric_mwpm_recovery 3 3 ([((0, 2, 2), (0, 0, 2))] ++ [((1, 1, 0), (1, 2, 0))])) = Some syn.
Proof. vm_compute. repeat split; reflexivity. Qed.
Print Assumptions toric_mwpm_syndrome.
