(* Decoders/PlanarMwpm.v — model of PlanarMWPMDecoder.decode (planar/_planarmwpmdecoder.py:48-89):
   the node list handed to the matcher (defect plaquettes of one lattice, the nearest virtual plaquette of
   each, the extra far-away virtual node when their number is odd) and the recovery as the product of
   `path` over the mates of a matching given as input (the matcher is not modelled).
   Theorem (all sizes): for EVERY perfect matching of the node lists in which the extra node is not mated
   with a defect, the recovery has exactly the given syndrome. *)
From Coq Require Import ZArith List Bool Lia ZifyBool Permutation.
From QV Require Import Core.Bits Core.Pauli Core.Symp Core.Code App.RunOnce Generated.LatticeArith
  Lattice.Planar Lattice.PlanarAll Decoders.Checker Decoders.MwpmRel.
Import ListNotations.
Open Scope Z_scope.
Ltac Zify.zify_post_hook ::= Z.to_euclidean_division_equations.

(* "extra virtual indices are deliberately well off-boundary" *)
Definition extra_primal : idx := (-9, -10).
Definition extra_dual : idx := (-10, -9).
Notation mates := (list (idx * idx)).

Section PlanarMwpm.
Variables rows cols : Z.

Definition vnode (i : idx) : idx :=
  match planar_virtual_plaquette_index rows cols i with Some v => v | None => i end.
Definition defects (syn : bsf) : list idx := syndrome_to_plaquette_indices rows cols syn.
Definition primal_defects (syn : bsf) : list idx := filter planar_is_primal (defects syn).
Definition dual_defects (syn : bsf) : list idx := filter planar_is_dual (defects syn).
(* indices, then the set of their virtual indices, then the parity-fixing extra node *)
Definition lattice_nodes (ds : list idx) (extra : idx) : list idx :=
  let vs := dedup (map vnode ds) in
  ds ++ vs ++ (if Nat.odd (length ds + length vs) then [extra] else []).
Definition primal_nodes (syn : bsf) : list idx := lattice_nodes (primal_defects syn) extra_primal.
Definition dual_nodes (syn : bsf) : list idx := lattice_nodes (dual_defects syn) extra_dual.

(* for a_index, b_index in mates: recovery_pauli.path(a_index, b_index)  — None = IndexError *)
Fixpoint apply_paths (m : mates) (p : pauli) : option pauli :=
  match m with
  | [] => Some p
  | (a, b) :: m' => match path rows cols a b p with Some p' => apply_paths m' p' | None => None end
  end.
(* the primal mates are applied first, then the dual ones: m = primal_mates ++ dual_mates *)
Definition mwpm_recovery (m : mates) : option bsf := option_map p_to_bsf (apply_paths m (new_pauli rows cols)).

(* the extra node is joined by the decoder's graph to virtual nodes only *)
Definition extra_not_with_defect (extra : idx) (m : mates) : Prop :=
  forall a b, In (a, b) m ->
    (a = extra -> planar_is_in_bounds rows cols b = false) /\ (b = extra -> planar_is_in_bounds rows cols a = false).

Hypothesis Hr : 2 <= rows.
Hypothesis Hc : 2 <= cols.
Notation inb := (planar_is_in_bounds rows cols).
Notation N := (planar_n rows cols).
Notation PI := (plaquette_indices rows cols).
Notation S := (stabs (planar_code rows cols)).

Definition pathop (a b : idx) : bsf :=
  match path rows cols a b (new_pauli rows cols) with Some p => p_to_bsf p | None => zeros (N + N) end.
Definition ind (x : idx) : bsf := indv zeqb2 PI x.
(* what the theorem needs to know about a mate pair *)
Definition ok (a b : idx) : Prop :=
  ptype a /\ ptype b /\ same_type a b /\
  ((instrip rows cols a /\ instrip rows cols b) \/ (inb a = false /\ inb b = false)).

Lemma stabs_len : length S = length PI.
Proof. rewrite code_eq. cbn [stabs]. apply map_length. Qed.
Lemma new_pauli_bsf : p_to_bsf (new_pauli rows cols) = zeros (N + N).
Proof. unfold new_pauli, pzero, p_to_bsf. cbn. apply zeros_app. Qed.

Lemma ok_path a b : ok a b -> exists rs cs, planar_translation rows cols a b = Some (rs, cs) /\
  pathop a b = sop rows cols (path_op a) (path_sites a rs cs) /\
  syndrome_of S (pathop a b) = xorv (ind a) (ind b).
Proof.
  intros (Ha & Hb & Hab & Hcase).
  destruct (translation_cases rows cols a b Ha Hb Hab) as (rs & cs & Ht & Hc').
  exists rs, cs. split; auto.
  assert (Hp : pathop a b = sop rows cols (path_op a) (path_sites a rs cs)) by (unfold pathop, path; now rewrite Ht).
  split; auto. unfold ind, indv. rewrite xorv_map2.
  destruct Hcase as [[Hsa Hsb]|[Hia Hib]].
  - destruct (planar_path_syndrome_all rows cols Hr Hc a b Ha Hb Hab Hsa Hsb) as (p & Hpath & Hsyn).
    unfold pathop. now rewrite Hpath.
  - destruct Hc' as [(_ & _ & -> & ->)|([E|E] & _)]; try congruence.
    rewrite Hp. unfold sop. cbn [path_sites Z.to_nat Z.opp walk app sites fold_left].
    rewrite new_pauli_bsf, syndrome_zeros, stabs_len. symmetry.
    rewrite <- (map_false PI). apply map_ext_in. intros q Hq. apply in_plaquette_indices in Hq.
    rewrite (zeqb2_inb_neq rows cols q a), (zeqb2_inb_neq rows cols q b); tauto.
Qed.
Lemma ok_len a b : ok a b -> length (pathop a b) = (N + N)%nat.
Proof. intros H. destruct (ok_path a b H) as (rs & cs & _ & -> & _). apply sop_length. Qed.
Lemma ok_syn a b : ok a b -> syndrome_of S (pathop a b) = xorv (ind a) (ind b).
Proof. intros H. destruct (ok_path a b H) as (rs & cs & _ & _ & E). exact E. Qed.
Lemma ind_len x : length (ind x) = length S.
Proof. unfold ind. now rewrite indv_len, stabs_len. Qed.

(* the loop over the mates computes the XOR of the individual path operators *)
Lemma apply_paths_xsum : forall (m : mates) p, (forall q, In q m -> ok (fst q) (snd q)) ->
  length (pxs p) = N -> length (pzs p) = N ->
  exists p', apply_paths m p = Some p' /\
    p_to_bsf p' = xorv (p_to_bsf p) (xsum (N + N) (pair_ops idx pathop m)).
Proof.
  induction m as [|[a b] m IH]; intros p Hok Hx Hz.
  - exists p. split; [reflexivity|]. cbn. rewrite <- (xorv_zeros_r (p_to_bsf p)) at 1. f_equal.
    unfold p_to_bsf. rewrite app_length, Hx, Hz. reflexivity.
  - pose proof (Hok (a, b) ltac:(cbn; auto)) as Hab. cbn [fst snd] in Hab.
    destruct (ok_path a b Hab) as (rs & cs & Ht & Hp & _).
    cbn [apply_paths]. unfold path at 1. rewrite Ht.
    set (L := path_sites a rs cs) in *. set (p1 := sites rows cols (path_op a) L p).
    assert (HL : klt inb (fl rows cols) N L) by (apply klt_sites; auto; apply path_sites_sites; apply Hab).
    destruct (sites_lengths rows cols (path_op a) L p) as [L1 L2].
    destruct (IH p1) as (p' & Hp' & Hbsf); [intros q Hq; apply Hok; cbn; auto|unfold p1; lia|unfold p1; lia|].
    exists p'. split; auto. rewrite Hbsf. unfold p1. rewrite sites_gsites, (gsites_xor inb (fl rows cols) N) by auto.
    cbn [pair_ops map fst snd]. rewrite xsum_cons, Hp. unfold sop. rewrite sites_gsites. fold (gop inb (fl rows cols) N (path_op a) L).
    now rewrite xorv_assoc.
Qed.

(* ---- the nodes of one lattice ---- *)
Definition lat (x : idx) (primal : bool) : Prop := ptype x /\ planar_is_primal x = primal.
Lemma lat_same_type x y pr : lat x pr -> lat y pr -> same_type x y.
Proof.
  intros [Hx Px] [Hy Py]. rewrite (primal_of_ptype x Hx) in Px. rewrite (primal_of_ptype y Hy) in Py.
  unfold same_type, ptype in *. destruct pr; lia.
Qed.
Lemma defect_in_PI syn q : In q (defects syn) -> In q PI.
Proof. unfold defects, syndrome_to_plaquette_indices. apply select_incl. Qed.
Lemma defect_facts q : In q PI -> ptype q /\ instrip rows cols q /\ inb q = true /\
  ptype (vnode q) /\ same_type (vnode q) q /\ instrip rows cols (vnode q) /\ inb (vnode q) = false.
Proof.
  intros Hq. destruct (planar_virtual_props rows cols Hr Hc q Hq) as (v & Hv & H1 & H2 & H3 & H4 & H5 & H6).
  unfold vnode. rewrite Hv. apply in_plaquette_indices in Hq. tauto.
Qed.
Lemma in_dedup x l : In x (dedup l) -> In x l.
Proof.
  induction l as [|a l IH]; cbn; auto. destruct (existsb (zeqb2 a) l); cbn; intros H; [auto|destruct H; auto].
Qed.
Lemma extra_primal_facts : lat extra_primal true /\ inb extra_primal = false.
Proof. unfold lat, ptype, extra_primal. rewrite inb_unfold, primal_unfold. cbn [fst snd]. repeat split; lia. Qed.
Lemma extra_dual_facts : lat extra_dual false /\ inb extra_dual = false.
Proof. unfold lat, ptype, extra_dual. rewrite inb_unfold, primal_unfold. cbn [fst snd]. repeat split; lia. Qed.

(* every node of a lattice list: of that lattice; a defect or its virtual node lies in the strip, the extra
   node is outside the lattice; only defects are inside *)
Lemma lattice_node_facts (ds : list idx) extra pr : (forall q, In q ds -> In q PI /\ planar_is_primal q = pr) ->
  lat extra pr -> inb extra = false ->
  forall x, In x (lattice_nodes ds extra) ->
    lat x pr /\ ((instrip rows cols x /\ x <> extra \/ x = extra) /\ (inb x = true -> In x ds)).
Proof.
  intros Hds Hex Hexb x Hx. unfold lattice_nodes in Hx. apply in_app_iff in Hx. destruct Hx as [Hx|Hx]; [|apply in_app_iff in Hx; destruct Hx as [Hx|Hx]].
  - destruct (Hds x Hx) as [HPI Hpr]. destruct (defect_facts x HPI) as (H1 & H2 & H3 & _).
    split; [split; auto|]. split; auto. left. split; auto. intros ->. congruence.
  - apply in_dedup in Hx. apply in_map_iff in Hx. destruct Hx as (q & <- & Hq).
    destruct (Hds q Hq) as [HPI Hpr]. destruct (defect_facts q HPI) as (H1 & H2 & H3 & H4 & H5 & H6 & H7).
    split; [split; auto|].
    + rewrite (primal_of_ptype _ H4). rewrite (primal_of_ptype _ H1) in Hpr. destruct H5 as [E _]. now rewrite E.
    + split; [|intros E; congruence]. destruct (zeqb2 (vnode q) extra) eqn:E; [apply zeqb2_eq in E; auto|].
      left. split; auto. intros E'. rewrite E', zeqb2_refl in E. discriminate.
  - destruct (Nat.odd _); [|destruct Hx]. destruct Hx as [<-|[]]. split; auto. split; auto. intros E. congruence.
Qed.

Lemma mates_ok ds extra pr m : (forall q, In q ds -> In q PI /\ planar_is_primal q = pr) ->
  lat extra pr -> inb extra = false ->
  Permutation (ends2 m) (lattice_nodes ds extra) -> extra_not_with_defect extra m ->
  forall q, In q m -> ok (fst q) (snd q).
Proof.
  intros Hds Hex Hexb P Hno [a b] Hq. cbn [fst snd].
  assert (Ha : In a (lattice_nodes ds extra)).
  { eapply Permutation_in; [exact P|]. unfold ends2. apply in_flat_map. exists (a, b). cbn. auto. }
  assert (Hb : In b (lattice_nodes ds extra)).
  { eapply Permutation_in; [exact P|]. unfold ends2. apply in_flat_map. exists (a, b). cbn. auto. }
  destruct (lattice_node_facts ds extra pr Hds Hex Hexb a Ha) as (La & Sa & _).
  destruct (lattice_node_facts ds extra pr Hds Hex Hexb b Hb) as (Lb & Sb & _).
  destruct (Hno a b Hq) as [N1 N2].
  split; [apply La|]. split; [apply Lb|]. split; [eapply lat_same_type; eauto|].
  destruct Sa as [[Sa _]| ->], Sb as [[Sb _]| ->]; auto.
Qed.

Lemma NoDup_PI : NoDup PI.
Proof.
  unfold plaquette_indices. destruct (planar_bounds rows cols) as [mr mc].
  set (all := filter planar_is_plaquette (ndindex2 (mr + 1) (mc + 1))).
  assert (Hall : NoDup all) by (apply NoDup_filter, NoDup_ndindex2).
  apply NoDup_app_disj; try now apply NoDup_filter.
  intros x H1 H2. apply filter_In in H1, H2. destruct H1 as [_ H1], H2 as [_ H2]. rewrite H1 in H2. discriminate.
Qed.

(* indicator sum of a lattice's nodes = indicator of its defects *)
Lemma xsumb_nodes ds extra pr q : (forall d, In d ds -> In d PI /\ planar_is_primal d = pr) ->
  lat extra pr -> inb extra = false -> In q PI ->
  xsumb (zeqb2 q) (lattice_nodes ds extra) = xsumb (zeqb2 q) ds.
Proof.
  intros Hds Hex Hexb Hq. unfold lattice_nodes. rewrite !xsumb_app.
  apply in_plaquette_indices in Hq. destruct Hq as [_ Hq].
  assert (E1 : xsumb (zeqb2 q) (dedup (map vnode ds)) = false).
  { rewrite <- (xsumb_false (dedup (map vnode ds))). apply xsumb_ext. intros v Hv. apply in_dedup in Hv.
    apply in_map_iff in Hv. destruct Hv as (d & <- & Hd). destruct (Hds d Hd) as [HPI _].
    apply (zeqb2_inb_neq rows cols); auto. now destruct (defect_facts d HPI) as (_ & _ & _ & _ & _ & _ & H). }
  assert (E2 : xsumb (zeqb2 q) (if Nat.odd (length ds + length (dedup (map vnode ds))) then [extra] else []) = false).
  { destruct (Nat.odd _); cbn; auto. now rewrite (zeqb2_inb_neq rows cols q extra). }
  rewrite E1, E2. now rewrite !xorb_false_r.
Qed.

Theorem planar_mwpm_syndrome (syn : bsf) (mp md : mates) :
  length syn = length PI ->
  Permutation (ends2 mp) (primal_nodes syn) -> Permutation (ends2 md) (dual_nodes syn) ->
  extra_not_with_defect extra_primal mp -> extra_not_with_defect extra_dual md ->
  exists r, mwpm_recovery (mp ++ md) = Some r /\ length r = (N + N)%nat /\ syndrome_of S r = syn.
Proof.
  intros HL Pp Pd Np Nd.
  assert (Dp : forall q, In q (primal_defects syn) -> In q PI /\ planar_is_primal q = true).
  { intros q Hq. apply filter_In in Hq. destruct Hq as [Hq E]. split; auto. eapply defect_in_PI; eauto. }
  assert (Dd : forall q, In q (dual_defects syn) -> In q PI /\ planar_is_primal q = false).
  { intros q Hq. apply filter_In in Hq. destruct Hq as [Hq E]. unfold planar_is_dual in E. apply negb_true_iff in E.
    split; auto. eapply defect_in_PI; eauto. }
  destruct extra_primal_facts as [Ep Ebp]. destruct extra_dual_facts as [Ed Ebd].
  assert (Hok : forall q, In q (mp ++ md) -> ok (fst q) (snd q)).
  { intros q Hq. apply in_app_iff in Hq. destruct Hq as [Hq|Hq].
    - eapply (mates_ok _ extra_primal true mp); eauto.
    - eapply (mates_ok _ extra_dual false md); eauto. }
  destruct (apply_paths_xsum (mp ++ md) (new_pauli rows cols) Hok) as (p' & Hp' & Hbsf);
    [unfold new_pauli, pzero; cbn; apply zeros_length|unfold new_pauli, pzero; cbn; apply zeros_length|].
  exists (p_to_bsf p'). unfold mwpm_recovery. rewrite Hp'. split; [reflexivity|].
  pose proof (pair_ops_rowlen idx (N + N) pathop ok ok_len (mp ++ md) Hok) as Hrow.
  rewrite Hbsf, new_pauli_bsf, xorv_zeros_l by (apply xsum_len; exact Hrow).
  split; [apply xsum_len; exact Hrow|].
  rewrite (rel_recovery_syndrome idx S (N + N) ind pathop ok ind_len ok_len ok_syn (mp ++ md)
             (primal_nodes syn ++ dual_nodes syn) Hok)
    by (rewrite ends2_app; now apply Permutation_app).
  rewrite stabs_len. unfold ind. rewrite xsum_indv.
  transitivity (map (fun q => xsumb (zeqb2 q) (defects syn)) PI);
    [|apply (select_indicator zeqb2 zeqb2_eq PI syn NoDup_PI HL)].
  apply map_ext_in. intros q Hq. rewrite xsumb_app. unfold primal_nodes, dual_nodes.
  rewrite (xsumb_nodes _ extra_primal true q Dp Ep Ebp Hq), (xsumb_nodes _ extra_dual false q Dd Ed Ebd Hq).
  unfold primal_defects, dual_defects, planar_is_dual. apply xsumb_filter_split.
Qed.

(* ... in particular for the syndrome of any error (the property's quantifier) *)
Corollary planar_mwpm_syndrome_of_error (e : bsf) (mp md : mates) :
  let syn := syndrome_of S e in
  Permutation (ends2 mp) (primal_nodes syn) -> Permutation (ends2 md) (dual_nodes syn) ->
  extra_not_with_defect extra_primal mp -> extra_not_with_defect extra_dual md ->
  exists r, mwpm_recovery (mp ++ md) = Some r /\ length r = (N + N)%nat /\ syndrome_of S r = syndrome_of S e.
Proof. intros syn. apply planar_mwpm_syndrome. unfold syn. now rewrite syndrome_length, stabs_len. Qed.
End PlanarMwpm.

(* not proved: that every matching returned for the decoder's graph satisfies the two hypotheses, i.e. that the
   graph handed to the matcher has exactly these nodes and no edge between the extra node and a defect (this is
   compared with the implementation by harness/c02_mwpm.py) and that the matcher returns a perfect matching of
   it (C13's contract) *)
Definition planar_mwpm_end_to_end_statement : Prop :=
  forall (matcher : list idx -> mates) rows cols, 2 <= rows -> 2 <= cols -> forall e,
    let syn := syndrome_of (stabs (planar_code rows cols)) e in
    exists r, mwpm_recovery rows cols (matcher (primal_nodes rows cols syn) ++ matcher (dual_nodes rows cols syn)) = Some r /\
              syndrome_of (stabs (planar_code rows cols)) r = syn.

(* non-vacuity: a 3x4 lattice, X, Z and Y errors next to three boundaries; two different perfect matchings *)
Example planar_mwpm_ex :
  let St := stabs (planar_code 3 4) in
  let e := p_to_bsf (site 3 4 pX (0, 2) (site 3 4 pZ (2, 4) (site 3 4 pY (4, 0) (new_pauli 3 4)))) in
  let syn := syndrome_of St e in
  primal_nodes 3 4 syn = [(1, 2); (3, 0); (-1, 2); (5, 0)] /\
  dual_nodes 3 4 syn = [(2, 3); (2, 5); (4, 1); (2, -1); (2, 7); (4, -1)] /\
  let md := [((2, 3), (2, 5)); ((4, -1), (4, 1)); ((2, 7), (2, -1))] in
  option_map (syndrome_of St) (mwpm_recovery 3 4 ([((1, 2), (-1, 2)); ((5, 0), (3, 0))] ++ md)) = Some syn /\
  option_map (syndrome_of St) (mwpm_recovery 3 4 ([((3, 0), (1, 2)); ((-1, 2), (5, 0))] ++ md)) = Some syn /\
  primal_nodes 4 3 (syndrome_of (stabs (planar_code 4 3)) (p_to_bsf (site 4 3 pX (2, 2) (new_pauli 4 3))))
    = [(1, 2); (3, 2); (-1, 2); extra_primal].
Proof. vm_compute. repeat split; reflexivity. Qed.
Print Assumptions planar_mwpm_syndrome.
