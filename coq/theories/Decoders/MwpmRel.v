(* Decoders/MwpmRel.v — generic lemmas shared by the planar and toric MWPM decoder models:
   the matching skeleton relative to a predicate on mate pairs, "applying a site operator to a Pauli
   is XOR-ing its sparse operator", indicator vectors of index lists, NoDup of np.ndindex. *)
From Coq Require Import ZArith List Bool Lia Permutation.
From QV Require Import Core.Bits Core.Pauli Core.Symp Core.Code App.RunOnce Lattice.Planar Lattice.PlanarAll Decoders.Checker.
Import ListNotations.

Definition ends2 {node} (m : list (node * node)) : list node := flat_map (fun p => [fst p; snd p]) m.
Lemma ends2_app {node} (m1 m2 : list (node * node)) : ends2 (m1 ++ m2) = ends2 m1 ++ ends2 m2.
Proof. unfold ends2. apply flat_map_app. Qed.

Section Rel.
  Variable node : Type.
  Variable stabs : list bsf.
  Variable n2 : nat.
  Variable ind : node -> bsf.
  Variable pathop : node -> node -> bsf.
  Variable ok : node -> node -> Prop.       (* what is known about a mate pair *)
  Hypothesis ind_len : forall a, length (ind a) = length stabs.
  Hypothesis ok_len : forall a b, ok a b -> length (pathop a b) = n2.
  Hypothesis ok_syn : forall a b, ok a b -> syndrome_of stabs (pathop a b) = xorv (ind a) (ind b).

  Definition pair_ops (m : list (node * node)) : list bsf := map (fun p => pathop (fst p) (snd p)) m.
  Lemma pair_ops_rowlen m : (forall p, In p m -> ok (fst p) (snd p)) -> rowlen n2 (pair_ops m).
  Proof. intros H. unfold rowlen, pair_ops. apply Forall_map. apply Forall_forall. intros p Hp. now apply ok_len, H. Qed.
  Theorem rel_recovery_syndrome m nodes : (forall p, In p m -> ok (fst p) (snd p)) -> Permutation (ends2 m) nodes ->
    syndrome_of stabs (xsum n2 (pair_ops m)) = xsum (length stabs) (map ind nodes).
  Proof.
    intros Hok P. rewrite product_syndrome by now apply pair_ops_rowlen.
    rewrite <- (xsum_perm (length stabs) (map ind (ends2 m)) (map ind nodes)).
    - clear P. induction m as [|p m IH]; [reflexivity|]. cbn [pair_ops map ends2 flat_map app].
      rewrite !xsum_cons. rewrite ok_syn by (apply Hok; cbn; auto). fold (ends2 m). fold (pair_ops m).
      rewrite IH by (intros q Hq; apply Hok; cbn; auto). now rewrite xorv_assoc.
    - unfold rowlen. apply Forall_map. apply Forall_forall. intros a _. apply ind_len.
    - now apply Permutation_map.
  Qed.
End Rel.

(* ---- flipping sites of a Pauli = XOR with the sparse operator of those sites ---- *)
Lemma flipn_xor k : forall u n, length u = n -> (k < n)%nat -> flipn k u = xorv u (flipn k (zeros n)).
Proof.
  induction k as [|k IH]; intros [|x u] [|n] L Hk; cbn in *; try lia.
  - injection L as L. f_equal; try (now destruct x). unfold zeros in *. now rewrite <- L, xorv_zeros_r.
  - f_equal; try (now destruct x). apply IH; lia.
Qed.
Lemma flips_xor ks : forall u n, length u = n -> (forall k, In k ks -> (k < n)%nat) ->
  flips ks u = xorv u (flips ks (zeros n)).
Proof.
  induction ks as [|k ks IH]; intros u n L H.
  - cbn. now rewrite <- L, xorv_zeros_r.
  - cbn [flips fold_left]. change (fold_left (fun u k => flipn k u) ks ?v) with (flips ks v).
    assert (Hk : (k < n)%nat) by (apply H; cbn; auto).
    assert (H' : forall k', In k' ks -> (k' < n)%nat) by (intros; apply H; cbn; auto).
    rewrite (IH (flipn k u) n) by (rewrite ?flipn_length; auto).
    rewrite (IH (flipn k (zeros n)) n) by (rewrite ?flipn_length, ?zeros_length; auto).
    rewrite (flipn_xor k u n L Hk). now rewrite xorv_assoc.
Qed.
Section DenseXor.
  Context {I : Type}.
  Variables (inb : I -> bool) (fl : I -> nat) (n : nat).
  Lemma gsites_xor op L p : klt inb fl n L -> length (pxs p) = n -> length (pzs p) = n ->
    p_to_bsf (gsites inb fl op L p) = xorv (p_to_bsf p) (gop inb fl n op L).
  Proof.
    intros HL Hx Hz. rewrite gop_parts. unfold p_to_bsf, xpart, zpart. rewrite gsites_xs, gsites_zs.
    rewrite xorv_app by (destruct (xbit op); rewrite ?flips_length, ?zeros_length; auto). f_equal.
    - destruct (xbit op); [apply flips_xor; auto; intros k Hk; eapply keys_lt; eauto|now rewrite <- Hx, xorv_zeros_r].
    - destruct (zbit op); [apply flips_xor; auto; intros k Hk; eapply keys_lt; eauto|now rewrite <- Hz, xorv_zeros_r].
  Qed.
  Lemma gsites_lengths op L : forall p, length (pxs (gsites inb fl op L p)) = length (pxs p) /\ length (pzs (gsites inb fl op L p)) = length (pzs p).
  Proof.
    induction L as [|i L IH]; intros p; cbn; auto. unfold gsites in IH. destruct (IH (gsite inb fl op i p)) as [H1 H2].
    rewrite H1, H2. unfold gsite. destruct (inb i); auto. apply flip_op_lengths.
  Qed.
End DenseXor.
Lemma zeros_app a b : zeros a ++ zeros b = zeros (a + b).
Proof. unfold zeros. symmetry. apply repeat_app. Qed.

(* ---- indicator vectors over an index list ---- *)
Section Indicator.
  Context {A : Type}.
  Variable eqb : A -> A -> bool.
  Hypothesis eqb_eq : forall a b, eqb a b = true <-> a = b.
  Variable PI : list A.
  Definition indv (x : A) : bsf := map (fun q => eqb q x) PI.
  Lemma indv_len x : length (indv x) = length PI. Proof. apply map_length. Qed.
  Lemma xorv_map2 (f g : A -> bool) (l : list A) : xorv (map f l) (map g l) = map (fun q => xorb (f q) (g q)) l.
  Proof. induction l as [|a l IH]; cbn; auto. now rewrite IH. Qed.
  Lemma map_false (l : list A) : map (fun _ => false) l = zeros (length l).
  Proof. induction l as [|a l IH]; cbn; auto. unfold zeros in *. cbn. now rewrite IH. Qed.
  Lemma xsum_indv L : xsum (length PI) (map indv L) = map (fun q => xsumb (eqb q) L) PI.
  Proof.
    induction L as [|x L IH]; cbn [map xsumb].
    - unfold xsum. cbn. symmetry. apply map_false.
    - rewrite xsum_cons, IH. unfold indv. apply xorv_map2.
  Qed.
  Lemma eqb_refl a : eqb a a = true. Proof. now apply eqb_eq. Qed.
  Lemma xsumb_notin q L : ~ In q L -> xsumb (eqb q) L = false.
  Proof.
    induction L as [|x L IH]; intros H; cbn; auto. rewrite IH by (intros H'; apply H; cbn; auto).
    destruct (eqb q x) eqn:E; auto. apply eqb_eq in E. subst. exfalso. apply H. cbn. auto.
  Qed.
  Lemma select_incl : forall (syn : bsf) (l : list A) x, In x (select syn l) -> In x l.
  Proof.
    induction syn as [|b syn IH]; intros [|a l] x H; cbn in *; try tauto. destruct b; cbn in H; [destruct H|]; auto.
  Qed.
  (* reading the defects off a syndrome and writing their indicator back is the identity *)
  Lemma select_indicator : forall (l : list A) (syn : bsf), NoDup l -> length syn = length l ->
    map (fun q => xsumb (eqb q) (select syn l)) l = syn.
  Proof.
    induction l as [|a l IH]; intros [|b syn] Hnd HL; cbn in HL; try lia; [reflexivity|].
    inversion Hnd as [|? ? Ha Hl]; subst. cbn [map select]. f_equal.
    - assert (Hn : xsumb (eqb a) (select syn l) = false) by (apply xsumb_notin; intros H; apply Ha; eapply select_incl; eauto).
      destruct b; cbn [xsumb]; rewrite ?eqb_refl, Hn; reflexivity.
    - transitivity (map (fun q => xsumb (eqb q) (select syn l)) l); [|apply IH; auto; lia].
      apply map_ext_in. intros q Hq.
      destruct b; cbn [xsumb]; auto. destruct (eqb q a) eqn:E; [|apply xorb_false_l]. apply eqb_eq in E. subst. contradiction.
  Qed.
  Lemma xsumb_filter_split (f : A -> bool) (p : A -> bool) L :
    xorb (xsumb f (filter p L)) (xsumb f (filter (fun x => negb (p x)) L)) = xsumb f L.
  Proof.
    induction L as [|x L IH]; cbn; auto. destruct (p x); cbn; rewrite <- IH;
      destruct (f x), (xsumb f (filter p L)), (xsumb f (filter (fun x => negb (p x)) L)); reflexivity.
  Qed.
End Indicator.

(* ---- np.ndindex has no repetitions ---- *)
Lemma NoDup_flat_map {A B} (f : A -> list B) l : NoDup l -> (forall x, In x l -> NoDup (f x)) ->
  (forall x y b, In x l -> In y l -> In b (f x) -> In b (f y) -> x = y) -> NoDup (flat_map f l).
Proof.
  induction 1 as [|a l Ha Hl IH]; intros H1 H2; cbn; [constructor|]. apply NoDup_app_disj.
  - apply H1. cbn. auto.
  - apply IH; [intros; apply H1; cbn; auto|intros x y b Hx Hy; apply H2; cbn; auto].
  - intros b Hb1 Hb2. apply in_flat_map in Hb2. destruct Hb2 as (y & Hy & Hb2).
    assert (a = y) by (apply (H2 a y b); cbn; auto). subst. contradiction.
Qed.
Lemma NoDup_ndindex2 R C : NoDup (ndindex2 R C).
Proof.
  unfold ndindex2. apply NoDup_flat_map; [apply seq_NoDup| |].
  - intros r _. apply NoDup_map_inj_in; [|apply seq_NoDup]. intros x y _ _ H. injection H. lia.
  - intros x y b _ _ Hx Hy. apply in_map_iff in Hx, Hy. destruct Hx as (c & <- & _), Hy as (c' & E & _).
    injection E. lia.
Qed.
Lemma NoDup_filter {A} (f : A -> bool) l : NoDup l -> NoDup (filter f l).
Proof.
  induction 1 as [|a l Ha Hl IH]; cbn; [constructor|]. destruct (f a); auto. constructor; auto.
  intros H. apply filter_In in H. tauto.
Qed.
