(* Decoders/SmwpmToric.v — the recovery construction of RotatedToricSMWPMDecoder on the rotated toric lattice model:
   _cluster_to_paths_and_defect and the operator component of _recovery_tparities(code, time_steps, clusters)
   (src/qecsim/models/rotatedtoric/_rotatedtoricsmwpmdecoder.py:614-705; the toric decoder has no separate _recovery:
   its _recovery_tparities returns (operator, x_tparity, z_tparity) and the operator does not depend on time_steps).
   Every path is `code.new_pauli().path((a_x, a_y), (b_x, b_y)).to_bsf()`, i.e. RotatedToricPauli.path from the identity
   (Lattice/RotToric.rt_path); its syndrome for all sizes is Lattice/RotToricPathAll.rottoric_path_syndrome_all.
   The list plumbing (smwpm_xy, smwpm_pairs = zip(l[::2], l[1::2])) is shared with Decoders/SmwpmPath.v. *)
From Coq Require Import ZArith List Bool Lia ZifyBool.
From QV Require Import Core.Bits Core.Pauli Core.Symp Core.Code App.RunOnce Generated.LatticeArith
  Lattice.PlanarAll Decoders.Checker Decoders.MwpmRel
  Lattice.RotPlanar Lattice.RotPlanarAll Lattice.RotPlanarValidAll Lattice.RotToric Lattice.RotToricValidAll
  Lattice.RotToricPathAll Decoders.SampleRecovery Decoders.SmwpmWalk Decoders.SmwpmPath.
Import ListNotations.
Open Scope Z_scope.

(* _cluster_to_paths_and_defect: None = QecsimError('Cluster has non-fused non-Y defect.') *)
Definition smwpm_toric_cluster_split (cluster : list tidx) : option (list tidx * list tidx * option (tidx * tidx)) :=
  let x_indices := filter (fun i => rottoric_is_x_plaquette (smwpm_xy i)) cluster in
  let z_indices := filter (fun i => rottoric_is_z_plaquette (smwpm_xy i)) cluster in
  if negb (Nat.eqb (length x_indices mod 2) (length z_indices mod 2)) then None
  else if negb (Nat.eqb (length x_indices mod 2) 0)
  then Some (removelast x_indices, removelast z_indices, Some (last x_indices (0, 0, 0), last z_indices (0, 0, 0)))
  else Some (x_indices, z_indices, None).

(* the pairs fused by _recovery_tparities, cluster by cluster *)
Definition smwpm_toric_cluster_pairs (cluster : list tidx) : list (ridx * ridx) :=
  match smwpm_toric_cluster_split cluster with
  | None => []
  | Some (x_path, z_path, _) => map smwpm_xy2 (smwpm_pairs x_path ++ smwpm_pairs z_path)
  end.
Definition smwpm_toric_all_pairs (clusters : list (list tidx)) : list (ridx * ridx) :=
  flat_map smwpm_toric_cluster_pairs clusters.

Section SmwpmToric.
Variables rows cols : Z.
Notation TN := (rt_n rows cols).
Notation TPI := (rt_plaquette_indices rows cols).
Notation TS := (stabs (rottoric_code rows cols)).
Notation m2 := (rottoric_mod_index rows cols).

(* code.new_pauli().path((a_x, a_y), (b_x, b_y)).to_bsf(); None = IndexError (plaquettes of different types) *)
Definition smwpm_toric_path_operator (a b : ridx) : option bsf :=
  option_map rc_to_bsf (rt_path rows cols a b (rt_identity rows cols)).

(* for (a_t, a_x, a_y), (b_t, b_x, b_y) in zip(path[::2], path[1::2]): operator ^= ...path(...).to_bsf() *)
Definition smwpm_toric_apply_pairs (ps : list (tidx * tidx)) (acc : option bsf) : option bsf :=
  fold_left (fun acc ab =>
    match acc with
    | None => None
    | Some r => match smwpm_toric_path_operator (smwpm_xy (fst ab)) (smwpm_xy (snd ab)) with
                | None => None
                | Some o => Some (xorv r o)
                end
    end) ps acc.
Definition smwpm_toric_step (acc : option bsf) (cluster : list tidx) : option bsf :=
  match acc with
  | None => None
  | Some r => match smwpm_toric_cluster_split cluster with
              | None => None
              | Some (x_path, z_path, _) =>
                  smwpm_toric_apply_pairs (smwpm_pairs z_path) (smwpm_toric_apply_pairs (smwpm_pairs x_path) (Some r))
              end
  end.
(* the operator of _recovery_tparities: None = an exception of _cluster_to_paths_and_defect / path *)
Definition smwpm_toric_recovery (clusters : list (list tidx)) : option bsf :=
  fold_left smwpm_toric_step clusters (Some (rc_to_bsf (rt_identity rows cols))).

(* indicator of a plaquette index taken modulo the lattice, over the code's own plaquette list *)
Definition smwpm_toric_ind (a : ridx) : bsf := map (fun q => rc_idx_eqb q (m2 a)) TPI.
Definition smwpm_toric_pair_ind (ab : ridx * ridx) : bsf := xorv (smwpm_toric_ind (fst ab)) (smwpm_toric_ind (snd ab)).
Definition smwpm_toric_pathop_tot (ab : ridx * ridx) : bsf :=
  match smwpm_toric_path_operator (fst ab) (snd ab) with Some o => o | None => zeros (TN + TN) end.
Definition smwpm_toric_pair_ok (ab : ridx * ridx) : Prop :=
  rottoric_is_z_plaquette (fst ab) = rottoric_is_z_plaquette (snd ab).

Hypothesis Hr : 2 <= rows.
Hypothesis Er : rows mod 2 = 0.
Hypothesis Hc : 2 <= cols.
Hypothesis Ec : cols mod 2 = 0.

Lemma smwpm_toric_identity_bsf : rc_to_bsf (rt_identity rows cols) = zeros (TN + TN).
Proof.
  change (rc_to_bsf (rt_identity rows cols)) with (rt_sop rows cols pX []).
  rewrite (rt_sop_gop rows cols). cbn [map]. unfold rc_gop. unfold rt_identity, rc_identity, rc_to_bsf, zeros.
  cbn. now rewrite repeat_app.
Qed.

(* one path: defined, of the code's operator length, syndrome = indicator(a mod) xor indicator(b mod) *)
Theorem smwpm_toric_path_syndrome a b : rottoric_is_z_plaquette a = rottoric_is_z_plaquette b ->
  exists o, smwpm_toric_path_operator a b = Some o /\ length o = (TN + TN)%nat /\
            syndrome_of TS o = xorv (smwpm_toric_ind a) (smwpm_toric_ind b).
Proof.
  intros T. destruct (rottoric_path_syndrome_all rows cols a b Hr Er Hc Ec T) as (p & Hp & Hs).
  exists (rc_to_bsf p). unfold smwpm_toric_path_operator. rewrite Hp. split; [reflexivity|]. split.
  - unfold rt_path in Hp. destruct (rt_path_indices rows cols a b) as [L|]; [|discriminate]. injection Hp as <-.
    change (rc_to_bsf (rt_sites rows cols (if rottoric_is_z_plaquette a then pX else pZ) L (rt_identity rows cols)))
      with (rt_sop rows cols (if rottoric_is_z_plaquette a then pX else pZ) L).
    rewrite (rt_sop_gop rows cols). apply rc_gop_length.
  - change TS with (rt_stabilizers rows cols). rewrite Hs. unfold smwpm_toric_ind. now rewrite xorv_map2.
Qed.

Lemma smwpm_toric_pathop_tot_ok ab : smwpm_toric_pair_ok ab ->
  smwpm_toric_path_operator (fst ab) (snd ab) = Some (smwpm_toric_pathop_tot ab) /\
  length (smwpm_toric_pathop_tot ab) = (TN + TN)%nat /\
  syndrome_of TS (smwpm_toric_pathop_tot ab) = smwpm_toric_pair_ind ab.
Proof.
  intros T. destruct (smwpm_toric_path_syndrome _ _ T) as (o & Ho & Hl & Hs).
  unfold smwpm_toric_pathop_tot. rewrite Ho. auto.
Qed.
Lemma smwpm_toric_tot_rowlen L : Forall smwpm_toric_pair_ok L ->
  Forall (fun r => length r = (TN + TN)%nat) (map smwpm_toric_pathop_tot L).
Proof. intros H. apply Forall_map. eapply Forall_impl; [|exact H]. intros ab Hab. now apply smwpm_toric_pathop_tot_ok. Qed.

Lemma smwpm_toric_apply_pairs_xor : forall ps r, length r = (TN + TN)%nat -> Forall smwpm_toric_pair_ok (map smwpm_xy2 ps) ->
  smwpm_toric_apply_pairs ps (Some r) = Some (xorv r (xsum (TN + TN) (map smwpm_toric_pathop_tot (map smwpm_xy2 ps)))).
Proof.
  induction ps as [|ab ps IH]; intros r Hl H; cbn [map].
  - unfold smwpm_toric_apply_pairs. cbn [fold_left map]. change (xsum (TN + TN) []) with (zeros (TN + TN)). rewrite <- Hl. now rewrite xorv_zeros_r.
  - inversion H as [|? ? Hab Hps]; subst. destruct (smwpm_toric_pathop_tot_ok _ Hab) as (Ho & Hlo & _). cbn [smwpm_xy2 fst snd] in Ho.
    unfold smwpm_toric_apply_pairs in *. cbn [fold_left]. rewrite Ho. rewrite IH; auto.
    + now rewrite xsum_cons, xorv_assoc.
    + rewrite xorv_length; congruence.
Qed.
End SmwpmToric.

(* the X-path holds X-type indices only, the Z-path Z-type indices only: every fused pair has matching types *)
Lemma smwpm_toric_split_paths cluster xp zp d : smwpm_toric_cluster_split cluster = Some (xp, zp, d) ->
  (forall i, In i xp -> rottoric_is_z_plaquette (smwpm_xy i) = false) /\
  (forall i, In i zp -> rottoric_is_z_plaquette (smwpm_xy i) = true).
Proof.
  unfold smwpm_toric_cluster_split. destruct (negb (Nat.eqb _ _)); [discriminate|].
  destruct (negb (Nat.eqb _ 0)); intros H; injection H as <- <- _; split; intros i Hi;
    try apply smwpm_In_removelast in Hi; apply filter_In in Hi; destruct Hi as [Hi Ht]; auto.
  - unfold rottoric_is_z_plaquette. now rewrite Ht.
  - unfold rottoric_is_z_plaquette. now rewrite Ht.
Qed.
Lemma smwpm_toric_pairs_sub_ok (z : bool) l : (forall i, In i l -> rottoric_is_z_plaquette (smwpm_xy i) = z) ->
  Forall smwpm_toric_pair_ok (map smwpm_xy2 (smwpm_pairs l)).
Proof.
  intros Hl. apply Forall_map. apply Forall_forall. intros [a b] Hab. apply smwpm_pairs_In in Hab.
  destruct Hab as [Ha Hb]. apply Hl in Ha, Hb. unfold smwpm_toric_pair_ok, smwpm_xy2. cbn [fst snd]. congruence.
Qed.
Lemma smwpm_toric_cluster_pairs_ok cluster : Forall smwpm_toric_pair_ok (smwpm_toric_cluster_pairs cluster).
Proof.
  unfold smwpm_toric_cluster_pairs. destruct (smwpm_toric_cluster_split cluster) as [[[xp zp] d]|] eqn:E; [|constructor].
  destruct (smwpm_toric_split_paths _ _ _ _ E) as [Hx Hz].
  rewrite map_app. apply Forall_app. split; [apply (smwpm_toric_pairs_sub_ok false)|apply (smwpm_toric_pairs_sub_ok true)]; auto.
Qed.
Lemma smwpm_toric_all_pairs_ok clusters : Forall smwpm_toric_pair_ok (smwpm_toric_all_pairs clusters).
Proof.
  induction clusters as [|cl cls IH]; [constructor|]. unfold smwpm_toric_all_pairs. cbn [flat_map]. apply Forall_app. split; auto.
  apply smwpm_toric_cluster_pairs_ok.
Qed.

Section SmwpmToricRecovery.
Variables rows cols : Z.
Notation TN := (rt_n rows cols).
Notation TPI := (rt_plaquette_indices rows cols).
Notation TS := (stabs (rottoric_code rows cols)).
Hypothesis Hr : 2 <= rows.
Hypothesis Er : rows mod 2 = 0.
Hypothesis Hc : 2 <= cols.
Hypothesis Ec : cols mod 2 = 0.
Notation tot := (smwpm_toric_pathop_tot rows cols).

Lemma smwpm_toric_recovery_fold : forall clusters r, length r = (TN + TN)%nat ->
  Forall (fun cl => smwpm_toric_cluster_split cl <> None) clusters ->
  fold_left (smwpm_toric_step rows cols) clusters (Some r) =
  Some (xorv r (xsum (TN + TN) (map tot (smwpm_toric_all_pairs clusters)))).
Proof.
  induction clusters as [|cl cls IH]; intros r Hl Hsp.
  - cbn [fold_left smwpm_toric_all_pairs flat_map map]. change (xsum (TN + TN) []) with (zeros (TN + TN)). rewrite <- Hl. now rewrite xorv_zeros_r.
  - inversion Hsp as [|? ? Scl Scls]; subst.
    pose proof (smwpm_toric_cluster_pairs_ok cl) as Hpo. pose proof (smwpm_toric_all_pairs_ok cls) as Hao.
    cbn [fold_left]. unfold smwpm_toric_all_pairs. cbn [flat_map]. fold (smwpm_toric_all_pairs cls).
    unfold smwpm_toric_step at 2. unfold smwpm_toric_cluster_pairs in *.
    destruct (smwpm_toric_cluster_split cl) as [[[xp zp] d]|] eqn:E; [|congruence].
    rewrite map_app in Hpo. apply Forall_app in Hpo. destruct Hpo as [Hxo Hzo].
    pose proof (smwpm_toric_tot_rowlen rows cols Hr Er Hc Ec _ Hxo) as Rx.
    pose proof (smwpm_toric_tot_rowlen rows cols Hr Er Hc Ec _ Hzo) as Rz.
    pose proof (smwpm_toric_tot_rowlen rows cols Hr Er Hc Ec _ Hao) as Ra.
    rewrite (smwpm_toric_apply_pairs_xor rows cols Hr Er Hc Ec) by auto.
    rewrite (smwpm_toric_apply_pairs_xor rows cols Hr Er Hc Ec); auto; [|rewrite xorv_length; rewrite ?xsum_len; auto].
    rewrite IH; auto.
    + f_equal. rewrite !map_app, !xsum_app; auto; [|apply Forall_app; split; auto].
      now rewrite !xorv_assoc.
    + rewrite !xorv_length; rewrite ?xorv_length, ?xsum_len; auto; rewrite ?xsum_len; auto.
Qed.

Theorem smwpm_toric_recovery_syndrome clusters :
  Forall (fun cl => smwpm_toric_cluster_split cl <> None) clusters ->
  exists r, smwpm_toric_recovery rows cols clusters = Some r /\ length r = (TN + TN)%nat /\
    r = xsum (TN + TN) (map tot (smwpm_toric_all_pairs clusters)) /\
    syndrome_of TS r = xsum (length TPI) (map (smwpm_toric_pair_ind rows cols) (smwpm_toric_all_pairs clusters)).
Proof.
  intros Hsp. pose proof (smwpm_toric_all_pairs_ok clusters) as Hao.
  pose proof (smwpm_toric_tot_rowlen rows cols Hr Er Hc Ec _ Hao) as Ra.
  exists (xsum (TN + TN) (map tot (smwpm_toric_all_pairs clusters))).
  split; [|split; [now apply xsum_len|split; [reflexivity|]]].
  - unfold smwpm_toric_recovery. rewrite smwpm_toric_recovery_fold; auto.
    + rewrite smwpm_toric_identity_bsf, xorv_zeros_l; auto. now apply xsum_len.
    + rewrite smwpm_toric_identity_bsf. apply zeros_length.
  - rewrite product_syndrome by exact Ra.
    replace (length TS) with (length TPI) by (cbn [stabs rottoric_code]; unfold rt_stabilizers; now rewrite map_length).
    rewrite map_map. f_equal.
    apply map_ext_in. intros ab Hab. rewrite Forall_forall in Hao. now apply smwpm_toric_pathop_tot_ok, Hao.
Qed.
End SmwpmToricRecovery.

(* ------------------------------------------------------------------ *)
(** * the all-sizes statements                                         *)
(* ------------------------------------------------------------------ *)
(* C03, code.new_pauli().path(a, b).to_bsf() as used by RotatedToricSMWPMDecoder: every even size >= 2, ANY two integer
   indices of the same type (indices are taken modulo the lattice) *)
Theorem smwpm_toric_path_syndrome_all : forall rows cols, 2 <= rows -> rows mod 2 = 0 -> 2 <= cols -> cols mod 2 = 0 ->
  forall a b : ridx, rottoric_is_z_plaquette a = rottoric_is_z_plaquette b ->
  exists o, smwpm_toric_path_operator rows cols a b = Some o /\
    length o = (rt_n rows cols + rt_n rows cols)%nat /\
    syndrome_of (stabs (rottoric_code rows cols)) o = xorv (smwpm_toric_ind rows cols a) (smwpm_toric_ind rows cols b).
Proof. exact smwpm_toric_path_syndrome. Qed.
(* C03, the operator of RotatedToricSMWPMDecoder._recovery_tparities: every even size >= 2, every list of clusters of
   ANY integer (t, x, y) whose X- and Z-index counts have equal parity (otherwise _cluster_to_paths_and_defect raises;
   the pairs always have matching types because they come from the X-filter resp. the Z-filter): the recovery is the
   XOR of the path operators of the fused pairs and its syndrome is the XOR of the indicators, modulo the lattice, of
   the paired indices *)
Theorem smwpm_toric_recovery_syndrome_all : forall rows cols, 2 <= rows -> rows mod 2 = 0 -> 2 <= cols -> cols mod 2 = 0 ->
  forall clusters : list (list tidx),
  Forall (fun cl => smwpm_toric_cluster_split cl <> None) clusters ->
  exists r, smwpm_toric_recovery rows cols clusters = Some r /\
    length r = (rt_n rows cols + rt_n rows cols)%nat /\
    r = xsum (rt_n rows cols + rt_n rows cols) (map (smwpm_toric_pathop_tot rows cols) (smwpm_toric_all_pairs clusters)) /\
    syndrome_of (stabs (rottoric_code rows cols)) r =
      xsum (length (rt_plaquette_indices rows cols)) (map (smwpm_toric_pair_ind rows cols) (smwpm_toric_all_pairs clusters)).
Proof. exact smwpm_toric_recovery_syndrome. Qed.
(* the exception of _cluster_to_paths_and_defect is the only one: the model is None exactly when some cluster's split is *)
Theorem smwpm_toric_recovery_defined_iff : forall rows cols, 2 <= rows -> rows mod 2 = 0 -> 2 <= cols -> cols mod 2 = 0 ->
  forall clusters : list (list tidx),
  smwpm_toric_recovery rows cols clusters <> None <-> Forall (fun cl => smwpm_toric_cluster_split cl <> None) clusters.
Proof.
  intros rows cols Hr Er Hc Ec clusters. split.
  - unfold smwpm_toric_recovery. generalize (Some (rc_to_bsf (rt_identity rows cols))).
    assert (HN : forall cls, fold_left (smwpm_toric_step rows cols) cls None = None) by (induction cls; auto).
    induction clusters as [|cl cls IH]; intros acc H; [constructor|]. cbn [fold_left] in H.
    destruct (smwpm_toric_cluster_split cl) as [s|] eqn:E.
    + constructor; [congruence|]. eapply IH. exact H.
    + exfalso. apply H. unfold smwpm_toric_step at 2. rewrite E. destruct acc; apply HN.
  - intros H. destruct (smwpm_toric_recovery_syndrome_all rows cols Hr Er Hc Ec clusters H) as (r & -> & _). discriminate.
Qed.

(* ---- every cluster with an even number of X-indices and of Z-indices: parity of occurrences ---- *)
Definition smwpm_toric_cluster_even (cl : list tidx) : Prop :=
  Nat.even (length (filter (fun i => rottoric_is_x_plaquette (smwpm_xy i)) cl)) = true /\
  Nat.even (length (filter (fun i => rottoric_is_z_plaquette (smwpm_xy i)) cl)) = true.
Definition smwpm_toric_pairpar (rows cols : Z) (q : ridx) (ab : ridx * ridx) : bool :=
  xorb (rc_idx_eqb q (rottoric_mod_index rows cols (fst ab))) (rc_idx_eqb q (rottoric_mod_index rows cols (snd ab))).
Lemma smwpm_toric_xsum_pair_ind rows cols L :
  xsum (length (rt_plaquette_indices rows cols)) (map (smwpm_toric_pair_ind rows cols) L) =
  map (fun q => xsumb (smwpm_toric_pairpar rows cols q) L) (rt_plaquette_indices rows cols).
Proof.
  induction L as [|ab L IH]; cbn [map xsumb].
  - unfold xsum. cbn [fold_right]. symmetry. apply map_false.
  - rewrite xsum_cons, IH. unfold smwpm_toric_pair_ind, smwpm_toric_ind. now rewrite !xorv_map2.
Qed.
Lemma smwpm_toric_pairs_even_par (f : ridx -> bool) : forall n (l : list tidx), (length l <= n)%nat -> Nat.even (length l) = true ->
  xsumb (fun ab => xorb (f (fst ab)) (f (snd ab))) (map smwpm_xy2 (smwpm_pairs_rec l)) = xsumb f (map smwpm_xy l).
Proof.
  induction n as [|n IH]; intros [|a [|b l]] Hl He; cbn [length] in *; try lia; try reflexivity; try discriminate.
  cbn [smwpm_pairs_rec map xsumb]. rewrite IH by (auto; lia). unfold smwpm_xy2. cbn [fst snd].
  now destruct (f (smwpm_xy a)), (f (smwpm_xy b)), (xsumb _ _).
Qed.
Lemma smwpm_toric_cluster_even_par rows cols q cl : smwpm_toric_cluster_even cl ->
  smwpm_toric_cluster_split cl <> None /\
  xsumb (smwpm_toric_pairpar rows cols q) (smwpm_toric_cluster_pairs cl) =
  xsumb (fun a => rc_idx_eqb q (rottoric_mod_index rows cols a)) (map smwpm_xy cl).
Proof.
  intros [Hx Hz]. unfold smwpm_toric_cluster_pairs, smwpm_toric_cluster_split.
  rewrite (smwpm_even_mod2 _ Hx), (smwpm_even_mod2 _ Hz). cbn [Nat.eqb negb]. split; [discriminate|].
  rewrite map_app, xsumb_app, !smwpm_pairs_eq. unfold smwpm_toric_pairpar.
  rewrite (smwpm_toric_pairs_even_par (fun a => rc_idx_eqb q (rottoric_mod_index rows cols a)) _ _ (le_n _) Hx),
          (smwpm_toric_pairs_even_par (fun a => rc_idx_eqb q (rottoric_mod_index rows cols a)) _ _ (le_n _) Hz).
  rewrite !xsumb_map.
  apply (xsumb_filter_split (fun i => rc_idx_eqb q (rottoric_mod_index rows cols (smwpm_xy i))) (fun i => rottoric_is_x_plaquette (smwpm_xy i))).
Qed.
Lemma smwpm_toric_all_even_par rows cols q clusters : Forall smwpm_toric_cluster_even clusters ->
  Forall (fun cl => smwpm_toric_cluster_split cl <> None) clusters /\
  xsumb (smwpm_toric_pairpar rows cols q) (smwpm_toric_all_pairs clusters) =
  xsumb (fun a => rc_idx_eqb q (rottoric_mod_index rows cols a)) (map smwpm_xy (concat clusters)).
Proof.
  induction 1 as [|cl cls H1 H2 [IH1 IH2]]; [split; [constructor|reflexivity]|].
  destruct (smwpm_toric_cluster_even_par rows cols q cl H1) as [S1 P1]. split; [constructor; auto|].
  unfold smwpm_toric_all_pairs in *. cbn [flat_map concat]. now rewrite map_app, !xsumb_app, P1, IH2.
Qed.
(* C03, the operator of _recovery_tparities on clusters whose X- and Z-index counts are even (what _clusters produces:
   closed loops, every defect fused inside its cluster): the syndrome of the recovery is, on every plaquette, the parity
   of the number of occurrences (modulo the lattice, over all times) of that plaquette in the clusters *)
Theorem smwpm_toric_recovery_even_all : forall rows cols, 2 <= rows -> rows mod 2 = 0 -> 2 <= cols -> cols mod 2 = 0 ->
  forall clusters : list (list tidx), Forall smwpm_toric_cluster_even clusters ->
  exists r, smwpm_toric_recovery rows cols clusters = Some r /\
    length r = (rt_n rows cols + rt_n rows cols)%nat /\
    syndrome_of (stabs (rottoric_code rows cols)) r =
      map (fun q => xsumb (fun a => rc_idx_eqb q (rottoric_mod_index rows cols a)) (map smwpm_xy (concat clusters)))
          (rt_plaquette_indices rows cols).
Proof.
  intros rows cols Hr Er Hc Ec clusters Hev.
  destruct (smwpm_toric_all_even_par rows cols (0, 0) clusters Hev) as [Hsp _].
  destruct (smwpm_toric_recovery_syndrome_all rows cols Hr Er Hc Ec clusters Hsp) as (r & H1 & H2 & _ & H4).
  exists r. split; [exact H1|]. split; [exact H2|]. rewrite H4, smwpm_toric_xsum_pair_ind.
  apply map_ext. intros q. now apply smwpm_toric_all_even_par.
Qed.

(* ---- non-vacuity: closed instances ---- *)
Definition smwpm_toric_path_check (rows cols : Z) (win : list ridx) : bool :=
  let S := stabs (rottoric_code rows cols) in
  forallb (fun a => forallb (fun b =>
    match smwpm_toric_path_operator rows cols a b with
    | Some o => Bool.eqb (rottoric_is_z_plaquette a) (rottoric_is_z_plaquette b) &&
                beqv (syndrome_of S o) (xorv (smwpm_toric_ind rows cols a) (smwpm_toric_ind rows cols b))
    | None => negb (Bool.eqb (rottoric_is_z_plaquette a) (rottoric_is_z_plaquette b))
    end) win) win.
(* all ordered pairs of plaquette indices on 2x4 and 4x4, and a window reaching outside the lattice on 2x4 *)
Example smwpm_toric_path_ex :
  smwpm_toric_path_check 2 4 (rt_plaquette_indices 2 4) && smwpm_toric_path_check 4 4 (rt_plaquette_indices 4 4) &&
  smwpm_toric_path_check 2 4 [(-1, -1); (0, -1); (4, 2); (5, 1); (-3, 0); (2, 3); (1, 1)] = true.
Proof. vm_compute. reflexivity. Qed.
(* recoveries: repeated plaquettes at different times, a left-over Y-defect, indices outside the window; a parity
   mismatch raises *)
Example smwpm_toric_recovery_ex :
  let clusters := [[(0, 1, 1); (2, 1, 1); (1, 0, 1); (1, 2, 1)]; [(0, 3, 1); (0, 2, 1); (1, 0, 0); (1, 1, 0); (2, 2, 2); (0, 3, 2)]] in
  match smwpm_toric_recovery 4 4 clusters with
  | Some r => beqv (syndrome_of (stabs (rottoric_code 4 4)) r)
                   (xsum (length (rt_plaquette_indices 4 4)) (map (smwpm_toric_pair_ind 4 4) (smwpm_toric_all_pairs clusters)))
              && negb (beqv r (zeros 32))
  | None => false
  end = true /\
  match smwpm_toric_recovery 2 4 [[(0, 0, 0); (1, 2, 1); (0, 1, 0); (3, 3, 1)]; [(0, -1, 0); (0, 5, 2)]] with
  | Some r => beqv (syndrome_of (stabs (rottoric_code 2 4)) r)
                (map (fun q => xsumb (fun a => rc_idx_eqb q (rottoric_mod_index 2 4 a)) [(0, 0); (2, 1); (1, 0); (3, 1); (-1, 0); (5, 2)])
                     (rt_plaquette_indices 2 4))
              && negb (beqv r (zeros 16))
  | None => false
  end = true /\
  smwpm_toric_recovery 4 4 [[(0, 1, 1); (0, 0, 1); (1, 2, 1)]] = None.
Proof. vm_compute. repeat split; reflexivity. Qed.

Print Assumptions smwpm_toric_path_syndrome_all.
Print Assumptions smwpm_toric_recovery_syndrome_all.
Print Assumptions smwpm_toric_recovery_even_all.
Print Assumptions smwpm_toric_recovery_defined_iff.
