(* Decoders/MatchingMemo.v — the recursion of the exhaustive enumerator `pms` ("the first uncovered node is matched first",
   Decoders/Matching.v) visits (n-1)!! leaves but only few DISTINCT remaining-node lists (Fibonacci(n+1) on a complete graph,
   2^(n/2) on a complete bipartite one).  `walk_m` is that recursion with a memo table; it is proved to return exactly what
   the plain recursion `walk` returns, for ANY hash function (a hit is accepted only after comparing the stored key and fuel,
   so the hash matters for speed alone).  Instances: the least weight over all perfect matchings (= minw = the minimum over
   all_pms) and their number.  `is_min_pm_memo` is the same boolean function as `is_min_pm` and decides complete graphs on
   16 - 24 nodes in well under a second.  Weights are arbitrary rationals: nothing here assumes a sign. *)
From Coq Require Import Arith List Bool Lia QArith Permutation NArith PArith FMapPositive.
From QV Require Import Decoders.Matching Decoders.MatchingMin.
Import ListNotations.
Open Scope nat_scope.

Lemma fold_left_ext_in {A B} (f f' : A -> B -> A) l :
  (forall a b, In b l -> f a b = f' a b) -> forall a, fold_left f l a = fold_left f' l a.
Proof.
  induction l as [|b l IH]; intros H a; [reflexivity|]. cbn. rewrite (H a b (or_introl eq_refl)).
  apply IH. intros a' b' Hb'. apply H. now right.
Qed.

Section Walk.
  Variable A : Type.
  Variables (zero one : A) (plus : A -> A -> A) (ext : Q -> A -> A).
  Variable g : graph.
  Variable hash : list nat -> positive.

  Fixpoint walk (fuel : nat) (ns : list nat) : A :=
    match fuel with
    | O => match ns with [] => one | _ => zero end
    | S f =>
      match ns with
      | [] => one
      | a :: rest =>
          fold_left (fun acc b => match edge g a b with
                                  | Some w => plus acc (ext w (walk f (remove1 b rest)))
                                  | None => acc end) rest zero
      end
    end.

  Definition entry := (list nat * nat * A)%type.
  Definition tbl := PositiveMap.t entry.
  Definition lookup (f : nat) (k : list nat) (t : tbl) : option A :=
    match PositiveMap.find (hash k) t with
    | Some (k', f', v) => if list_eq_dec Nat.eq_dec k k' then if Nat.eq_dec f f' then Some v else None else None
    | None => None
    end.
  Definition insert (f : nat) (k : list nat) (v : A) (t : tbl) : tbl := PositiveMap.add (hash k) (k, f, v) t.

  Definition Inv (t : tbl) : Prop := forall f k v, lookup f k t = Some v -> v = walk f k.

  Lemma Inv_empty : Inv (PositiveMap.empty entry).
  Proof. intros f k v. unfold lookup. rewrite PositiveMap.gempty. discriminate. Qed.

  Lemma Inv_insert t f k v : Inv t -> v = walk f k -> Inv (insert f k v t).
  Proof.
    intros Ht Hv f0 k0 v0. unfold lookup, insert. destruct (Pos.eq_dec (hash k0) (hash k)) as [E|E].
    - rewrite E, PositiveMap.gss. destruct (list_eq_dec Nat.eq_dec k0 k) as [->|]; [|discriminate].
      destruct (Nat.eq_dec f0 f) as [->|]; [|discriminate]. intros H. injection H as <-. exact Hv.
    - rewrite PositiveMap.gso by exact E. apply Ht.
  Qed.

  Fixpoint walk_m (fuel : nat) (ns : list nat) (t : tbl) : A * tbl :=
    match fuel with
    | O => (match ns with [] => one | _ => zero end, t)
    | S f =>
      match ns with
      | [] => (one, t)
      | a :: rest =>
          match lookup (S f) (a :: rest) t with
          | Some v => (v, t)
          | None =>
              let r := fold_left (fun (st : A * tbl) b =>
                                    match edge g a b with
                                    | Some w => let r2 := walk_m f (remove1 b rest) (snd st) in
                                                (plus (fst st) (ext w (fst r2)), snd r2)
                                    | None => st end) rest (zero, t) in
              (fst r, insert (S f) (a :: rest) (fst r) (snd r))
          end
      end
    end.

  Theorem walk_m_ok fuel : forall ns t, Inv t -> fst (walk_m fuel ns t) = walk fuel ns /\ Inv (snd (walk_m fuel ns t)).
  Proof.
    induction fuel as [|f IH]; intros ns t Ht.
    - destruct ns; cbn; auto.
    - destruct ns as [|a rest]; [cbn; auto|]. cbn [walk_m].
      destruct (lookup (S f) (a :: rest) t) as [v|] eqn:E.
      + cbn [fst snd]. split; [exact (Ht _ _ _ E)|exact Ht].
      + set (Fm := fun (st : A * tbl) b =>
                     match edge g a b with
                     | Some w => let r2 := walk_m f (remove1 b rest) (snd st) in (plus (fst st) (ext w (fst r2)), snd r2)
                     | None => st end).
        set (F := fun acc b => match edge g a b with
                               | Some w => plus acc (ext w (walk f (remove1 b rest))) | None => acc end).
        assert (Hfold : forall l st, Inv (snd st) ->
                  fst (fold_left Fm l st) = fold_left F l (fst st) /\ Inv (snd (fold_left Fm l st))).
        { induction l as [|b l IHl]; intros st Hst; [cbn; auto|]. cbn [fold_left].
          assert (Hstep : fst (Fm st b) = F (fst st) b /\ Inv (snd (Fm st b))).
          { unfold Fm, F. destruct (edge g a b) as [w|]; [|auto].
            destruct (IH (remove1 b rest) (snd st) Hst) as [H1 H2]. cbn [fst snd]. rewrite H1. auto. }
          destruct Hstep as [H1 H2]. destruct (IHl (Fm st b) H2) as [H3 H4]. rewrite H3, H1. auto. }
        destruct (Hfold rest (zero, t) Ht) as [H1 H2]. cbn [fst snd] in *. split.
        * exact H1.
        * apply Inv_insert; auto.
  Qed.

  Definition walk_memo (ns : list nat) : A := fst (walk_m (length ns) ns (PositiveMap.empty entry)).
  Theorem walk_memo_eq ns : walk_memo ns = walk (length ns) ns.
  Proof. unfold walk_memo. apply walk_m_ok. apply Inv_empty. Qed.
End Walk.

(* ---------- instances ---------- *)
Definition ext_min (w : Q) (o : option Q) : option Q := option_map (Qplus w) o.
Definition ext_cnt (_ : Q) (c : N) : N := c.

Lemma omin_none_r o : omin o None = o.
Proof. now destruct o. Qed.

Lemma walk_minw g fuel : forall ns, walk (option Q) None (Some 0%Q) omin ext_min g fuel ns = minw g fuel ns.
Proof.
  induction fuel as [|f IH]; intros ns; [reflexivity|]. destruct ns as [|a rest]; [reflexivity|]. cbn [walk minw].
  apply fold_left_ext_in. intros acc b _. destruct (edge g a b); [|now rewrite omin_none_r].
  unfold ext_min. now rewrite IH.
Qed.

Lemma walk_cnt g fuel : forall ns, walk N 0%N 1%N N.add ext_cnt g fuel ns = cnt g fuel ns.
Proof.
  induction fuel as [|f IH]; intros ns; [reflexivity|]. destruct ns as [|a rest]; [reflexivity|]. cbn [walk cnt].
  apply fold_left_ext_in. intros acc b _. destruct (edge g a b); [|now rewrite N.add_0_r].
  unfold ext_cnt. now rewrite IH.
Qed.

(* the hash: the set of remaining nodes as a bit mask (node ids are small naturals); any other function would do *)
Definition mask_hash (k : list nat) : positive :=
  fold_left (fun p x => Pos.lor p (Pos.shiftl_nat 1%positive (S x))) k 1%positive.

Definition min_pm_weight_memo (g : graph) : option Q :=
  walk_memo (option Q) None (Some 0%Q) omin ext_min g mask_hash (nodes g).
Definition npms_memo (g : graph) : N := walk_memo N 0%N 1%N N.add ext_cnt g mask_hash (nodes g).
Definition is_min_pm_memo (g : graph) (m : matching) : bool :=
  is_perfect g m && match min_pm_weight_memo g with Some w => Qle_bool (weight g m) w | None => false end.

Theorem min_pm_weight_memo_eq g : min_pm_weight_memo g = min_pm_weight_fast g.
Proof. unfold min_pm_weight_memo, min_pm_weight_fast. rewrite walk_memo_eq. apply walk_minw. Qed.
Theorem npms_memo_eq g : npms_memo g = npms_fast g.
Proof. unfold npms_memo, npms_fast. rewrite walk_memo_eq. apply walk_cnt. Qed.
Theorem npms_memo_spec g : npms_memo g = N.of_nat (length (all_pms g)).
Proof. rewrite npms_memo_eq. apply npms_fast_spec. Qed.

Theorem min_pm_weight_memo_spec g w : min_pm_weight_memo g = Some w ->
  (exists m, perfect g m /\ weight g m = w) /\ forall m', perfect g m' -> (w <= weight g m')%Q.
Proof. rewrite min_pm_weight_memo_eq. apply min_pm_weight_fast_spec. Qed.
Theorem min_pm_weight_memo_none g : min_pm_weight_memo g = None <-> forall m, ~ perfect g m.
Proof. rewrite min_pm_weight_memo_eq. apply min_pm_weight_fast_none. Qed.

Theorem is_min_pm_memo_eq g m : is_min_pm_memo g m = is_min_pm g m.
Proof.
  rewrite <- is_min_pm_fast_eq. unfold is_min_pm_memo, is_min_pm_fast. now rewrite min_pm_weight_memo_eq.
Qed.
Theorem is_min_pm_memo_spec g m : is_min_pm_memo g m = true <->
  perfect g m /\ forall m', perfect g m' -> (weight g m <= weight g m')%Q.
Proof. rewrite is_min_pm_memo_eq. apply is_min_pm_spec. Qed.

(* ---------- weights with large denominators (floats such as k * 2^-70): scale first ----------
   Q arithmetic does not reduce fractions, so sums of n weights with denominator d carry the denominator d^n.  Multiplying
   every weight by one positive constant changes neither the perfect matchings nor their order by weight; with the constant
   a common multiple of the denominators (and Qred) all weights become integers.  Proved for EVERY positive constant: the
   choice matters for speed alone. *)
Definition scaleq (c : Q) (g : graph) : graph := map (fun e => (fst e, Qred (snd e * c))) g.
Lemma keys_scaleq c g : keys (scaleq c g) = keys g.
Proof. unfold keys, scaleq. rewrite map_map. reflexivity. Qed.
Lemma nodes_scaleq c g : nodes (scaleq c g) = nodes g.
Proof. unfold nodes. now rewrite keys_scaleq. Qed.
Lemma edge_scaleq c g a b : edge (scaleq c g) a b = option_map (fun w => Qred (w * c)) (edge g a b).
Proof.
  induction g as [|[k w] r IH]; [reflexivity|]. change (scaleq c ((k, w) :: r)) with ((k, Qred (w * c)) :: scaleq c r).
  cbn [edge]. rewrite IH. destruct (edge r a b); cbn; auto. now destruct (upair k a b).
Qed.
Lemma perfect_scaleq c g m : perfect (scaleq c g) m <-> perfect g m.
Proof.
  unfold perfect. rewrite nodes_scaleq.
  assert (E : forall p, edge (scaleq c g) (fst p) (snd p) <> None <-> edge g (fst p) (snd p) <> None).
  { intros p. rewrite edge_scaleq. destruct (edge g (fst p) (snd p)); cbn; split; congruence. }
  split; intros (H1 & H2 & H3); repeat split; auto; try apply H2; intros p Hp; apply E; auto.
Qed.
Lemma is_perfect_scaleq c g m : is_perfect (scaleq c g) m = is_perfect g m.
Proof.
  destruct (is_perfect (scaleq c g) m) eqn:E1, (is_perfect g m) eqn:E2; auto.
  - apply is_perfect_spec, perfect_scaleq, is_perfect_spec in E1. congruence.
  - apply is_perfect_spec, (perfect_scaleq c), is_perfect_spec in E2. congruence.
Qed.
Lemma wt_scaleq c g p : (wt (scaleq c g) p == wt g p * c)%Q.
Proof. unfold wt. rewrite edge_scaleq. destruct (edge g (fst p) (snd p)); unfold option_map; [apply Qred_correct|ring]. Qed.
Lemma weight_scaleq c g m : (weight (scaleq c g) m == weight g m * c)%Q.
Proof.
  induction m as [|p m IH]; [cbn; ring|]. change (weight (scaleq c g) (p :: m)) with (wt (scaleq c g) p + weight (scaleq c g) m)%Q.
  change (weight g (p :: m)) with (wt g p + weight g m)%Q. rewrite wt_scaleq, IH. ring.
Qed.

Theorem is_min_pm_scaled_spec c g m : (0 < c)%Q -> (is_min_pm_memo (scaleq c g) m = true <->
  perfect g m /\ forall m', perfect g m' -> (weight g m <= weight g m')%Q).
Proof.
  intros Hc. rewrite is_min_pm_memo_spec, perfect_scaleq. split; intros [Hp H]; split; auto; intros m' Hm'.
  - assert (H' := H m' (proj2 (perfect_scaleq c g m') Hm')). rewrite !weight_scaleq in H'.
    now apply (Qmult_le_r _ _ c Hc).
  - rewrite !weight_scaleq. apply (Qmult_le_r _ _ c Hc). apply H. now apply (perfect_scaleq c).
Qed.

Definition den_scale (g : graph) : Q :=
  inject_Z (Zpos (Z.to_pos (fold_left (fun acc e => Z.lcm acc (Zpos (Qden (snd e)))) g 1%Z))).
Lemma den_scale_pos g : (0 < den_scale g)%Q.
Proof. reflexivity. Qed.

(* the checker used for dense graphs: scale to integers, then the memoised recursion *)
Definition is_min_pm_big (g : graph) (m : matching) : bool := is_min_pm_memo (scaleq (den_scale g) g) m.
Theorem is_min_pm_big_spec g m : is_min_pm_big g m = true <->
  perfect g m /\ forall m', perfect g m' -> (weight g m <= weight g m')%Q.
Proof. apply is_min_pm_scaled_spec, den_scale_pos. Qed.
Theorem is_min_pm_big_eq g m : is_min_pm_big g m = is_min_pm g m.
Proof.
  destruct (is_min_pm_big g m) eqn:E1, (is_min_pm g m) eqn:E2; auto.
  - apply is_min_pm_big_spec, is_min_pm_spec in E1. congruence.
  - apply is_min_pm_spec, is_min_pm_big_spec in E2. congruence.
Qed.
Theorem all_pms_scaleq c g : all_pms (scaleq c g) = all_pms g.
Proof.
  unfold all_pms. rewrite nodes_scaleq. generalize (length (nodes g)) as fuel. generalize (nodes g) as ns.
  intros ns fuel. revert ns. induction fuel as [|f IH]; intros ns; [reflexivity|]. destruct ns as [|a rest]; [reflexivity|].
  cbn [pms]. rewrite !flat_map_concat_map. f_equal. apply map_ext. intros b. rewrite edge_scaleq.
  destruct (edge g a b); unfold option_map; [now rewrite IH|reflexivity].
Qed.

(* closed instances: negative weights on a 4-cycle; the complete graph on 12 nodes with weight -(i+j) on edge {i,j}
   (66 edges, all negative): every perfect matching has weight -(0+1+...+11) = -66, there are 11!! = 10395 of them *)
Definition k12_neg : graph :=
  flat_map (fun i => map (fun j => ((i, j), (- inject_Z (Z.of_nat (i + j)))%Q)) (seq (S i) (11 - i))) (seq 0 12).
Example memo_negative :
  let g := [((0, 1), (-3)%Q); ((1, 2), 5%Q); ((2, 3), (-4)%Q); ((3, 0), 5%Q)] in
  is_min_pm_memo g [(0, 1); (2, 3)] = true /\ is_min_pm_memo g [(1, 2); (3, 0)] = false /\ npms_memo g = 2%N.
Proof. vm_compute. auto. Qed.
Example big_tiny_floats :   (* weights k * 2^-70 on a 4-cycle *)
  let e := (1 # (2 ^ 70))%Q in
  let g := [((0, 1), (3 * e)%Q); ((1, 2), (5 * e)%Q); ((2, 3), (4 * e)%Q); ((3, 0), (5 * e)%Q)] in
  is_min_pm_big g [(0, 1); (2, 3)] = true /\ is_min_pm_big g [(1, 2); (3, 0)] = false.
Proof. vm_compute. auto. Qed.
Example memo_k12_all_negative :
  length k12_neg = 66 /\ npms_memo k12_neg = 10395%N /\
  is_min_pm_memo k12_neg [(0, 11); (1, 10); (2, 9); (3, 8); (4, 7); (5, 6)] = true /\
  is_min_pm_memo k12_neg [(0, 11); (1, 10); (2, 9); (3, 8); (4, 7)] = false.
Proof. vm_compute. auto. Qed.
