(* Decoders/ToricErrPairs.v — the two lattice facts behind "the toric MWPM decoder corrects every error of weight
   <= (d-1)/2 per Pauli type", for ALL sizes rows, cols >= 2 (toric analogue of PlanarErrPairs.v):
   1. [terror_pairs]: the X part (Z part) of any operator is a product of single-site X (Z) operators, one per qubit
      in its support; each flips exactly the two plaquettes of sublattice 0 (sublattice 1) that contain that site,
      and these two are neighbours on the torus.  So the syndrome of the operator on one sublattice is the parity of
      a list of as many "elementary pairs" as the part has qubits.
   2. [toric_light_commuting_in_span]: an operator that commutes with every stabilizer generator and whose X part
      and Z part each have fewer than min(rows, cols) qubits is a product of stabilizer generators (translate
      argument of ToricRankAll.toric_translates applied to each part separately: anticommuting with Z1 / Z2 needs an
      X component in every row / column, with X1 / X2 a Z component in every column / row; then the centralizer
      lemma ToricRankAll.toric_centralizer). *)
From Coq Require Import ZArith List Bool Lia ZifyBool Permutation.
From QV Require Import Core.Bits Core.Pauli Core.Symp Core.Code Core.Span Core.Dist Core.DistCSS App.RunOnce
  Generated.LatticeArith Lattice.Planar Lattice.PlanarAll Lattice.PlanarDistAll Lattice.Toric Lattice.ToricAll
  Lattice.ToricRankAll Lattice.ToricDistAll Decoders.MwpmRel Decoders.PlanarErrPairs.
Import ListNotations.
Open Scope Z_scope.
Ltac Zify.zify_post_hook ::= Z.to_euclidean_division_equations.

Section TErrPairs.
Variables rows cols : Z.
Hypothesis Hr : 2 <= rows.
Hypothesis Hc : 2 <= cols.
Notation N := (toric_n rows cols).
Notation TI := (tindices rows cols).
Notation STABS := (stabs (toric_code rows cols)).
Notation always := (fun _ : tidx => true).
Notation tfl := (ToricAll.tfl rows cols).
Notation m3 := (ToricAll.m3 rows cols).
Notation tsop := (ToricAll.tsop rows cols).
Notation tstab := (ToricAll.tstab rows cols).
Notation inrange := (ToricAll.inrange rows cols).
Notation txat := (ToricRankAll.txat rows cols).
Notation tzat := (ToricRankAll.tzat rows cols).
Notation x1op := (ToricAll.x1op rows cols).
Notation x2op := (ToricAll.x2op rows cols).
Notation z1op := (ToricAll.z1op rows cols).
Notation z2op := (ToricAll.z2op rows cols).

(* px = true: X components, seen by the plaquettes of sublattice 0 (Z-type generators);
   px = false: Z components, seen by the plaquettes of sublattice 1 (X-type generators) *)
Definition tlat (px : bool) : Z := if px then 0 else 1.
Definition teop (px : bool) : pl := if px then pX else pZ.
Definition tembed (px : bool) (v : bsf) : bsf := if px then v ++ zeros N else zeros N ++ v.
Definition tpart (px : bool) (e : bsf) : bsf := if px then firstn N e else skipn N e.
(* the two plaquettes of sublattice (tlat px) that contain the site s = (l, r, c), for an in-range s *)
Definition tsends (px : bool) (s : tidx) : tidx * tidx :=
  let '(l, r, c) := s in
  if px then (if l =? 0 then ((0, r, c), (0, dec rows r, c)) else ((0, r, c), (0, r, dec cols c)))
  else (if l =? 0 then ((1, dec rows r, inc cols c), (1, dec rows r, c)) else ((1, r, c), (1, dec rows r, c))).
Definition tpairpar (q : tidx) (L : list (tidx * tidx)) : bool :=
  xsumb (fun p => xorb (zeqb3 q (fst p)) (zeqb3 q (snd p))) L.

Lemma tlat_cases px : tlat px = 0 \/ tlat px = 1.
Proof. destruct px; cbn; auto. Qed.

Lemma tembed_length px v : length v = N -> length (tembed px v) = (N + N)%nat.
Proof. intros H. unfold tembed. destruct px; rewrite app_length, zeros_length; lia. Qed.
Lemma tembed_zeros px : tembed px (zeros N) = zeros (N + N).
Proof. unfold tembed. destruct px; apply zeros_app. Qed.
Lemma tembed_xorv px a b : length a = N -> length b = N -> tembed px (xorv a b) = xorv (tembed px a) (tembed px b).
Proof.
  intros Ha Hb. unfold tembed. destruct px.
  - rewrite xorv_app by lia. now rewrite xorv_zz.
  - rewrite xorv_app by now rewrite !zeros_length. now rewrite xorv_zz.
Qed.
Lemma tfirstn_N_app (a b : bsf) : length a = N -> firstn N (a ++ b) = a.
Proof. intros H. rewrite firstn_app, H, Nat.sub_diag. cbn. rewrite app_nil_r. rewrite <- H. apply firstn_all. Qed.
Lemma tskipn_N_app (a b : bsf) : length a = N -> skipn N (a ++ b) = b.
Proof. intros H. rewrite skipn_app, H, Nat.sub_diag. cbn. rewrite <- H. now rewrite skipn_all. Qed.
Lemma tpart_tembed px v : length v = N -> tpart px (tembed px v) = v.
Proof. intros H. unfold tpart, tembed. destruct px; [now apply tfirstn_N_app|apply tskipn_N_app, zeros_length]. Qed.
Lemma tpart_length px e : length e = (N + N)%nat -> length (tpart px e) = N.
Proof. intros H. unfold tpart. destruct px; [rewrite firstn_length|rewrite skipn_length]; lia. Qed.

(* the two plaquettes next to an in-range site are in-range plaquettes of the right sublattice *)
Lemma tsends_in px s : inrange s ->
  In (fst (tsends px s)) TI /\ In (snd (tsends px s)) TI /\
  fst (fst (fst (tsends px s))) = tlat px /\ fst (fst (snd (tsends px s))) = tlat px.
Proof.
  destruct s as [[l r] c]. unfold ToricAll.inrange. cbn [fst snd]. intros (H0 & H1 & H2).
  pose proof (dec_range rows r H1) as D1. pose proof (dec_range cols c H2) as D2. pose proof (inc_range cols c H2) as I2.
  unfold tsends, tlat. destruct px; destruct (l =? 0); cbn [fst snd];
    (split; [apply (in_TI rows cols); auto|split; [apply (in_TI rows cols); auto|split; reflexivity]]).
Qed.

(* a single flipped bit is the single-site operator *)
Lemma tsingle_op px s : tembed px (flipn (tfl s) (zeros N)) = tsop (teop px) [s].
Proof.
  rewrite tsop_gop, gop_parts. unfold PlanarAll.xpart, PlanarAll.zpart, keys. cbn [filter map].
  unfold flips. cbn [fold_left]. unfold tembed, teop. now destruct px.
Qed.

(* ... whose syndrome on the plaquettes of its sublattice is the indicator of the two plaquettes next to the site *)
Lemma tsingle_syndrome px s q : inrange s -> In q TI -> fst (fst q) = tlat px ->
  bsp (tsop (teop px) [s]) (tstab q) = xorb (zeqb3 q (fst (tsends px s))) (zeqb3 q (snd (tsends px s))).
Proof.
  intros Hs Hq Hl. rewrite (reader_stab rows cols Hr Hc) by exact Hq.
  destruct (qop_bits rows cols q Hq) as [-> ->]. rewrite Hl.
  destruct s as [[l r] c]. unfold ToricAll.inrange in Hs. cbn [fst snd] in Hs. destruct Hs as (H0 & H1 & H2).
  pose proof (dec_range rows r H1) as D1. pose proof (inc_range cols c H2) as I2.
  assert (Hl01 : l = 0 \/ l = 1) by lia.
  unfold teop, tlat, tsends. destruct px; cbn [xbit zbit andb Z.eqb]; rewrite ?xorb_false_l, ?xorb_false_r;
    destruct Hl01 as [-> | ->]; cbn [Z.eqb fst snd].
  - rewrite <- (overlap_n rows cols Hr Hc 0 r c q) by auto. now rewrite Hl.
  - rewrite <- (overlap_w rows cols Hr Hc 0 r c q (1, r, c)) by (auto; f_equal; apply tri_eq; lia). now rewrite Hl.
  - assert (E : dec cols (inc cols c) = c) by now apply dec_inc.
    rewrite <- E at 3.
    rewrite <- (overlap_w rows cols Hr Hc 1 (dec rows r) (inc cols c) q (0, r, c)); auto; [now rewrite Hl|].
    rewrite !m3_unfold. apply tri_eq; [reflexivity| |].
    + rewrite mod_inc by auto. rewrite inc_dec by auto. apply Z.mod_small; lia.
    + rewrite mod_dec by auto. rewrite E. apply Z.mod_small; lia.
  - rewrite <- (overlap_n rows cols Hr Hc 1 r c q) by auto. now rewrite Hl.
Qed.

(* 1. every part of weight n is a product of n single-site operators *)
Lemma tpart_pairs px : forall (n : nat) v, length v = N -> count_true v = n -> exists L : list (tidx * tidx),
  length L = n /\ (forall p, In p L -> exists s, inrange s /\ p = tsends px s) /\
  forall q, In q TI -> fst (fst q) = tlat px -> bsp (tembed px v) (tstab q) = tpairpar q L.
Proof.
  induction n as [|n IH]; intros v Hl Hc'.
  - exists []. split; [reflexivity|]. split; [intros p []|]. intros q _ _.
    rewrite (count_true_zero_zeros v Hc'), Hl, tembed_zeros. apply RunOnce.bsp_zeros_l.
  - destruct (count_true_pos_nth v ltac:(lia)) as (k & Hk).
    pose proof (nth_true_lt k v Hk) as Hkl.
    pose proof (count_true_flipn_clear k v Hk) as Hcnt.
    set (v' := flipn k v) in *.
    assert (Hl' : length v' = N) by (unfold v'; now rewrite flipn_length).
    destruct (IH v' Hl' ltac:(lia)) as (L & HL1 & HL2 & HL3).
    destruct (toric_flatten_bijective_all rows cols Hr Hc) as (_ & _ & _ & Hsurj).
    destruct (Hsurj k ltac:(lia)) as (s & Hs & Hf).
    exists (tsends px s :: L). split; [cbn; lia|]. split.
    + intros p [<-|Hp]; [exists s; auto|auto].
    + intros q Hq Hp.
      assert (Ev : v = xorv v' (flipn k (zeros N))).
      { rewrite <- (flipn_xor k v' N Hl' ltac:(lia)). unfold v'. now rewrite flipn_flipn. }
      rewrite Ev, tembed_xorv by (rewrite ?flipn_length, ?zeros_length; auto).
      rewrite bsp_linear_l by (rewrite !tembed_length; rewrite ?flipn_length, ?zeros_length; auto).
      rewrite (HL3 q Hq Hp). rewrite <- Hf, tsingle_op. rewrite (tsingle_syndrome px s q Hs Hq Hp).
      unfold tpairpar. cbn [xsumb]. apply xorb_comm.
Qed.

(* the syndrome on the plaquettes of one sublattice only sees the corresponding part *)
Lemma txat_part e e' s : firstn N e = firstn N e' -> txat e s = txat e' s.
Proof. intros H. unfold ToricRankAll.txat. now rewrite H. Qed.
Lemma tzat_part e e' s : skipn N e = skipn N e' -> tzat e s = tzat e' s.
Proof. intros H. unfold ToricRankAll.tzat. now rewrite H. Qed.
Lemma tstab_sees_part px e e' q : length e = (N + N)%nat -> length e' = (N + N)%nat -> tpart px e = tpart px e' ->
  In q TI -> fst (fst q) = tlat px -> bsp e (tstab q) = bsp e' (tstab q).
Proof.
  intros He He' Hp Hq Hl. destruct (tindex_cases rows cols q Hq) as (l & r & c & -> & _ & H1 & H2).
  cbn [fst snd] in Hl. subst l. unfold tpart in Hp. destruct px; cbn [tlat].
  - rewrite !(stab_primal_sum rows cols Hr Hc) by auto. apply xsumb_ext. intros s _. now apply txat_part.
  - rewrite !(stab_dual_sum rows cols Hr Hc) by auto. apply xsumb_ext. intros s _. now apply tzat_part.
Qed.

Theorem terror_pairs px e : length e = (N + N)%nat -> exists L : list (tidx * tidx),
  length L = count_true (tpart px e) /\ (forall p, In p L -> exists s, inrange s /\ p = tsends px s) /\
  forall q, In q TI -> fst (fst q) = tlat px -> bsp e (tstab q) = tpairpar q L.
Proof.
  intros He. destruct (tpart_pairs px (count_true (tpart px e)) (tpart px e) (tpart_length px e He) eq_refl) as (L & H1 & H2 & H3).
  exists L. split; [exact H1|]. split; [exact H2|]. intros q Hq Hp. rewrite <- (H3 q Hq Hp).
  apply (tstab_sees_part px); auto.
  - apply tembed_length, tpart_length, He.
  - symmetry. apply tpart_tembed, tpart_length, He.
Qed.

(* ---- 2. light operators commuting with every stabilizer generator are products of generators ---- *)
Notation tnormal := (ToricRankAll.tnormal rows cols).

Lemma z1_rows_bound f : length f = (N + N)%nat -> tnormal f -> bsp f z1op = true ->
  rows <= Z.of_nat (count_true (firstn N f)).
Proof.
  intros He Hn Hb. destruct (toric_translates rows cols Hr Hc f He Hn) as (T & _ & _ & _).
  assert (HC : (Z.to_nat rows <= count_true (firstn N f))%nat).
  { apply (tsites_hit_count rows cols Hr Hc _ (fun s => snd (fst s))). intros i Hi.
    pose proof (T i ltac:(lia)) as H. rewrite Hb in H. unfold ToricRankAll.rowp in H.
    apply xsumb_true_ex in H. destruct H as (j & Hj & Hx). apply in_seq in Hj.
    exists (0, i, Z.of_nat j). split; [apply (inrange_mk rows cols); lia|]. split; [exact Hx|reflexivity]. }
  lia.
Qed.
Lemma z2_cols_bound f : length f = (N + N)%nat -> tnormal f -> bsp f z2op = true ->
  cols <= Z.of_nat (count_true (firstn N f)).
Proof.
  intros He Hn Hb. destruct (toric_translates rows cols Hr Hc f He Hn) as (_ & T & _ & _).
  assert (HC : (Z.to_nat cols <= count_true (firstn N f))%nat).
  { apply (tsites_hit_count rows cols Hr Hc _ (fun s => snd s)). intros j Hj.
    pose proof (T j ltac:(lia)) as H. rewrite Hb in H. unfold ToricRankAll.colp in H.
    apply xsumb_true_ex in H. destruct H as (i & Hi & Hx). apply in_seq in Hi.
    exists (1, Z.of_nat i, j). split; [apply (inrange_mk rows cols); lia|]. split; [exact Hx|reflexivity]. }
  lia.
Qed.
Lemma x1_cols_bound f : length f = (N + N)%nat -> tnormal f -> bsp f x1op = true ->
  cols <= Z.of_nat (count_true (skipn N f)).
Proof.
  intros He Hn Hb. destruct (toric_translates rows cols Hr Hc f He Hn) as (_ & _ & T & _).
  assert (HC : (Z.to_nat cols <= count_true (skipn N f))%nat).
  { apply (tsites_hit_count rows cols Hr Hc _ (fun s => snd s)). intros j Hj.
    pose proof (T j ltac:(lia)) as H. rewrite Hb in H. unfold ToricRankAll.colp in H.
    apply xsumb_true_ex in H. destruct H as (i & Hi & Hx). apply in_seq in Hi.
    exists (0, Z.of_nat i, j). split; [apply (inrange_mk rows cols); lia|]. split; [exact Hx|reflexivity]. }
  lia.
Qed.
Lemma x2_rows_bound f : length f = (N + N)%nat -> tnormal f -> bsp f x2op = true ->
  rows <= Z.of_nat (count_true (skipn N f)).
Proof.
  intros He Hn Hb. destruct (toric_translates rows cols Hr Hc f He Hn) as (_ & _ & _ & T).
  assert (HC : (Z.to_nat rows <= count_true (skipn N f))%nat).
  { apply (tsites_hit_count rows cols Hr Hc _ (fun s => snd (fst s))). intros i Hi.
    pose proof (T i ltac:(lia)) as H. rewrite Hb in H. unfold ToricRankAll.rowp in H.
    apply xsumb_true_ex in H. destruct H as (j & Hj & Hx). apply in_seq in Hj.
    exists (1, i, Z.of_nat j). split; [apply (inrange_mk rows cols); lia|]. split; [exact Hx|reflexivity]. }
  lia.
Qed.

Theorem toric_light_commuting_in_span f : length f = (N + N)%nat -> (forall s, In s STABS -> bsp f s = false) ->
  Z.of_nat (count_true (firstn N f)) < Z.min rows cols -> Z.of_nat (count_true (skipn N f)) < Z.min rows cols ->
  in_spanP (N + N) STABS f.
Proof.
  intros Hf Hn Wx Wz. assert (Hn' : tnormal f) by now apply tnormal_normalizer.
  apply (toric_centralizer rows cols Hr Hc f Hf Hn).
  - destruct (bsp f x1op) eqn:E; [|reflexivity]. pose proof (x1_cols_bound f Hf Hn' E). lia.
  - destruct (bsp f x2op) eqn:E; [|reflexivity]. pose proof (x2_rows_bound f Hf Hn' E). lia.
  - destruct (bsp f z1op) eqn:E; [|reflexivity]. pose proof (z1_rows_bound f Hf Hn' E). lia.
  - destruct (bsp f z2op) eqn:E; [|reflexivity]. pose proof (z2_cols_bound f Hf Hn' E). lia.
Qed.
End TErrPairs.

(* non-vacuity: a Y on one qubit of a 3x4 torus flips two neighbouring plaquettes on each sublattice *)
Example terror_pairs_ex :
  let e := p_to_bsf (tsite 3 4 pY (0, 1, 2) (tnew_pauli 3 4)) in
  length e = 48%nat /\ count_true (tpart 3 4 true e) = 1%nat /\ count_true (tpart 3 4 false e) = 1%nat /\
  tsends 3 4 true (0, 1, 2) = ((0, 1, 2), (0, 0, 2)) /\ tsends 3 4 false (0, 1, 2) = ((1, 0, 3), (1, 0, 2)) /\
  forallb (fun q => Bool.eqb (bsp e (ToricAll.tstab 3 4 q))
                      (if fst (fst q) =? 0 then tpairpar q [tsends 3 4 true (0, 1, 2)] else tpairpar q [tsends 3 4 false (0, 1, 2)]))
          (tindices 3 4) = true.
Proof. vm_compute. repeat split; reflexivity. Qed.

Print Assumptions terror_pairs.
Print Assumptions toric_light_commuting_in_span.
