(* Decoders/ToricMwpmPm.v — C02, toric MWPM decoder, all sizes: the decoder's matching graph ADMITS a perfect matching
   exactly when the lattice has an even number of defects.

   c02_toric_mwpm (ToricMwpm.toric_mwpm_syndrome) takes the matcher's answer as an input with the hypothesis that it is
   a perfect matching of each lattice's defect list.  qecsim.graphtools.mwpm can only return edges of the graph it was
   given (and silently returns a maximum-cardinality, imperfect matching when the graph has no perfect one), so the
   hypothesis can hold only if the decoder's GRAPH contains a perfect matching.  For the model graph
   (MwpmGraph.toric_graph = itertools.combinations of the defects, i.e. complete) this is proved here for every
   syndrome with an even number of defects on the lattice, however many defects there are and however they are
   arranged; a sparser graph (e.g. nearest neighbours only) does not have the property: two separated groups with an
   odd number of defects each ([sparse_no_perfect_matching_ex]).  The harness (harness/c02_dense.py) compares the graph
   recorded at graphtools.mwpm with toric_graph on syndromes with many defects in structured arrangements, and
   evaluates "the recorded matching is perfect" on the recording. *)
From Coq Require Import ZArith List Bool Lia Permutation.
From QV Require Import Core.Bits Core.Pauli Core.Symp Core.Code Generated.LatticeArith
  Lattice.Toric Decoders.MwpmRel Decoders.ToricMwpm Decoders.MwpmGraph.
Import ListNotations.

(* consecutive elements paired off *)
Fixpoint pair_up {A} (l : list A) : list (A * A) :=
  match l with
  | a :: r => match r with b :: r' => (a, b) :: pair_up r' | [] => [] end
  | [] => []
  end.

Lemma pair_up_ends {A} : forall (n : nat) (l : list A), (length l <= n)%nat -> Nat.even (length l) = true ->
  ends2 (pair_up l) = l.
Proof.
  induction n as [|n IH]; intros l L E.
  - destruct l; [reflexivity|cbn in L; lia].
  - destruct l as [|a [|b r]]; [reflexivity|discriminate|].
    cbn [pair_up ends2 flat_map fst snd app]. fold (ends2 (pair_up r)). rewrite IH; [reflexivity|cbn in L; lia|exact E].
Qed.

(* every pair is one of itertools.combinations(l, 2), in that orientation *)
Lemma pair_up_in_pairs {A} : forall (n : nat) (l : list A), (length l <= n)%nat -> forall a b,
  In (a, b) (pair_up l) -> In (a, b) (pairs l).
Proof.
  induction n as [|n IH]; intros l L a b H.
  - destruct l; [destruct H|cbn in L; lia].
  - destruct l as [|x [|y r]]; try (now destruct H). cbn [pair_up] in H. destruct H as [E|H].
    + injection E as <- <-. cbn [pairs]. apply in_app_iff. left. cbn [map]. left. reflexivity.
    + assert (Hr : In (a, b) (pairs r)) by (apply IH; [cbn in L; lia|exact H]).
      cbn [pairs]. apply in_app_iff. right. apply in_app_iff. right. exact Hr.
Qed.

Section ToricPm.
Variables rows cols : Z.
Notation defs := (lattice_defects rows cols).
Notation G := (toric_graph rows cols).

(* a perfect matching of the lattice's defects all of whose edges are edges of the decoder's graph *)
Definition perfect_in_graph (la : Z) (syn : bsf) (m : list (tidx * tidx)) : Prop :=
  Permutation (ends2 m) (defs la syn) /\
  forall a b, In (a, b) m -> exists w, In (a, b, w) (G la syn) \/ In (b, a, w) (G la syn).

Theorem toric_graph_has_perfect_matching la syn : Nat.even (length (defs la syn)) = true ->
  exists m, perfect_in_graph la syn m.
Proof.
  intros E. exists (pair_up (defs la syn)). split.
  - rewrite (pair_up_ends (length (defs la syn))); auto.
  - intros a b H. exists (Toric.tdistance rows cols a b). left. unfold toric_graph. apply in_map_iff.
    exists (a, b). split; [reflexivity|]. eapply pair_up_in_pairs; [apply Nat.le_refl|exact H].
Qed.

Theorem toric_graph_perfect_matching_iff la syn :
  (exists m, perfect_in_graph la syn m) <-> Nat.even (length (defs la syn)) = true.
Proof.
  split.
  - intros (m & P & _). exact (perfect_even m _ P).
  - apply toric_graph_has_perfect_matching.
Qed.

(* with c02_toric_mwpm: whenever both lattices carry an even number of defects there ARE matchings drawn from the
   decoder's two graphs, and every such pair of matchings gives a recovery with exactly the given syndrome *)
Theorem toric_mwpm_graph_total : 2 <= rows -> 2 <= cols -> forall syn : bsf,
  length syn = length (tindices rows cols) ->
  Nat.even (length (defs 0 syn)) = true -> Nat.even (length (defs 1 syn)) = true ->
  (exists m0 m1, perfect_in_graph 0 syn m0 /\ perfect_in_graph 1 syn m1) /\
  forall m0 m1, perfect_in_graph 0 syn m0 -> perfect_in_graph 1 syn m1 ->
    exists r, toric_mwpm_recovery rows cols (m0 ++ m1) = Some r /\ length r = (toric_n rows cols + toric_n rows cols)%nat /\
              syndrome_of (stabs (toric_code rows cols)) r = syn.
Proof.
  intros Hr Hc syn L E0 E1. split.
  - destruct (toric_graph_has_perfect_matching 0 syn E0) as [m0 H0].
    destruct (toric_graph_has_perfect_matching 1 syn E1) as [m1 H1]. eauto.
  - intros m0 m1 [P0 _] [P1 _]. apply toric_mwpm_syndrome; auto.
Qed.
End ToricPm.

(* a graph on the same nodes that keeps only short edges need not contain a perfect matching: six nodes in two groups
   of three, edges only inside the groups - every matching drawn from it leaves a node unmatched *)
Definition drawn_from {A} (g : list (A * A)) (m : list (A * A)) : Prop :=
  forall a b, In (a, b) m -> In (a, b) g \/ In (b, a) g.
Example sparse_no_perfect_matching_ex :
  let nodes := [1; 2; 3; 11; 12; 13]%Z in
  let g := [(1, 2); (1, 3); (2, 3); (11, 12); (11, 13); (12, 13)]%Z in
  Nat.even (length nodes) = true /\
  ~ exists m, Permutation (ends2 m) nodes /\ drawn_from g m.
Proof.
  cbn zeta. split; [reflexivity|]. intros (m & P & D).
  (* count the ends in the first group: each edge of g has 0 or 2 ends there, the node list has 3 *)
  set (f := fun z : Z => (z <? 10)%Z).
  assert (Hc : forall l l' : list Z, Permutation l l' -> length (filter f l) = length (filter f l')).
  { intros l l' Pl. induction Pl; cbn; auto; try congruence.
    - destruct (f x); cbn; congruence.
    - destruct (f x), (f y); cbn; reflexivity. }
  specialize (Hc _ _ P). cbn in Hc.
  assert (Ev : Nat.even (length (filter f (ends2 m))) = true).
  { clear P Hc. induction m as [|[a b] m IH]; [reflexivity|].
    assert (Dm : drawn_from [(1, 2); (1, 3); (2, 3); (11, 12); (11, 13); (12, 13)]%Z m).
    { intros x y H. apply D. right. exact H. }
    specialize (IH Dm). cbn [ends2 flat_map fst snd app filter]. fold (ends2 m).
    assert (Hab : f a = f b).
    { destruct (D a b (or_introl eq_refl)) as [H|H]; cbn in H;
        repeat (destruct H as [H|H]; [injection H as <- <-; reflexivity|]); destruct H. }
    rewrite Hab. destruct (f b); cbn [length]; [|exact IH].
    rewrite Nat.even_succ_succ. exact IH. }
  rewrite Hc in Ev. discriminate.
Qed.

(* non-vacuity of the positive theorem on a concrete many-defect syndrome: all plaquettes of a 4x4 torus violated *)
Example toric_all_ones_pm_ex :
  let syn := repeat true 32 in
  length (lattice_defects 4 4 0 syn) = 16%nat /\ length (lattice_defects 4 4 1 syn) = 16%nat /\
  length (toric_graph 4 4 0 syn) = 120%nat /\
  length (pair_up (lattice_defects 4 4 0 syn)) = 8%nat.
Proof. vm_compute. repeat split. Qed.
