(* Decoders/SampleRecoveryColor.v — the recovery construction of Color666MPSDecoder
   (color/_color666mpsdecoder.py:149-183):
     for syndrome_indices, op in zip(code.syndrome_to_plaquette_indices(syndrome), ('Z', 'X')):
       for (r1, c1) in syndrome_indices:
         (r2, c2) = code.virtual_plaquette_index((r1, c1))
         step = sign(c2 - c1); if step: for cc in range(c1, c2 + step, step): if is_site((r1, cc)): site(op, (r1, cc))
         step = sign(r2 - r1); if step: for rr in range(r1, r2 + step, step): if is_site((rr, c1)): site(op, (rr, c1))
   and of what decode returns (sample times I / logical X / logical X logical Z / logical Z, an arbitrary oracle here).

   Theorems (ALL odd sizes >= 3, EVERY bit vector of syndrome length, EVERY iteration order of the two Python sets,
   EVERY coset): the returned operator has exactly the given syndrome:
     color_sample_syndrome_all, color_mps_decode_syndrome_all. *)
From Coq Require Import ZArith List Bool Lia ZifyBool Permutation.
From QV Require Import Core.Bits Core.Pauli Core.Symp Core.Code App.RunOnce Generated.LatticeArith
  Lattice.Planar Lattice.PlanarAll Decoders.Checker Decoders.MwpmRel
  Lattice.RotPlanar Lattice.Color Lattice.RotPlanarAll Lattice.RotPlanarValidAll Lattice.ColorValidAll
  Decoders.SampleRecovery.
Import ListNotations.
Open Scope Z_scope.
Ltac Zify.zify_post_hook ::= Z.to_euclidean_division_equations.

(* range(a, b + step, step) with step = np.sign(b - a); the loop is skipped when step = 0 *)
Definition c6_pyrange (a b : Z) : list Z :=
  if a <? b then map (fun i => a + Z.of_nat i) (seq 0 (Z.to_nat (b - a + 1)))
  else if b <? a then map (fun i => a - Z.of_nat i) (seq 0 (Z.to_nat (a - b + 1)))
  else [].

(* ---- counting along ascending / descending runs ---- *)
Lemma c6_cnt_row_up s X lo m : rc_cnt s (map (fun c => (X, c)) (map (fun i => lo + Z.of_nat i) (seq 0 m))) =
  Z.b2z ((fst s =? X) && (lo <=? snd s) && (snd s <? lo + Z.of_nat m)).
Proof.
  induction m as [|m IH]; [cbn; lia|]. rewrite seq_S, !map_app, rc_cnt_app, IH. cbn [map Nat.add]. rewrite rc_cnt_cons.
  destruct s as [a b]. unfold rc_idx_eqb, rc_cnt. cbn [fst snd fold_right]. lia.
Qed.
Lemma c6_cnt_row_down s X hi m : rc_cnt s (map (fun c => (X, c)) (map (fun i => hi - Z.of_nat i) (seq 0 m))) =
  Z.b2z ((fst s =? X) && (hi - Z.of_nat m <? snd s) && (snd s <=? hi)).
Proof.
  induction m as [|m IH]; [cbn; lia|]. rewrite seq_S, !map_app, rc_cnt_app, IH. cbn [map Nat.add]. rewrite rc_cnt_cons.
  destruct s as [a b]. unfold rc_idx_eqb, rc_cnt. cbn [fst snd fold_right]. lia.
Qed.
Lemma c6_cnt_col_up s Y lo m : rc_cnt s (map (fun r => (r, Y)) (map (fun i => lo + Z.of_nat i) (seq 0 m))) =
  Z.b2z ((snd s =? Y) && (lo <=? fst s) && (fst s <? lo + Z.of_nat m)).
Proof.
  induction m as [|m IH]; [cbn; lia|]. rewrite seq_S, !map_app, rc_cnt_app, IH. cbn [map Nat.add]. rewrite rc_cnt_cons.
  destruct s as [a b]. unfold rc_idx_eqb, rc_cnt. cbn [fst snd fold_right]. lia.
Qed.
Lemma c6_cnt_col_down s Y hi m : rc_cnt s (map (fun r => (r, Y)) (map (fun i => hi - Z.of_nat i) (seq 0 m))) =
  Z.b2z ((snd s =? Y) && (hi - Z.of_nat m <? fst s) && (fst s <=? hi)).
Proof.
  induction m as [|m IH]; [cbn; lia|]. rewrite seq_S, !map_app, rc_cnt_app, IH. cbn [map Nat.add]. rewrite rc_cnt_cons.
  destruct s as [a b]. unfold rc_idx_eqb, rc_cnt. cbn [fst snd fold_right]. lia.
Qed.
(* the run between a and b inclusive, whichever way round; empty when a = b *)
Lemma c6_cnt_row_pyrange s X a b : rc_cnt s (map (fun c => (X, c)) (c6_pyrange a b)) =
  Z.b2z ((fst s =? X) && (Z.min a b <=? snd s) && (snd s <=? Z.max a b) && negb (a =? b)).
Proof.
  unfold c6_pyrange. destruct (Z.ltb_spec a b) as [H|H]; [|destruct (Z.ltb_spec b a) as [H'|H']].
  - rewrite c6_cnt_row_up. lia.
  - rewrite c6_cnt_row_down. lia.
  - cbn. lia.
Qed.
Lemma c6_cnt_col_pyrange s Y a b : rc_cnt s (map (fun r => (r, Y)) (c6_pyrange a b)) =
  Z.b2z ((snd s =? Y) && (Z.min a b <=? fst s) && (fst s <=? Z.max a b) && negb (a =? b)).
Proof.
  unfold c6_pyrange. destruct (Z.ltb_spec a b) as [H|H]; [|destruct (Z.ltb_spec b a) as [H'|H']].
  - rewrite c6_cnt_col_up. lia.
  - rewrite c6_cnt_col_down. lia.
  - cbn. lia.
Qed.

Section ColorSample.
Variable size : Z.

(* the sites flipped for one flagged plaquette; None = IndexError of virtual_plaquette_index *)
Definition c6_string_sites (q : ridx) : option (list ridx) :=
  match color_virtual_plaquette_index size q with
  | None => None
  | Some (r2, c2) =>
      let '(r1, c1) := q in
      Some (filter color_is_site (map (fun cc => (r1, cc)) (c6_pyrange c1 c2)) ++
            filter color_is_site (map (fun rr => (rr, c1)) (c6_pyrange r1 r2)))
  end.
Fixpoint c6_sample_strings (op : pl) (L : list ridx) (p : rc_pauli) : option rc_pauli :=
  match L with
  | [] => Some p
  | q :: L' =>
      match c6_string_sites q with
      | None => None
      | Some sl => match c6_sites size op sl p with None => None | Some p' => c6_sample_strings op L' p' end
      end
  end.
(* zip((X-stabilizer plaquettes, Z-stabilizer plaquettes), ('Z', 'X')), each set in a given iteration order *)
Definition color_sample_recovery_ord (LX LZ : list ridx) : option rc_pauli :=
  match c6_sample_strings pZ LX (c6_identity size) with
  | None => None
  | Some p => c6_sample_strings pX LZ p
  end.
Definition color_sample_recovery (syn : bsf) : option rc_pauli :=
  let '(lx, lz) := c6_syndrome_to_plaquette_indices size syn in color_sample_recovery_ord lx lz.
Definition color_apply_coset (c : coset) (p : rc_pauli) : option rc_pauli :=
  match c with
  | CI => Some p
  | CX => c6_logical size pX p
  | CY => match c6_logical size pX p with Some p' => c6_logical size pZ p' | None => None end
  | CZ => c6_logical size pZ p
  end.
Definition color_mps_recovery (c : coset) (syn : bsf) : option bsf :=
  match color_sample_recovery syn with
  | None => None
  | Some p => option_map rc_to_bsf (color_apply_coset c p)
  end.

Variable m : Z.
Hypothesis Hm : 1 <= m.
Hypothesis Hsize : size = 2 * m + 1.
Notation inb := (color_is_in_bounds size).
Notation CN := (c6_n size).
Notation CPI := (c6_plaquette_indices size).
Notation CS := (stabs (color_code size)).

Lemma c6_string_sites_some q : color_is_plaquette q = true -> exists sl, c6_string_sites q = Some sl /\ c6_all_sites sl.
Proof.
  intros Hq. unfold c6_string_sites, color_virtual_plaquette_index. destruct q as [r1 c1]. rewrite Hq. cbn [negb].
  assert (Hall : forall r2 c2, c6_all_sites (filter color_is_site (map (fun cc => (r1, cc)) (c6_pyrange c1 c2)) ++
                                         filter color_is_site (map (fun rr => (rr, c1)) (c6_pyrange r1 r2)))).
  { intros r2 c2 a Ha. apply in_app_iff in Ha. destruct Ha as [Ha|Ha]; apply filter_In in Ha; tauto. }
  destruct (Z.eqb_spec (r1 mod 3) 0); [eexists; split; [reflexivity|apply Hall]|].
  destruct (Z.eqb_spec (r1 mod 3) 1); [eexists; split; [reflexivity|apply Hall]|].
  destruct (Z.eqb_spec (r1 mod 3) 2); [eexists; split; [reflexivity|apply Hall]|]. exfalso. lia.
Qed.

(* the string of plaquette q meets the hexagon of plaquette p in an odd number of lattice sites exactly when p = q *)
Lemma c6_string_overlap q p sl :
  color_is_plaquette q = true -> color_is_plaquette p = true -> inb q = true -> inb p = true ->
  c6_string_sites q = Some sl ->
  Z.odd (rc_pairs (filter inb (c6_neighbours p)) (filter inb sl)) = rc_idx_eqb p q.
Proof.
  intros Tq Tp Bq Bp HS. destruct q as [r1 c1], p as [r c].
  unfold c6_string_sites, color_virtual_plaquette_index in HS. rewrite Tq in HS. cbn [negb] in HS.
  rewrite (c6_bound_eq size m Hsize) in HS.
  rewrite c6_plaq_unfold in Tq, Tp. rewrite (c6_inb_unfold size m Hsize) in Bq, Bp. cbn [fst snd] in Tq, Tp, Bq, Bp.
  apply Z.eqb_eq in Tq, Tp.
  assert (Bq' : 0 <= c1 <= r1 /\ r1 <= 3 * m) by lia. assert (Bp' : 0 <= c <= r /\ r <= 3 * m) by lia. clear Bq Bp.
  rewrite rc_pairs_filter.
  change (c6_neighbours (r, c)) with [(r - 1, c - 1); (r - 1, c); (r, c - 1); (r, c + 1); (r + 1, c); (r + 1, c + 1)].
  cbn [fold_right]. unfold rc_idx_eqb. cbn [fst snd].
  destruct (Z.eqb_spec (r1 mod 3) 0) as [E0|E0]; [|destruct (Z.eqb_spec (r1 mod 3) 1) as [E1|E1]; [|destruct (Z.eqb_spec (r1 mod 3) 2) as [E2|E2]]];
    try (exfalso; lia); injection HS as <-;
    rewrite !rc_cnt_filter, !rc_cnt_app, !rc_cnt_filter, !c6_cnt_row_pyrange, !c6_cnt_col_pyrange, !Z.eqb_refl;
    cbn [negb]; rewrite !andb_false_r; cbn [Z.b2z]; rewrite ?Z.mul_0_r, ?Z.add_0_r, ?Z.add_0_l;
    rewrite !rc_b2z_mul, !andb_assoc, !andb_diag;
    rewrite !(c6_inb_unfold size m Hsize), !c6_site_unfold; cbn [fst snd].
  - (* red: along the row to column -1 *)
    assert (Hd : r = r1 \/ r = r1 - 1 \/ r = r1 + 1 \/ r < r1 - 1 \/ r1 + 1 < r) by lia.
    assert (Hd2 : c = c1 \/ c < c1 \/ c1 < c) by lia.
    destruct Hd as [-> | [-> | [-> | [Hd | Hd]]]]; destruct Hd2 as [-> | [Hd2 | Hd2]];
      try (exfalso; clear Bp' Bq'; lia);
      match goal with |- Z.odd ?z = ?b => assert (E : z mod 2 = Z.b2z b) by lia end;
      match goal with |- Z.odd ?z = ?b => destruct b; [apply rc_odd_of_mod2_1|apply rc_odd_of_mod2_0]; exact E end.
  - (* down the column to row bound + 1 *)
    assert (Hd : c = c1 \/ c = c1 - 1 \/ c = c1 + 1 \/ c < c1 - 1 \/ c1 + 1 < c) by lia.
    assert (Hd2 : r = r1 \/ r < r1 \/ r1 < r) by lia.
    destruct Hd as [-> | [-> | [-> | [Hd | Hd]]]]; destruct Hd2 as [-> | [Hd2 | Hd2]];
      try (exfalso; clear Bp' Bq'; lia);
      match goal with |- Z.odd ?z = ?b => assert (E : z mod 2 = Z.b2z b) by lia end;
      match goal with |- Z.odd ?z = ?b => destruct b; [apply rc_odd_of_mod2_1|apply rc_odd_of_mod2_0]; exact E end.
  - (* along the row to column r1 + 1 *)
    assert (Hd : r = r1 \/ r = r1 - 1 \/ r = r1 + 1 \/ r < r1 - 1 \/ r1 + 1 < r) by lia.
    assert (Hd2 : c = c1 \/ c < c1 \/ c1 < c) by lia.
    destruct Hd as [-> | [-> | [-> | [Hd | Hd]]]]; destruct Hd2 as [-> | [Hd2 | Hd2]];
      try (exfalso; clear Bp' Bq'; lia);
      match goal with |- Z.odd ?z = ?b => assert (E : z mod 2 = Z.b2z b) by lia end;
      match goal with |- Z.odd ?z = ?b => destruct b; [apply rc_odd_of_mod2_1|apply rc_odd_of_mod2_0]; exact E end.
Qed.
End ColorSample.
