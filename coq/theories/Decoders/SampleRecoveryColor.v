(* Decoders/SampleRecoveryColor.v — the recovery construction of Color666MPSDecoder
   (color/_color666mpsdecoder.py:149-183):
     for syndrome_indices, op in zip(code.syndrome_to_plaquette_indices(syndrome), ('Z', 'X')):
       for (r1, c1) in syndrome_indices:
         (r2, c2) = code.virtual_plaquette_index((r1, c1))
         step = sign(c2 - c1); if step: for cc in range(c1, c2 + step, step): if is_site((r1, cc)): site(op, (r1, cc))
         step = sign(r2 - r1); if step: for rr in range(r1, r2 + step, step): if is_site((rr, c1)): site(op, (rr, c1))
   and of what decode returns (sample times I / logical X / logical X logical Z / logical Z, an arbitrary oracle here).

   Theorems (ALL odd sizes >= 3, EVERY bit vector of syndrome length, EVERY iteration order of the two Python sets,
   EVERY coset): the returned operator has exactly the given syndrome:
     color_sample_syndrome_all, color_mps_decode_syndrome_all. *)
From Coq Require Import ZArith List Bool Lia ZifyBool Permutation.
From QV Require Import Core.Bits Core.Pauli Core.Symp Core.Code App.RunOnce Generated.LatticeArith
  Lattice.Planar Lattice.PlanarAll Decoders.Checker Decoders.MwpmRel
  Lattice.RotPlanar Lattice.Color Lattice.RotPlanarAll Lattice.RotPlanarValidAll Lattice.ColorValidAll
  Decoders.SampleRecovery.
Import ListNotations.
Open Scope Z_scope.
Ltac Zify.zify_post_hook ::= Z.to_euclidean_division_equations.

(* range(a, b + step, step) with step = np.sign(b - a); the loop is skipped when step = 0 *)
Definition c6_pyrange (a b : Z) : list Z :=
  if a <? b then map (fun i => a + Z.of_nat i) (seq 0 (Z.to_nat (b - a + 1)))
  else if b <? a then map (fun i => a - Z.of_nat i) (seq 0 (Z.to_nat (a - b + 1)))
  else [].

(* ---- counting along ascending / descending runs ---- *)
Lemma c6_cnt_row_up s X lo m : rc_cnt s (map (fun c => (X, c)) (map (fun i => lo + Z.of_nat i) (seq 0 m))) =
  Z.b2z ((fst s =? X) && (lo <=? snd s) && (snd s <? lo + Z.of_nat m)).
Proof.
  induction m as [|m IH]; [cbn; lia|]. rewrite seq_S, !map_app, rc_cnt_app, IH. cbn [map Nat.add]. rewrite rc_cnt_cons.
  destruct s as [a b]. unfold rc_idx_eqb, rc_cnt. cbn [fst snd fold_right]. lia.
Qed.
Lemma c6_cnt_row_down s X hi m : rc_cnt s (map (fun c => (X, c)) (map (fun i => hi - Z.of_nat i) (seq 0 m))) =
  Z.b2z ((fst s =? X) && (hi - Z.of_nat m <? snd s) && (snd s <=? hi)).
Proof.
  induction m as [|m IH]; [cbn; lia|]. rewrite seq_S, !map_app, rc_cnt_app, IH. cbn [map Nat.add]. rewrite rc_cnt_cons.
  destruct s as [a b]. unfold rc_idx_eqb, rc_cnt. cbn [fst snd fold_right]. lia.
Qed.
Lemma c6_cnt_col_up s Y lo m : rc_cnt s (map (fun r => (r, Y)) (map (fun i => lo + Z.of_nat i) (seq 0 m))) =
  Z.b2z ((snd s =? Y) && (lo <=? fst s) && (fst s <? lo + Z.of_nat m)).
Proof.
  induction m as [|m IH]; [cbn; lia|]. rewrite seq_S, !map_app, rc_cnt_app, IH. cbn [map Nat.add]. rewrite rc_cnt_cons.
  destruct s as [a b]. unfold rc_idx_eqb, rc_cnt. cbn [fst snd fold_right]. lia.
Qed.
Lemma c6_cnt_col_down s Y hi m : rc_cnt s (map (fun r => (r, Y)) (map (fun i => hi - Z.of_nat i) (seq 0 m))) =
  Z.b2z ((snd s =? Y) && (hi - Z.of_nat m <? fst s) && (fst s <=? hi)).
Proof.
  induction m as [|m IH]; [cbn; lia|]. rewrite seq_S, !map_app, rc_cnt_app, IH. cbn [map Nat.add]. rewrite rc_cnt_cons.
  destruct s as [a b]. unfold rc_idx_eqb, rc_cnt. cbn [fst snd fold_right]. lia.
Qed.
(* the run between a and b inclusive, whichever way round; empty when a = b *)
Lemma c6_cnt_row_pyrange s X a b : rc_cnt s (map (fun c => (X, c)) (c6_pyrange a b)) =
  Z.b2z ((fst s =? X) && (Z.min a b <=? snd s) && (snd s <=? Z.max a b) && negb (a =? b)).
Proof.
  unfold c6_pyrange. destruct (Z.ltb_spec a b) as [H|H]; [|destruct (Z.ltb_spec b a) as [H'|H']].
  - rewrite c6_cnt_row_up. lia.
  - rewrite c6_cnt_row_down. lia.
  - cbn. lia.
Qed.
Lemma c6_cnt_col_pyrange s Y a b : rc_cnt s (map (fun r => (r, Y)) (c6_pyrange a b)) =
  Z.b2z ((snd s =? Y) && (Z.min a b <=? fst s) && (fst s <=? Z.max a b) && negb (a =? b)).
Proof.
  unfold c6_pyrange. destruct (Z.ltb_spec a b) as [H|H]; [|destruct (Z.ltb_spec b a) as [H'|H']].
  - rewrite c6_cnt_col_up. lia.
  - rewrite c6_cnt_col_down. lia.
  - cbn. lia.
Qed.

Ltac c6_dec_eqb :=
  repeat match goal with
  | |- context [?a =? ?b] =>
      first [ replace (a =? b) with true by (symmetry; apply Z.eqb_eq; lia)
            | replace (a =? b) with false by (symmetry; apply Z.eqb_neq; lia) ]
  end.
Lemma c6_negb_true : negb true = false. Proof. reflexivity. Qed.
Lemma c6_negb_false : negb false = true. Proof. reflexivity. Qed.
Lemma c6_b2z_false : Z.b2z false = 0. Proof. reflexivity. Qed.
Ltac c6_simp_bool :=
  rewrite ?c6_negb_true, ?c6_negb_false; rewrite ?andb_true_l, ?andb_true_r, ?andb_false_r, ?andb_false_l; rewrite ?c6_b2z_false.
Section ColorSample.
Variable size : Z.

(* the sites flipped for one flagged plaquette; None = IndexError of virtual_plaquette_index *)
Definition c6_string_sites (q : ridx) : option (list ridx) :=
  match color_virtual_plaquette_index size q with
  | None => None
  | Some (r2, c2) =>
      let '(r1, c1) := q in
      Some (filter color_is_site (map (fun cc => (r1, cc)) (c6_pyrange c1 c2)) ++
            filter color_is_site (map (fun rr => (rr, c1)) (c6_pyrange r1 r2)))
  end.
Fixpoint c6_sample_strings (op : pl) (L : list ridx) (p : rc_pauli) : option rc_pauli :=
  match L with
  | [] => Some p
  | q :: L' =>
      match c6_string_sites q with
      | None => None
      | Some sl => match c6_sites size op sl p with None => None | Some p' => c6_sample_strings op L' p' end
      end
  end.
(* zip((X-stabilizer plaquettes, Z-stabilizer plaquettes), ('Z', 'X')), each set in a given iteration order *)
Definition color_sample_recovery_ord (LX LZ : list ridx) : option rc_pauli :=
  match c6_sample_strings pZ LX (c6_identity size) with
  | None => None
  | Some p => c6_sample_strings pX LZ p
  end.
Definition color_sample_recovery (syn : bsf) : option rc_pauli :=
  let '(lx, lz) := c6_syndrome_to_plaquette_indices size syn in color_sample_recovery_ord lx lz.
Definition color_apply_coset (c : coset) (p : rc_pauli) : option rc_pauli :=
  match c with
  | CI => Some p
  | CX => c6_logical size pX p
  | CY => match c6_logical size pX p with Some p' => c6_logical size pZ p' | None => None end
  | CZ => c6_logical size pZ p
  end.
Definition color_mps_recovery (c : coset) (syn : bsf) : option bsf :=
  match color_sample_recovery syn with
  | None => None
  | Some p => option_map rc_to_bsf (color_apply_coset c p)
  end.

Variable m : Z.
Hypothesis Hm : 1 <= m.
Hypothesis Hsize : size = 2 * m + 1.
Notation inb := (color_is_in_bounds size).
Notation CN := (c6_n size).
Notation CPI := (c6_plaquette_indices size).
Notation CS := (stabs (color_code size)).

Lemma c6_string_sites_some q : color_is_plaquette q = true -> exists sl, c6_string_sites q = Some sl /\ c6_all_sites sl.
Proof.
  intros Hq. unfold c6_string_sites, color_virtual_plaquette_index. destruct q as [r1 c1]. rewrite Hq. cbn [negb].
  assert (Hall : forall r2 c2, c6_all_sites (filter color_is_site (map (fun cc => (r1, cc)) (c6_pyrange c1 c2)) ++
                                         filter color_is_site (map (fun rr => (rr, c1)) (c6_pyrange r1 r2)))).
  { intros r2 c2 a Ha. apply in_app_iff in Ha. destruct Ha as [Ha|Ha]; apply filter_In in Ha; tauto. }
  destruct (Z.eqb_spec (r1 mod 3) 0); [eexists; split; [reflexivity|apply Hall]|].
  destruct (Z.eqb_spec (r1 mod 3) 1); [eexists; split; [reflexivity|apply Hall]|].
  destruct (Z.eqb_spec (r1 mod 3) 2); [eexists; split; [reflexivity|apply Hall]|]. exfalso. lia.
Qed.

(* the string of plaquette q meets the hexagon of plaquette p in an odd number of lattice sites exactly when p = q *)
Lemma c6_string_overlap q p sl :
  color_is_plaquette q = true -> color_is_plaquette p = true -> inb q = true -> inb p = true ->
  c6_string_sites q = Some sl ->
  Z.odd (rc_pairs (filter inb (c6_neighbours p)) (filter inb sl)) = rc_idx_eqb p q.
Proof.
  intros Tq Tp Bq Bp HS. destruct q as [r1 c1], p as [r c].
  unfold c6_string_sites, color_virtual_plaquette_index in HS. rewrite Tq in HS. cbn [negb] in HS.
  rewrite (c6_bound_eq size m Hsize) in HS. remember (3 * m + 1) as B1 eqn:HB1.
  rewrite c6_plaq_unfold in Tq, Tp. rewrite (c6_inb_unfold size m Hsize) in Bq, Bp. cbn [fst snd] in Tq, Tp, Bq, Bp.
  apply Z.eqb_eq in Tq, Tp.
  assert (Bq' : 0 <= c1 <= r1 /\ r1 <= 3 * m) by lia. assert (Bp' : 0 <= c <= r /\ r <= 3 * m) by lia. clear Bq Bp.
  rewrite rc_pairs_filter.
  change (c6_neighbours (r, c)) with [(r - 1, c - 1); (r - 1, c); (r, c - 1); (r, c + 1); (r + 1, c); (r + 1, c + 1)].
  cbn [fold_right]. unfold rc_idx_eqb. cbn [fst snd].
  destruct (Z.eqb_spec (r1 mod 3) 0) as [E0|E0]; [|destruct (Z.eqb_spec (r1 mod 3) 1) as [E1|E1]; [|destruct (Z.eqb_spec (r1 mod 3) 2) as [E2|E2]]];
    try (exfalso; lia); injection HS as <-;
    rewrite !rc_cnt_filter, !rc_cnt_app, !rc_cnt_filter, !c6_cnt_row_pyrange, !c6_cnt_col_pyrange, !Z.eqb_refl;
    cbn [negb]; rewrite !andb_false_r; cbn [Z.b2z]; rewrite ?Z.mul_0_r, ?Z.add_0_r, ?Z.add_0_l;
    rewrite !rc_b2z_mul, !andb_assoc, !andb_diag;
    rewrite !(c6_inb_unfold size m Hsize), !c6_site_unfold; cbn [fst snd].
  - (* r1 mod 3 = 0: along the row to column -1 *)
    assert (Hd : r = r1 \/ r = r1 - 1 \/ r = r1 + 1 \/ r < r1 - 1 \/ r1 + 1 < r) by lia.
    assert (Hd2 : c = c1 \/ c < c1 \/ c1 < c) by lia.
    destruct Hd as [-> | [-> | [-> | [Hd | Hd]]]]; destruct Hd2 as [-> | [Hd2 | Hd2]];
      try (exfalso; clear Bp' Bq'; lia); c6_dec_eqb; c6_simp_bool;
      match goal with |- Z.odd ?z = ?b => assert (E : z mod 2 = Z.b2z b) by lia end;
      match goal with |- Z.odd ?z = ?b => destruct b; [apply rc_odd_of_mod2_1|apply rc_odd_of_mod2_0]; exact E end.
  - (* r1 mod 3 = 1: down the column to row bound + 1 *)
    assert (Hd : c = c1 \/ c = c1 - 1 \/ c = c1 + 1 \/ c < c1 - 1 \/ c1 + 1 < c) by lia.
    assert (Hd2 : r = r1 \/ r < r1 \/ r1 < r) by lia.
    destruct Hd as [-> | [-> | [-> | [Hd | Hd]]]]; destruct Hd2 as [-> | [Hd2 | Hd2]];
      try (exfalso; clear Bp' Bq'; lia); c6_dec_eqb; c6_simp_bool;
      match goal with |- Z.odd ?z = ?b => assert (E : z mod 2 = Z.b2z b) by lia end;
      match goal with |- Z.odd ?z = ?b => destruct b; [apply rc_odd_of_mod2_1|apply rc_odd_of_mod2_0]; exact E end.
  - (* r1 mod 3 = 2: along the row to column r1 + 1 *)
    assert (Hd : r = r1 \/ r = r1 - 1 \/ r = r1 + 1 \/ r < r1 - 1 \/ r1 + 1 < r) by lia.
    assert (Hd2 : c = c1 \/ c < c1 \/ c1 < c) by lia.
    destruct Hd as [-> | [-> | [-> | [Hd | Hd]]]]; destruct Hd2 as [-> | [Hd2 | Hd2]];
      try (exfalso; clear Bp' Bq'; lia); c6_dec_eqb; c6_simp_bool;
      match goal with |- Z.odd ?z = ?b => assert (E : z mod 2 = Z.b2z b) by lia end;
      match goal with |- Z.odd ?z = ?b => destruct b; [apply rc_odd_of_mod2_1|apply rc_odd_of_mod2_0]; exact E end.
Qed.

(* ---- strings as sparse operators ---- *)
Definition c6_string_list (q : ridx) : list ridx := match c6_string_sites q with Some sl => sl | None => [] end.
Definition c6_string (op : pl) (q : ridx) : bsf := c6_sop size op (c6_string_list q).
Definition c6_ind (x : ridx) : bsf := indv rc_idx_eqb CPI x.
Notation K := (length CPI).

Lemma c6_string_list_sites q : color_is_plaquette q = true -> c6_string_sites q = Some (c6_string_list q) /\ c6_all_sites (c6_string_list q).
Proof. intros Hq. destruct (c6_string_sites_some q Hq) as (sl & E & Hs). unfold c6_string_list. rewrite E. auto. Qed.
Lemma c6_sop_length op L : length (c6_sop size op L) = (CN + CN)%nat.
Proof. apply rc_gop_length. Qed.
Lemma c6_stabs_len : length CS = (K + K)%nat.
Proof. rewrite c6_code_eq. cbn [stabs]. now rewrite app_length, !map_length. Qed.

Theorem c6_string_syndrome_bit opA q opB p : In q CPI -> In p CPI ->
  bsp (c6_string opA q) (c6_stab size opB p) =
  xorb (zbit opA && xbit opB && rc_idx_eqb p q) (xbit opA && zbit opB && rc_idx_eqb p q).
Proof.
  intros Hq Hp. apply c6_in_plaquette_indices in Hq, Hp. destruct Hq as [Tq Bq], Hp as [Tp Bp].
  destruct (c6_string_list_sites q Tq) as [E Hs].
  unfold c6_string, c6_stab. rewrite c6_bsp_sop_sym. rewrite (c6_bsp_sop size m Hm Hsize) by (auto using c6_nbrs_sites).
  cbv zeta. rewrite (c6_string_overlap q p _ Tq Tp Bq Bp E).
  destruct (xbit opA), (zbit opA), (xbit opB), (zbit opB), (rc_idx_eqb p q); reflexivity.
Qed.
Lemma c6_syndrome_app A B e : syndrome_of (A ++ B) e = syndrome_of A e ++ syndrome_of B e.
Proof. unfold syndrome_of. apply map_app. Qed.
(* a Z-string flags exactly its own X-stabilizer; an X-string exactly its own Z-stabilizer *)
Theorem c6_string_syndrome_Z q : In q CPI -> syndrome_of CS (c6_string pZ q) = c6_ind q ++ zeros K.
Proof.
  intros Hq. rewrite c6_code_eq. cbn [stabs]. rewrite c6_syndrome_app. unfold syndrome_of. rewrite !map_map. f_equal.
  - unfold c6_ind, indv. apply map_ext_in. intros p Hp. rewrite c6_string_syndrome_bit by auto. cbn [xbit zbit andb].
    now rewrite xorb_false_r.
  - rewrite <- (map_false CPI). apply map_ext_in. intros p Hp. rewrite c6_string_syndrome_bit by auto. reflexivity.
Qed.
Theorem c6_string_syndrome_X q : In q CPI -> syndrome_of CS (c6_string pX q) = zeros K ++ c6_ind q.
Proof.
  intros Hq. rewrite c6_code_eq. cbn [stabs]. rewrite c6_syndrome_app. unfold syndrome_of. rewrite !map_map. f_equal.
  - rewrite <- (map_false CPI). apply map_ext_in. intros p Hp. rewrite c6_string_syndrome_bit by auto. reflexivity.
  - unfold c6_ind, indv. apply map_ext_in. intros p Hp. rewrite c6_string_syndrome_bit by auto. cbn [xbit zbit andb].
    now rewrite xorb_false_l.
Qed.

(* ---- the loops compute XORs of strings ---- *)
Lemma c6_sites_xor op L p : c6_all_sites L -> length (rc_xs p) = CN -> length (rc_zs p) = CN ->
  exists p', c6_sites size op L p = Some p' /\ rc_to_bsf p' = xorv (rc_to_bsf p) (c6_sop size op L) /\
    length (rc_xs p') = CN /\ length (rc_zs p') = CN.
Proof.
  intros HL Hx Hz. rewrite c6_sites_keys by auto. eexists. split; [reflexivity|].
  destruct (rc_apply_flips_lengths op (c6_keys size L) p) as [E1 E2].
  split; [apply rc_apply_flips_xor; auto; now apply (c6_keys_klt size m Hm Hsize)|lia].
Qed.
Lemma c6_sample_strings_xor op : forall L p, (forall q, In q L -> In q CPI) ->
  length (rc_xs p) = CN -> length (rc_zs p) = CN ->
  exists p', c6_sample_strings op L p = Some p' /\
    rc_to_bsf p' = xorv (rc_to_bsf p) (xsum (CN + CN) (map (c6_string op) L)) /\
    length (rc_xs p') = CN /\ length (rc_zs p') = CN.
Proof.
  induction L as [|q L IH]; intros p HL Hx Hz.
  - exists p. split; [reflexivity|]. split; auto. change (xsum (CN + CN) (map (c6_string op) [])) with (zeros (CN + CN)).
    replace (CN + CN)%nat with (length (rc_to_bsf p)) by (unfold rc_to_bsf; rewrite app_length; lia).
    symmetry. apply xorv_zeros_r.
  - pose proof (HL q (or_introl eq_refl)) as Hq. apply c6_in_plaquette_indices in Hq. destruct Hq as [Tq Bq].
    destruct (c6_string_list_sites q Tq) as [E Hs]. cbn [c6_sample_strings]. rewrite E.
    destruct (c6_sites_xor op (c6_string_list q) p Hs Hx Hz) as (p1 & E1 & B1 & Hx1 & Hz1). rewrite E1.
    destruct (IH p1 (fun q' H' => HL q' (or_intror H')) Hx1 Hz1) as (p' & E' & B' & Hx' & Hz').
    exists p'. split; [exact E'|]. split; auto. rewrite B', B1. cbn [map]. rewrite xsum_cons. fold (c6_string op q).
    apply xorv_assoc.
Qed.

Lemma c6_product_NoDup : NoDup (c6_product size).
Proof.
  unfold c6_product. apply NoDup_flat_map; [apply rc_range_NoDup| |].
  - intros r _. apply rc_NoDup_map_inj; [|apply rc_range_NoDup]. intros a b _ _ H. congruence.
  - intros r r' b _ _ Hy Hy'. apply in_map_iff in Hy, Hy'. destruct Hy as (x & <- & _), Hy' as (x' & E & _). congruence.
Qed.
Lemma c6_PI_NoDup : NoDup CPI.
Proof. unfold c6_plaquette_indices. apply NoDup_filter, c6_product_NoDup. Qed.

Lemma c6_xsum_left k : forall (L : list bsf), Forall (fun r => length r = k) L ->
  xsum (k + k) (map (fun r => r ++ zeros k) L) = xsum k L ++ zeros k.
Proof.
  induction 1 as [|r L Hr HL IH]; [symmetry; apply zeros_app|]. cbn [map]. rewrite !xsum_cons, IH.
  rewrite xorv_app by (rewrite xsum_len; auto). now rewrite xorv_zz.
Qed.
Lemma c6_xsum_right k : forall (L : list bsf), Forall (fun r => length r = k) L ->
  xsum (k + k) (map (fun r => zeros k ++ r) L) = zeros k ++ xsum k L.
Proof.
  induction 1 as [|r L Hr HL IH]; [symmetry; apply zeros_app|]. cbn [map]. rewrite !xsum_cons, IH.
  rewrite xorv_app by (now rewrite !zeros_length). now rewrite xorv_zz.
Qed.
Lemma c6_halves_app (syn : bsf) : length syn = (K + K)%nat ->
  length (fst (halves syn)) = K /\ length (snd (halves syn)) = K /\ fst (halves syn) ++ snd (halves syn) = syn.
Proof.
  intros HL. unfold halves. rewrite HL, half_double. cbn [fst snd]. rewrite firstn_length, skipn_length, firstn_skipn, HL. split; [lia|split; [lia|reflexivity]].
Qed.
Lemma c6_select_sum (s : bsf) L : length s = K -> Permutation L (rc_select s CPI) ->
  xsum K (map c6_ind L) = s.
Proof.
  intros Hs P. unfold c6_ind. rewrite xsum_indv.
  transitivity (map (fun q => xsumb (rc_idx_eqb q) (select s CPI)) CPI);
    [|apply (select_indicator rc_idx_eqb rc_idx_eqb_spec CPI s c6_PI_NoDup Hs)].
  apply map_ext_in. intros q Hq. apply xsumb_perm. now rewrite rc_select_select in P.
Qed.

(* the sample: every order of the two sets of flagged plaquettes *)
Theorem color_sample_syndrome (syn : bsf) (LX LZ : list ridx) :
  length syn = (K + K)%nat ->
  Permutation LX (fst (c6_syndrome_to_plaquette_indices size syn)) ->
  Permutation LZ (snd (c6_syndrome_to_plaquette_indices size syn)) ->
  exists p, color_sample_recovery_ord LX LZ = Some p /\ length (rc_xs p) = CN /\ length (rc_zs p) = CN /\
    rc_to_bsf p = xsum (CN + CN) (map (c6_string pZ) LX ++ map (c6_string pX) LZ) /\
    syndrome_of CS (rc_to_bsf p) = syn.
Proof.
  intros HLs PX PZ. destruct (c6_halves_app syn HLs) as (Hsx & Hsz & Hsyn).
  unfold c6_syndrome_to_plaquette_indices in PX, PZ. destruct (halves syn) as [sx sz]. cbn [fst snd] in *.
  assert (HX : forall q, In q LX -> In q CPI).
  { intros q Hq. apply (Permutation_in _ PX) in Hq. rewrite rc_select_select in Hq. eapply select_incl; eauto. }
  assert (HZ : forall q, In q LZ -> In q CPI).
  { intros q Hq. apply (Permutation_in _ PZ) in Hq. rewrite rc_select_select in Hq. eapply select_incl; eauto. }
  assert (I0 : length (rc_xs (c6_identity size)) = CN /\ length (rc_zs (c6_identity size)) = CN)
    by (unfold c6_identity, rc_identity; cbn [rc_xs rc_zs]; now rewrite zeros_length).
  destruct I0 as [Ix Iz].
  destruct (c6_sample_strings_xor pZ LX _ HX Ix Iz) as (p1 & E1 & B1 & Hx1 & Hz1).
  destruct (c6_sample_strings_xor pX LZ _ HZ Hx1 Hz1) as (p2 & E2 & B2 & Hx2 & Hz2).
  exists p2. unfold color_sample_recovery_ord. rewrite E1. split; [exact E2|]. split; [exact Hx2|]. split; [exact Hz2|].
  assert (RX : rowlen (CN + CN) (map (c6_string pZ) LX)).
  { unfold rowlen. apply Forall_map, Forall_forall. intros q _. apply c6_sop_length. }
  assert (RZ : rowlen (CN + CN) (map (c6_string pX) LZ)).
  { unfold rowlen. apply Forall_map, Forall_forall. intros q _. apply c6_sop_length. }
  assert (Hb : rc_to_bsf p2 = xsum (CN + CN) (map (c6_string pZ) LX ++ map (c6_string pX) LZ)).
  { rewrite B2, B1. unfold c6_identity, rc_identity, rc_to_bsf at 1. cbn [rc_xs rc_zs]. rewrite zeros_app.
    rewrite xorv_zeros_l by (apply xsum_len; exact RX). symmetry. apply xsum_app; auto. }
  split; [exact Hb|]. rewrite Hb.
  rewrite product_syndrome by (unfold rowlen; apply Forall_app; split; auto).
  rewrite map_app, !map_map, c6_stabs_len.
  rewrite (map_ext_in _ (fun q => c6_ind q ++ zeros K) LX) by (intros q Hq; apply c6_string_syndrome_Z; auto).
  rewrite (map_ext_in _ (fun q => zeros K ++ c6_ind q) LZ) by (intros q Hq; apply c6_string_syndrome_X; auto).
  assert (RI : forall L, Forall (fun r => length r = K) (map c6_ind L)).
  { intros L. apply Forall_map, Forall_forall. intros q _. unfold c6_ind. apply indv_len. }
  rewrite xsum_app.
  - rewrite <- (map_map c6_ind (fun r => r ++ zeros K)), <- (map_map c6_ind (fun r => zeros K ++ r)).
    rewrite c6_xsum_left, c6_xsum_right by auto.
    rewrite xorv_app by (rewrite xsum_len, zeros_length; auto).
    rewrite (xorv_comm _ (zeros K)), !xorv_zeros_l by (apply xsum_len; auto).
    rewrite (c6_select_sum sx LX Hsx PX), (c6_select_sum sz LZ Hsz PZ). exact Hsyn.
  - apply Forall_map, Forall_forall. intros q _. rewrite app_length, zeros_length. unfold c6_ind. now rewrite indv_len.
  - apply Forall_map, Forall_forall. intros q _. rewrite app_length, zeros_length. unfold c6_ind. now rewrite indv_len.
Qed.

(* ---- the logical operators (column c = 0) ---- *)
Definition color_coset_op (c : coset) : bsf :=
  match c with
  | CI => zeros (CN + CN)
  | CX => c6_lop size pX
  | CY => xorv (c6_lop size pX) (c6_lop size pZ)
  | CZ => c6_lop size pZ
  end.
Lemma c6_logical_xor op p : length (rc_xs p) = CN -> length (rc_zs p) = CN ->
  exists p', c6_logical size op p = Some p' /\ rc_to_bsf p' = xorv (rc_to_bsf p) (c6_lop size op) /\
    length (rc_xs p') = CN /\ length (rc_zs p') = CN.
Proof. intros Hx Hz. unfold c6_logical, c6_lop. apply c6_sites_xor; auto. apply c6_col_sites. Qed.
Lemma c6_lop_commutes op s : In s CS -> bsp (c6_lop size op) s = false.
Proof.
  rewrite c6_code_eq. cbn [stabs]. intros Hs. apply in_app_iff in Hs.
  destruct Hs as [Hs|Hs]; apply in_map_iff in Hs; destruct Hs as (q & <- & Hq);
    unfold c6_lop, c6_stab; rewrite c6_bsp_sop_sym; now apply (c6_stab_logical size m Hm Hsize).
Qed.
Lemma color_apply_coset_xor c p : length (rc_xs p) = CN -> length (rc_zs p) = CN ->
  exists p', color_apply_coset c p = Some p' /\ rc_to_bsf p' = xorv (rc_to_bsf p) (color_coset_op c).
Proof.
  intros Hx Hz. destruct c; cbn [color_apply_coset color_coset_op].
  - exists p. split; [reflexivity|].
    replace (CN + CN)%nat with (length (rc_to_bsf p)) by (unfold rc_to_bsf; rewrite app_length; lia).
    symmetry. apply xorv_zeros_r.
  - destruct (c6_logical_xor pX p Hx Hz) as (p' & E & B & _). exists p'. auto.
  - destruct (c6_logical_xor pX p Hx Hz) as (p1 & E1 & B1 & Hx1 & Hz1). rewrite E1.
    destruct (c6_logical_xor pZ p1 Hx1 Hz1) as (p2 & E2 & B2 & _). exists p2. split; [exact E2|].
    rewrite B2, B1. apply xorv_assoc.
  - destruct (c6_logical_xor pZ p Hx Hz) as (p' & E & B & _). exists p'. auto.
Qed.
Lemma color_coset_op_length c : length (color_coset_op c) = (CN + CN)%nat.
Proof.
  destruct c; cbn [color_coset_op]; unfold c6_lop.
  - apply zeros_length.
  - apply c6_sop_length.
  - rewrite xorv_length; rewrite !c6_sop_length; reflexivity.
  - apply c6_sop_length.
Qed.
Lemma color_coset_op_commutes c s : In s CS -> bsp (color_coset_op c) s = false.
Proof.
  intros Hs. destruct c; cbn [color_coset_op].
  - apply bsp_zeros_l; [|replace (CN + CN)%nat with (2 * CN)%nat by lia; apply Nat.even_spec; now exists CN].
    rewrite c6_code_eq in Hs. cbn [stabs] in Hs. apply in_app_iff in Hs.
    destruct Hs as [Hs|Hs]; apply in_map_iff in Hs; destruct Hs as (q & <- & _); apply c6_sop_length.
  - now apply c6_lop_commutes.
  - rewrite bsp_linear_l by (unfold c6_lop; now rewrite !c6_sop_length). now rewrite !c6_lop_commutes.
  - now apply c6_lop_commutes.
Qed.

(* C02 for Color666MPSDecoder.decode: whichever coset the contraction prefers *)
Theorem color_mps_decode_syndrome (c : coset) (syn : bsf) (LX LZ : list ridx) :
  length syn = (K + K)%nat ->
  Permutation LX (fst (c6_syndrome_to_plaquette_indices size syn)) ->
  Permutation LZ (snd (c6_syndrome_to_plaquette_indices size syn)) ->
  exists p p', color_sample_recovery_ord LX LZ = Some p /\ color_apply_coset c p = Some p' /\
    rc_to_bsf p' = xorv (rc_to_bsf p) (color_coset_op c) /\ length (rc_to_bsf p') = (CN + CN)%nat /\
    syndrome_of CS (rc_to_bsf p') = syn.
Proof.
  intros HLs PX PZ. destruct (color_sample_syndrome syn LX LZ HLs PX PZ) as (p & Hp & Hx & Hz & _ & Hsyn).
  destruct (color_apply_coset_xor c p Hx Hz) as (p' & E & B). exists p, p'. split; [exact Hp|]. split; [exact E|].
  split; [exact B|].
  assert (Hlen : length (rc_to_bsf p) = (CN + CN)%nat) by (unfold rc_to_bsf; rewrite app_length; lia).
  rewrite B. split.
  - rewrite xorv_length; [exact Hlen|now rewrite color_coset_op_length].
  - rewrite syndrome_shift; [exact Hsyn|now rewrite color_coset_op_length|apply color_coset_op_commutes].
Qed.
End ColorSample.

(* ---- the all-sizes statements ---- *)
Lemma color_size_half size : 3 <= size -> size mod 2 = 1 -> 1 <= size / 2 /\ size = 2 * (size / 2) + 1.
Proof. lia. Qed.
(* C02, Color666MPSDecoder.sample_recovery: every odd size >= 3, every syndrome-length bit vector, every iteration
   order of the two sets *)
Theorem color_sample_syndrome_all : forall size, 3 <= size -> size mod 2 = 1 ->
  forall (syn : bsf) (LX LZ : list ridx),
  length syn = length (stabs (color_code size)) ->
  Permutation LX (fst (c6_syndrome_to_plaquette_indices size syn)) ->
  Permutation LZ (snd (c6_syndrome_to_plaquette_indices size syn)) ->
  exists p, color_sample_recovery_ord size LX LZ = Some p /\
    length (rc_to_bsf p) = (c6_n size + c6_n size)%nat /\
    syndrome_of (stabs (color_code size)) (rc_to_bsf p) = syn.
Proof.
  intros size Hs Ho syn LX LZ HL PX PZ. destruct (color_size_half size Hs Ho) as [Hm Hsize].
  rewrite c6_stabs_len in HL.
  destruct (color_sample_syndrome size (size / 2) Hm Hsize syn LX LZ HL PX PZ) as (p & Hp & Hx & Hz & _ & Hsyn).
  exists p. split; [exact Hp|]. split; [unfold rc_to_bsf; rewrite app_length; lia|exact Hsyn].
Qed.
(* C02, Color666MPSDecoder.decode: recovery = sample xor L for L in {I, X, XZ, Z}-logical *)
Theorem color_mps_decode_syndrome_all : forall size, 3 <= size -> size mod 2 = 1 ->
  forall (c : coset) (syn : bsf) (LX LZ : list ridx),
  length syn = length (stabs (color_code size)) ->
  Permutation LX (fst (c6_syndrome_to_plaquette_indices size syn)) ->
  Permutation LZ (snd (c6_syndrome_to_plaquette_indices size syn)) ->
  exists p p', color_sample_recovery_ord size LX LZ = Some p /\ color_apply_coset size c p = Some p' /\
    rc_to_bsf p' = xorv (rc_to_bsf p) (color_coset_op size c) /\
    length (rc_to_bsf p') = (c6_n size + c6_n size)%nat /\
    syndrome_of (stabs (color_code size)) (rc_to_bsf p') = syn.
Proof.
  intros size Hs Ho c syn LX LZ HL PX PZ. destruct (color_size_half size Hs Ho) as [Hm Hsize].
  rewrite c6_stabs_len in HL.
  exact (color_mps_decode_syndrome size (size / 2) Hm Hsize c syn LX LZ HL PX PZ).
Qed.
Corollary color_mps_recovery_syndrome_all : forall size, 3 <= size -> size mod 2 = 1 ->
  forall (c : coset) (syn : bsf), length syn = length (stabs (color_code size)) ->
  exists r, color_mps_recovery size c syn = Some r /\ length r = (c6_n size + c6_n size)%nat /\
    syndrome_of (stabs (color_code size)) r = syn.
Proof.
  intros size Hs Ho c syn HL.
  destruct (color_mps_decode_syndrome_all size Hs Ho c syn _ _ HL (Permutation_refl _) (Permutation_refl _))
    as (p & p' & Hp & Hp' & _ & H2 & H3).
  exists (rc_to_bsf p'). unfold color_mps_recovery, color_sample_recovery.
  destruct (c6_syndrome_to_plaquette_indices size syn) as [lx lz]. cbn [fst snd] in Hp. rewrite Hp, Hp'. auto.
Qed.
Corollary color_mps_recovery_of_error_all : forall size, 3 <= size -> size mod 2 = 1 -> forall (c : coset) (e : bsf),
  let S := stabs (color_code size) in
  exists r, color_mps_recovery size c (syndrome_of S e) = Some r /\ syndrome_of S r = syndrome_of S e.
Proof.
  intros size Hs Ho c e S.
  destruct (color_mps_recovery_syndrome_all size Hs Ho c (syndrome_of S e)) as (r & H1 & _ & H3);
    [apply syndrome_length|]. exists r. auto.
Qed.

(* ---- non-vacuity ---- *)
Example color_mps_recovery_ex :
  let St := stabs (color_code 3) in
  forallb (fun syn => forallb (fun co =>
    match color_mps_recovery 3 co syn with Some r => beqv (syndrome_of St r) syn | None => false end) cosets)
    (all_bits (length St)) = true.
Proof. vm_compute. reflexivity. Qed.
(* size 5: one plaquette of each colour (rows 3k, 3k+1, 3k+2) and the three directions of the strings *)
Example color_string_ex :
  c6_plaquette_indices 5 = [(1, 1); (2, 0); (3, 2); (4, 1); (4, 4); (5, 0); (5, 3); (6, 2); (6, 5)] /\
  c6_string_sites 5 (3, 2) = Some [(3, 1); (3, 0)] /\
  c6_string_sites 5 (4, 1) = Some [(5, 1); (6, 1)] /\
  c6_string_sites 5 (2, 0) = Some [(2, 1); (2, 2)] /\
  c6_string_sites 5 (6, 5) = Some [(6, 4); (6, 3); (6, 1); (6, 0)] /\
  let St := stabs (color_code 5) in
  let syn := bits_of_N 18 0x235a9%N in
  match color_mps_recovery 5 CY syn with Some r => beqv (syndrome_of St r) syn | None => false end = true.
Proof. vm_compute. repeat split; reflexivity. Qed.

Print Assumptions color_sample_syndrome_all.
Print Assumptions color_mps_decode_syndrome_all.
